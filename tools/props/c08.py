"""C08 — combinators mean what their definitions say, for every shape and axis.

Tie: Chain/Invert are REGENERATED (Gen/Combinators.lean), and so are the four methods and the constructors of
Concatenate, Stack, Partial, Reshape, EmbedCondition (Gen/ArrCombinators.lean, whose bodies call the primitive specs
of Model/ArrJnp.lean; Props/C08 section 10 proves generated = hand model).  Both the GENERATED definitions (driver op
`atree`) and the hand model over n-d arrays (Model/Arr.lean, op `atreeh`; Scan/Vmap enter through their defining
equivalences Scan = Chain of the unstacked layers, Vmap = Stack along axis 0 of the per-slice bijections) are run
here against the real objects on random expression trees, ranks 0-3, every valid axis incl. negative, every index
kind of Partial, conditional/unconditional children mixed; the generated constructors' declared shape / cond_shape
are compared with the real objects'.  The primitive specs themselves (array_split, split, squeeze, concatenate,
stack, accumulate, range(n)[i]) are compared with jnp / Python directly (op `jnpprim`).
The witness search is the property's own oracle: a reference interpreter of the combinators'
definitions over the children's real methods (NumPy split/concatenate/stack).
"""
from __future__ import annotations

import math

import equinox as eqx
import jax
import jax.numpy as jnp
import numpy as np

import flowjax.bijections as B

import fj
import vlib
from vlib import f2b, fs2b, b2f, b2fs, ints
from props import c01

ID = "C08"
GEN = ["Combinators", "ArrCombinators", "JaxTransforms", "Leaves", "Misc", "Dist", "Params", "Flows", "MergeGen"]
RULE = ("random expression trees of array bijections (elementwise leaves with per-element non-default parameters, Chain, Invert, "
        "Concatenate and Stack along every valid axis incl. negative, Partial with int/slice/int-array/bool-array/tuple indices, Reshape, "
        "EmbedCondition, Scan, Vmap with mapped or broadcast parameters and mapped/broadcast condition), ranks 0-3, conditional and "
        "unconditional children mixed; all four methods; non-trivial = tree contains at least one combinator and non-default parameters; "
        "distinct = distinct (tree, method, input); premade flows: the Scan / Invert(Scan) of real factory-built coupling / MAF / planar flows "
        "(dims 1-5, 1-4 layers, heterogeneous perturbed layers, each with its own permutation) and of hand-stacked BNAF stacks against the generated "
        "factory bodies = generated Chain of the unstacked layers (both log-det methods), _add_default_permute branch structure, _affine_with_min_scale")
TRUSTED = c01.TRUSTED + [
    "Model/Arr.lean: three-level (O,A,I) view of row-major data for axis operations, gather/scatter for Partial (hand model, validated here against jnp)",
    "Model/ArrJnp.lean: specs of jnp.array_split / split / squeeze / concatenate / stack / reshape / x[idxs] / .at[idxs].set, zip(strict=True), zip(*), sum, accumulate, range(n)[i] that the generated bodies call (total; guards stated in the theorems; validated here against jnp directly and through the trees)",
    "tools/py2lean/targets_arrcomb.py: typing sheet of the generated array combinators (field types; statement-level argument-check calls recorded as guards)",
    "Partial's idxs are resolved to flat positions with NumPy indexing in the harness (in-range indices)",
    "Scan and Vmap enter the HAND model through their defining equivalences (Chain of unstacked layers / Stack along axis 0 of per-slice bijections); lax.scan and filter_vmap themselves are JAX's",
    "Gen/JaxTransforms.lean: the methods of Scan / Vmap, _filter_scan and the nested closures are REGENERATED from jax_transforms.py (py2meth.py, sheet targets_jaxtr.py); trusted are the sheet's typing (a stacked module = the list of its unstacked layer records; None in a tuple = unit; the int literal 0 of the initial carry = the scalar 0) and the meanings of Model/JaxTrWorld.lean: lax.scan (reference loop, reversed list when reverse=True), eqx.partition/combine on a stacked module, eqx.filter_vmap (per-slice application, outputs stacked) — validated here on real Scan / Vmap objects (tree kinds SCAN / VMAP through the generated methods, op jaxtrvmap, premade flows through Flows.scanOf = generated Scan)",
]
TRUSTED.append("Gen/MergeGen.lean: Chain.__getitem__ / __iter__ / __len__ / merge_chains are REGENERATED from chain.py (py2meth.py, sheet targets_merge.py) and tied by proof to flattening / the Python-sliced chain (Props/C08 section MergeGen); trusted are the sheet's typing and the meanings of Model/MergeWorld.lean (a bijection object = leaf | Chain, isinstance = constructor test, t[i] / t[a:b:k] with Python's negative / clamped bounds, list append / extend, `while` = fuel-bounded iteration proved never to exhaust, Chain(...) = the regenerated Chain.__init__ of Gen/CtorsGen.lean) — validated here on real nested chains (op mgch)")
ASSUMPTIONS = ["shape algebra theorems (declared shape = jnp.stack/jnp.concatenate shape, negative axes) live in Props/C13 (ArgCheck model) and are re-exported here"]
TOL = dict(rtol=1e-8, atol=1e-10)


# ------------------------------------------------------------------ tree descriptions
class Node:
    """kind, shape, children, real object, tokens (model), conditional flag, extra data for the reference interpreter"""
    def __init__(self, kind, shape, obj, tokens, cond, children=(), **extra):
        self.kind, self.shape, self.obj, self.tokens, self.cond, self.children, self.extra = kind, tuple(shape), obj, tokens, cond, list(children), extra
        self.nontrivial = kind != "EW" or extra.get("nondefault", False)


def size(shape):
    return int(np.prod(shape)) if len(shape) else 1


def ew_leaf(rng, shape, allow_cond=True):
    n = size(shape)
    if n == 0:
        allow_cond = False   # a zero-sized leaf has no element token that could carry its conditional-ness: keep it unconditional
    kind = rng.choice(["A", "A", "L", "S", "E", "T", "K", "AC" if allow_cond else "A", "P"])
    if kind == "A":
        locs = [rng.uniform(-2, 2) for _ in range(n)]
        scs = [rng.choice([-1, 1]) * math.exp(rng.uniform(-1, 1)) for _ in range(n)]
        obj = fj.affine(np.reshape(locs, shape), np.reshape(scs, shape))
        toks = sum((["A", f2b(l), f2b(s)] for l, s in zip(locs, scs)), [])
    elif kind == "L":
        locs = [rng.uniform(-2, 2) for _ in range(n)]
        obj = B.Loc(np.reshape(locs, shape)); toks = sum((["L", f2b(l)] for l in locs), [])
    elif kind == "S":
        scs = [rng.choice([-1, 1]) * math.exp(rng.uniform(-1, 1)) for _ in range(n)]
        obj = fj.scale_b(np.reshape(scs, shape)); toks = sum((["S", f2b(s)] for s in scs), [])
    elif kind == "E":
        obj = B.Exp(shape); toks = ["E"] * n
    elif kind == "P":
        obj = B.SoftPlus(shape); toks = ["P"] * n
    elif kind == "T":
        obj = B.Tanh(shape); toks = ["T"] * n
    elif kind == "K":
        m = rng.choice([1.0, 2.0, 3.0])
        obj = B.LeakyTanh(m, shape); toks = ["K", f2b(m)] * n
    else:
        ws = [rng.uniform(-2, 2) for _ in range(n)]
        bs = [rng.uniform(-1, 1) for _ in range(n)]
        W, Bb = jnp.asarray(np.reshape(ws, shape)), jnp.asarray(np.reshape(bs, shape))
        obj = B.AdditiveCondition(lambda c, W=W, Bb=Bb: jnp.tanh(W * c + Bb), shape, ())
        toks = sum((["AC", f2b(w), f2b(b)] for w, b in zip(ws, bs)), [])
    return Node("EW", shape, obj, ["EW", str(n)] + toks, kind == "AC", nondefault=kind in ("A", "L", "S", "K", "AC"))


def rand_index(rng, shape):
    """an index accepted by Partial for an array of this shape (rank >= 1); returns python index object"""
    n0 = shape[0]
    kind = rng.choice(["int", "slice", "intarr", "boolarr", "tuple"])
    if kind == "int":
        return rng.randrange(-n0, n0)
    if kind == "slice":
        a = rng.randrange(0, n0)
        b = rng.randrange(a + 1, n0 + 1)
        step = rng.choice([None, 1, 2])
        return slice(a if rng.random() < 0.7 else None, b if rng.random() < 0.7 else None, step)
    if kind == "intarr":
        k = rng.randrange(1, n0 + 1)
        return np.asarray(rng.sample(range(n0), k))
    if kind == "boolarr":
        m = np.asarray([rng.random() < 0.5 for _ in range(n0)])
        if not m.any():
            m[rng.randrange(n0)] = True
        return m
    if len(shape) >= 2:
        return (rng.randrange(0, n0), slice(0, rng.randrange(1, shape[1] + 1)))
    return (slice(0, rng.randrange(1, n0 + 1)),)


def rand_atree(rng, shape, depth, allow_cond=True):
    shape = tuple(shape)
    rank = len(shape)
    opts = ["EW"]
    if 0 in shape:  # zero-sized child of a Concatenate: leaves, chains and inversions only
        opts += ["CH", "INV"] if depth > 0 else []
    elif depth > 0:
        opts += ["CH", "CH", "INV", "RSH"]
        if rank >= 1:
            opts += ["CAT", "CAT", "STK", "STK", "PAR", "PAR", "SCAN", "VMAP"]
        if allow_cond:
            opts += ["EMB"]
    kind = rng.choice(opts)
    if kind == "EW":
        return ew_leaf(rng, shape, allow_cond)
    if kind == "CH":
        ch = [rand_atree(rng, shape, depth - 1, allow_cond) for _ in range(rng.choice([1, 2, 3]))]
        return Node("CH", shape, B.Chain([c.obj for c in ch]), ["CH", str(len(ch))] + sum((c.tokens for c in ch), []), any(c.cond for c in ch), ch)
    if kind == "INV":
        c = rand_atree(rng, shape, depth - 1, allow_cond)
        return Node("INV", shape, B.Invert(c.obj), ["INV"] + c.tokens, c.cond, [c])
    if kind == "RSH":
        n = size(shape)
        cands = [s for s in [(n,), (1, n), (n, 1), (2, n // 2) if n % 2 == 0 else (n,), ()] if size(s) == n and (len(s) > 0 or n == 1)]
        inner = rng.choice(cands)
        c = rand_atree(rng, inner, depth - 1, allow_cond)
        return Node("RSH", shape, B.Reshape(c.obj, shape), ["RSH", ints(shape), ints(inner)] + c.tokens, c.cond, [c])
    if kind == "EMB":
        c = rand_atree(rng, shape, depth - 1, True)
        if not c.cond:
            return c
        w, b = rng.uniform(-2, 2), rng.uniform(-1, 1)
        obj = B.EmbedCondition(c.obj, lambda cnd, w=w, b=b: jnp.tanh(w * cnd + b), ())
        return Node("EMB", shape, obj, ["EMB", f2b(w), f2b(b)] + c.tokens, True, [c], w=w, b=b)
    if kind == "CAT":
        axis = rng.randrange(-rank, rank)
        ax = axis % rank
        total = shape[ax]
        k = rng.randrange(1, min(total, 3) + 1)
        if k > 1 and rng.random() < 0.25:
            k = rng.choice([2, 3])
            cuts = sorted(rng.choice(range(0, total + 1)) for _ in range(k - 1))  # zero-sized children allowed (repeated / end cut points)
        else:
            cuts = sorted(rng.sample(range(1, total), k - 1)) if k > 1 else []
        sizes = [b - a for a, b in zip([0] + cuts, cuts + [total])]
        ch = [rand_atree(rng, shape[:ax] + (s,) + shape[ax + 1:], depth - 1, allow_cond) for s in sizes]
        obj = B.Concatenate([c.obj for c in ch], axis=axis)
        return Node("CAT", shape, obj, ["CAT", ints(shape), str(axis), ints(sizes), str(k)] + sum((c.tokens for c in ch), []),
                    any(c.cond for c in ch), ch, axis=axis)
    if kind == "STK":
        axis = rng.randrange(-rank, rank)
        ax = axis % rank
        k = shape[ax]
        cshape = shape[:ax] + shape[ax + 1:]
        ch = [rand_atree(rng, cshape, depth - 1, allow_cond) for _ in range(k)]
        obj = B.Stack([c.obj for c in ch], axis=axis)
        return Node("STK", shape, obj, ["STK", ints(shape), str(axis), ints(cshape), str(k)] + sum((c.tokens for c in ch), []),
                    any(c.cond for c in ch), ch, axis=axis)
    if kind == "PAR":
        idx = rand_index(rng, shape)
        posarr = np.arange(size(shape)).reshape(shape)[idx]
        sub = tuple(posarr.shape)
        c = rand_atree(rng, sub, depth - 1, allow_cond)
        jidx = jnp.asarray(idx) if isinstance(idx, np.ndarray) else idx
        obj = B.Partial(c.obj, jidx, shape)
        return Node("PAR", shape, obj, ["PAR", ints(shape), ints(sub), ints(posarr.ravel())] + c.tokens, c.cond, [c], idx=idx)
    if kind == "SCAN":
        L = rng.choice([1, 2, 3, 4])
        n = size(shape)
        locs = np.asarray([[rng.uniform(-1, 1) for _ in range(n)] for _ in range(L)]).reshape((L,) + shape)
        scs = np.asarray([[rng.choice([-1, 1]) * math.exp(rng.uniform(-0.5, 0.5)) for _ in range(n)] for _ in range(L)]).reshape((L,) + shape)
        layers = eqx.filter_vmap(lambda l, s: fj.affine(l, s))(jnp.asarray(locs), jnp.asarray(scs))
        obj = B.Scan(layers)
        toks = ["GSCAN", str(L)]   # `atree`: the GENERATED Scan methods; `atreeh`: the hand model (Chain of the unstacked layers)
        for i in range(L):
            toks += ["EW", str(n)] + sum((["A", f2b(l), f2b(s)] for l, s in zip(locs[i].ravel(), scs[i].ravel())), [])
        return Node("SCAN", shape, obj, toks, False, [], layers=[(locs[i], scs[i]) for i in range(L)], nondefault=True)
    if kind == "VMAP":
        k = shape[0]
        cshape = shape[1:]
        n = size(cshape)
        mapped = rng.random() < 0.6
        if mapped:
            locs = np.asarray([[rng.uniform(-1, 1) for _ in range(n)] for _ in range(k)]).reshape((k,) + cshape)
            scs = np.asarray([[rng.choice([-1, 1]) * math.exp(rng.uniform(-0.5, 0.5)) for _ in range(n)] for _ in range(k)]).reshape((k,) + cshape)
            inner = eqx.filter_vmap(lambda l, s: fj.affine(l, s))(jnp.asarray(locs), jnp.asarray(scs))
            obj = B.Vmap(inner, in_axes=eqx.if_array(0))
        else:
            l0 = np.asarray([rng.uniform(-1, 1) for _ in range(n)]).reshape(cshape)
            s0 = np.asarray([rng.choice([-1, 1]) * math.exp(rng.uniform(-0.5, 0.5)) for _ in range(n)]).reshape(cshape)
            locs, scs = np.stack([l0] * k), np.stack([s0] * k)
            obj = B.Vmap(fj.affine(l0, s0), axis_size=k)
        toks = ["GVMAP", ints(cshape), "1" if mapped else "0", str(k)]   # `atree`: the GENERATED Vmap methods; `atreeh`: Stack along axis 0
        for i in range(k):
            toks += ["EW", str(n)] + sum((["A", f2b(l), f2b(s)] for l, s in zip(locs[i].ravel(), scs[i].ravel())), [])
        return Node("VMAP", shape, obj, toks, False, [], slices=[(locs[i], scs[i]) for i in range(k)], nondefault=True)
    raise AssertionError(kind)


SHAPES = [(), (1,), (2,), (3,), (4,), (2, 2), (2, 3), (3, 1), (1, 3), (2, 2, 2), (2, 1, 3), (1, 2, 2)]


def parse_out(got):
    toks = got.split(" ")
    shape = [] if toks[0] == "-" else [int(t) for t in toks[0].split(",")]
    data = b2fs(toks[1])
    ld = [b2f(toks[2])] if len(toks) > 2 else []
    return shape, data + ld


def parse_out_gen(got):
    """`<shape> <data> <ld|-> <declared shape> <declared cond>`"""
    toks = got.split(" ")
    shape = [] if toks[0] == "-" else [int(t) for t in toks[0].split(",")]
    data = b2fs(toks[1])
    ld = [] if toks[2] == "-" else [b2f(toks[2])]
    decl = [] if toks[3] == "-" else [int(t) for t in toks[3].split(",")]
    return shape, data + ld, decl, toks[4] == "1"


def _arrs(txt):
    out = []
    for part in txt.split(" ; "):
        sh, d = part.split(" ")
        out.append(([] if sh == "-" else [int(t) for t in sh.split(",")], b2fs(d)))
    return out


def prim_correspondence(c, tier, rng):
    """the primitive specs of Model/ArrJnp.lean against jnp / Python, on their own (integer-valued data, exact)"""
    lines, wants, infos = [], [], []
    shapes = [(1,), (2,), (3,), (4,), (5,), (2, 3), (3, 2), (1, 4), (4, 1), (2, 2, 3), (3, 1, 2), (2, 0), (0, 3)]
    n = 60 if tier == "quick" else 400

    def arr(shape):
        return np.arange(1, size(shape) + 1, dtype=float).reshape(shape) * rng.choice([1, -1, 3])

    def enc(a):
        return f"{ints(a.shape)} {fs2b(np.asarray(a, dtype=float).ravel().tolist())}"

    def add(line, fn, **info):
        try:
            want = fn()
        except Exception as ex:
            want = "EXC:" + type(ex).__name__
        lines.append(line); wants.append(want); infos.append(info)

    for _ in range(n):
        shape = rng.choice(shapes)
        rank = len(shape)
        axis = rng.randrange(-rank, rank)
        A = shape[axis]
        x = arr(shape)
        # array_split with sorted cut points (incl. repeated, 0, A and beyond A: clipped)
        k = rng.choice([0, 1, 2, 3])
        idxs = sorted(rng.randrange(0, A + 2) for _ in range(k))
        add(f"jnpprim asplit {enc(x)} {ints(idxs)} {axis}", lambda: [(list(p.shape), np.asarray(p).ravel().tolist()) for p in jnp.array_split(jnp.asarray(x), tuple(idxs), axis=axis)],
            prim="array_split", shape=shape, axis=axis, idxs=idxs)
        divs = [d for d in range(1, A + 1) if A % d == 0] or [1]
        nsec = rng.choice(divs)
        add(f"jnpprim split {enc(x)} {nsec} {axis}", lambda: [(list(p.shape), np.asarray(p).ravel().tolist()) for p in jnp.split(jnp.asarray(x), nsec, axis=axis)],
            prim="split", shape=shape, axis=axis, n=nsec)
        if A == 1:
            add(f"jnpprim squeeze {enc(x)} {axis}", lambda: [(list(jnp.asarray(x).squeeze(axis=axis).shape), np.asarray(x).ravel().tolist())], prim="squeeze", shape=shape, axis=axis)
        # concatenate parts that differ along the axis only
        kk = rng.choice([1, 2, 3])
        parts = [arr(shape[:axis % rank] + (rng.choice([0, 1, 2, 3]),) + shape[axis % rank + 1:]) + 100 * j for j in range(kk)]
        add(f"jnpprim concat {axis} {kk} " + " ".join(enc(p) for p in parts),
            lambda: (lambda r: [(list(r.shape), np.asarray(r).ravel().tolist())])(jnp.concatenate([jnp.asarray(p) for p in parts], axis)),
            prim="concatenate", shapes=[p.shape for p in parts], axis=axis)
        saxis = rng.randrange(-(rank + 1), rank + 1)
        sparts = [arr(shape) + 100 * j for j in range(kk)]
        add(f"jnpprim stack {saxis} {kk} " + " ".join(enc(p) for p in sparts),
            lambda: (lambda r: [(list(r.shape), np.asarray(r).ravel().tolist())])(jnp.stack([jnp.asarray(p) for p in sparts], saxis)),
            prim="stack", shape=shape, axis=saxis, k=kk)
        l = [rng.randrange(0, 4) for _ in range(rng.choice([0, 1, 2, 4]))]
        from itertools import accumulate as _acc
        add(f"jnpprim accumulate {ints(l)}", lambda: list(_acc(l)), prim="accumulate", l=l)
        nn, ii = rng.randrange(0, 4), rng.randrange(-5, 5)
        add(f"jnpprim range {nn} {ii}", lambda: range(nn)[ii], prim="range", n=nn, i=ii)
    outs = vlib.run_model(lines)
    for line, got, want, info in zip(lines, outs, wants, infos):
        c.case(line, True)
        c.count("prim:" + info["prim"])
        if isinstance(want, str):  # the real primitive raised: the spec's guard must have rejected too
            ok = got.startswith("ERR")
        elif got.startswith("ERR"):
            ok = False
        elif info["prim"] == "accumulate":
            ok = ([] if got == "-" else [int(t) for t in got.split(",")]) == want
        elif info["prim"] == "range":
            ok = int(got) == want
        else:
            g = _arrs(got)
            ok = len(g) == len(want) and all(gs == ws and gd == wd for (gs, gd), (ws, wd) in zip(g, want))
        if not ok:
            c.mismatch("jnp-primitive-spec-vs-jnp", op=line[:300], model=got[:300], impl=want, **info)


# ------------------------------------------------------------------ the REGENERATED Scan / Vmap on objects the random trees do not reach
def _stack_modules(mods):
    """stack the array leaves of structurally equal modules along a new leading axis (what `eqx.filter_vmap(ctor)` returns)"""
    parts = [eqx.partition(m, eqx.is_array) for m in mods]
    return eqx.combine(jax.tree_util.tree_map(lambda *ls: jnp.stack(ls), *[p for p, _ in parts]), parts[0][1])


def jaxtr_correspondence(c, tier, rng):
    """Gen/JaxTransforms.lean at Float against real objects:
    * `Scan` of 1-4 stacked layers of (a) conditional layers Chain([Affine, AdditiveCondition]) (b) rational-quadratic splines with
      perturbed parameters (c) Invert(Affine) — through `atree … GSCAN …` (Coupling / MAF / planar layers: `flows.corr_flows`, whose
      generated factory bodies call `Flows.scanOf` = the generated Scan);
    * `Vmap` with `in_axes` (mapped parameters) / `axis_size` (broadcast parameters) x `in_axes_condition` in {None, 0, 1, -1} with an
      ARRAY condition — op `jaxtrvmap`."""
    lines, wants, infos = [], [], []
    reps = 3 if tier == "quick" else 20
    for rep in range(reps):
        for kind in ("cond-affine", "spline", "invert-affine"):
            for L in (1, 2, 3, 4):
                shape = rng.choice([(), (2,), (3,), (2, 2)]) if kind != "spline" else ()
                n = size(shape)
                mods, ltoks = [], []
                w0, b0 = rng.uniform(-2, 2), rng.uniform(-1, 1)
                W, Bb = jnp.full(shape, w0), jnp.full(shape, b0)
                net = lambda cnd, W=W, Bb=Bb: jnp.tanh(W * cnd + Bb)   # one function object: the static part of every layer is the same
                for i in range(L):
                    locs = [rng.uniform(-1, 1) for _ in range(n)]
                    scs = [rng.choice([-1, 1]) * math.exp(rng.uniform(-0.5, 0.5)) for _ in range(n)]
                    aff = fj.affine(np.reshape(locs, shape), np.reshape(scs, shape))
                    atoks = ["EW", str(n)] + sum((["A", f2b(l), f2b(sc)] for l, sc in zip(locs, scs)), [])
                    if kind == "cond-affine":
                        mods.append(B.Chain([aff, B.AdditiveCondition(net, shape, ())]))
                        ltoks += ["CH", "2"] + atoks + ["EW", str(n)] + ["AC", f2b(w0), f2b(b0)] * n
                    elif kind == "invert-affine":
                        mods.append(B.Invert(aff)); ltoks += ["INV"] + atoks
                    else:
                        sp = fj.rqs(rng, 4, 2.0)
                        lo, hi, xs, ys, ds = fj.rqs_params(sp)
                        mods.append(fj.unwrap(sp)); ltoks += ["EW", "1", "Q", f2b(lo), f2b(hi), fs2b(xs), fs2b(ys), fs2b(ds)]
                try:
                    obj = B.Scan(_stack_modules(mods))
                except Exception as ex:
                    c.mismatch("real-constructor-accepts-valid-tree", kind="Scan:" + kind, exc=repr(ex)[:300]); continue
                cond = rng.uniform(-2, 2)
                cj = jnp.asarray(cond) if kind == "cond-affine" else None
                xs_ = [rng.choice([0.0, 1.0, -1.0, 0.5, rng.uniform(-2, 2)]) for _ in range(n)]
                toks = ["GSCAN", str(L)] + ltoks
                for m in fj.METHODS:
                    try:
                        want = fj.call(obj, m, np.reshape(xs_, shape), cj)
                    except Exception as ex:
                        want = ["EXC:" + type(ex).__name__ + ":" + str(ex)[:80]]
                    line = f"atree {m} {f2b(cond)} {ints(shape)} {fs2b(xs_)} " + " ".join(toks)
                    lines.append(line); wants.append(want)
                    infos.append(dict(kind="GSCAN:" + kind, layers=L, shape=shape, method=m, x=xs_, cond=cond if cj is not None else None, tree=" ".join(toks)[:300],
                                      declared=(list(obj.shape), obj.cond_shape is not None)))
                    c.case(("gen-scan", kind, L, m, tuple(xs_), rep), True, sample={"op": line[:240], "impl": want} if rep == 0 and L == 2 and m == "il" else None)
                c.count("gen-scan:" + kind); c.count(f"gen-scan-layers:{L}")
        # ---- Vmap
        for mapped in (True, False):
            for cax in (None, 0, 1, -1):
                k = rng.choice([1, 2, 3])
                cshape = rng.choice([(2,), (3,), (1,), (2, 2), (2, 3)])
                n = size(cshape)
                w0, b0 = rng.uniform(-2, 2), rng.uniform(-1, 1)
                net = lambda cnd, w0=w0, b0=b0: jnp.tanh(w0 * cnd + b0)
                if mapped:
                    locs = np.asarray([[rng.uniform(-1, 1) for _ in range(n)] for _ in range(k)]).reshape((k,) + cshape)
                    scs = np.asarray([[rng.choice([-1, 1]) * math.exp(rng.uniform(-0.5, 0.5)) for _ in range(n)] for _ in range(k)]).reshape((k,) + cshape)
                    inner = eqx.filter_vmap(lambda l, sc: B.Chain([fj.affine(l, sc), B.AdditiveCondition(net, cshape, cshape)]))(jnp.asarray(locs), jnp.asarray(scs))
                    kw = dict(in_axes=eqx.if_array(0))
                else:
                    l0 = np.asarray([rng.uniform(-1, 1) for _ in range(n)]).reshape(cshape)
                    s0 = np.asarray([rng.choice([-1, 1]) * math.exp(rng.uniform(-0.5, 0.5)) for _ in range(n)]).reshape(cshape)
                    locs, scs = np.stack([l0] * k), np.stack([s0] * k)
                    inner = B.Chain([fj.affine(l0, s0), B.AdditiveCondition(net, cshape, cshape)])
                    kw = dict(axis_size=k)
                try:
                    obj = B.Vmap(inner, in_axes_condition=cax, **kw)
                except Exception as ex:
                    c.mismatch("real-constructor-accepts-valid-tree", kind="Vmap", mapped=mapped, cax=cax, exc=repr(ex)[:300]); continue
                condshape = tuple(cshape) if cax is None else tuple(np.insert(np.asarray(cshape), range(len(cshape) + 1)[cax], k).tolist())
                if obj.cond_shape != condshape:
                    c.mismatch("declared-cond-shape", kind="Vmap", cax=cax, declared=obj.cond_shape, expected=condshape)
                cvals = [rng.uniform(-2, 2) for _ in range(size(condshape))]
                xshape = (k,) + tuple(cshape)
                xs_ = [rng.choice([0.0, 1.0, -1.0, 0.5, rng.uniform(-2, 2)]) for _ in range(size(xshape))]
                ktoks = []
                for i in range(k):
                    ktoks += ["EW", str(n)] + sum((["A", f2b(l), f2b(sc)] for l, sc in zip(locs[i].ravel(), scs[i].ravel())), [])
                for m in fj.METHODS:
                    try:
                        want = fj.call(obj, m, np.reshape(xs_, xshape), jnp.asarray(np.reshape(cvals, condshape)))
                    except Exception as ex:
                        want = ["EXC:" + type(ex).__name__ + ":" + str(ex)[:80]]
                    line = (f"jaxtrvmap {m} {'N' if cax is None else cax} {1 if mapped else 0} {k} {ints(xshape)} {fs2b(xs_)} {ints(condshape)} {fs2b(cvals)} "
                            f"{ints(cshape)} {f2b(w0)} {f2b(b0)} " + " ".join(ktoks))
                    lines.append(line); wants.append(want)
                    infos.append(dict(kind="GVMAP", mapped=mapped, cax=cax, axis_size=k, shape=xshape, method=m, x=xs_, cond=cvals, tree=" ".join(ktoks)[:300],
                                      declared=list(obj.shape)))
                    c.case(("gen-vmap", mapped, cax, k, cshape, m, tuple(xs_), rep), True, sample={"op": line[:240], "impl": want} if rep == 0 and cax == -1 and m == "tl" else None)
                c.count(f"gen-vmap:{'in_axes' if mapped else 'axis_size'}:cond_axis={cax}")
    outs = vlib.run_model(lines)
    for line, got, want, info in zip(lines, outs, wants, infos):
        name = "generated-scan-vs-impl" if info["kind"].startswith("GSCAN") else "generated-vmap-vs-impl"
        if got.startswith("ERR") or any(isinstance(w, str) for w in want):
            c.mismatch(name, op=line[:400], model=got[:200], impl=want, **info)
            continue
        if info["kind"].startswith("GSCAN"):
            shape, vals, decl, dcond = parse_out_gen(got)
            if (decl, dcond) != info["declared"]:
                c.mismatch("generated-scan-declared-shape-vs-impl", op=line[:400], model=(decl, dcond), impl=info["declared"], tree=info["tree"])
        else:
            toks = got.split(" ")
            shape = [] if toks[0] == "-" else [int(t) for t in toks[0].split(",")]
            vals = b2fs(toks[1]) + ([b2f(toks[2])] if len(toks) == 4 else [])
            decl = [] if toks[-1] == "-" else [int(t) for t in toks[-1].split(",")]
            if decl != info["declared"]:
                c.mismatch("generated-vmap-declared-shape-vs-impl", op=line[:400], model=decl, impl=info["declared"])
        if tuple(shape) != tuple(info["shape"]) or not vlib.allclose(vals, want, **TOL):
            c.mismatch(name, op=line[:400], model=vals, model_shape=shape, impl=want, **info)


def corr(c, tier, rng, n_trees=None):
    own = n_trees is None
    n_trees = n_trees if n_trees is not None else (70 if tier == "quick" else 600)
    lines, wants, infos = [], [], []
    for ti in range(n_trees):
        shape = rng.choice(SHAPES)
        try:
            node = rand_atree(rng, shape, rng.choice([1, 2, 2, 3]))
        except Exception as ex:
            c.mismatch("real-constructor-accepts-valid-tree", shape=shape, exc=repr(ex)[:300])
            continue
        if tuple(node.obj.shape) != tuple(shape):
            c.mismatch("declared-shape", tree=" ".join(node.tokens)[:200], declared=node.obj.shape, expected=shape)
        cond = rng.uniform(-2, 2)
        cj = jnp.asarray(cond) if node.cond else None
        if (node.obj.cond_shape is not None) != node.cond:
            c.mismatch("declared-cond-shape", tree=" ".join(node.tokens)[:200], declared=node.obj.cond_shape, conditional=node.cond)
        for rep in range(2 if tier == "quick" else 4):
            xs = [rng.choice([0.0, 1.0, -1.0, 0.5, rng.uniform(-2, 2)]) for _ in range(size(shape))]
            for m in fj.METHODS:
                try:
                    want = fj.call(node.obj, m, np.reshape(xs, shape), cj)
                except Exception as ex:
                    want = ["EXC:" + type(ex).__name__ + ":" + str(ex)[:80]]
                for op in ("atree", "atreeh"):  # generated definitions, hand model: both against the real object
                    line = f"{op} {m} {f2b(cond)} {ints(shape)} {fs2b(xs)} " + " ".join(node.tokens)
                    lines.append(line); wants.append(want)
                    infos.append(dict(kind=node.kind, shape=shape, method=m, x=xs, cond=cond if node.cond else None, tree=" ".join(node.tokens)[:300],
                                      declared=(list(node.obj.shape), node.obj.cond_shape is not None)))
                    c.case((op, " ".join(node.tokens), m, tuple(xs)), node.nontrivial, sample={"op": line[:240], "impl": want} if ti < 2 and m == "tl" and rep == 0 else None)
        c.count("root:" + node.kind)
        c.count(f"rank{len(shape)}")
        # slicing / indexing / len of a Chain never change the function: chain[i:j] is the chain of the sub-list
        if node.kind == "CH" and len(node.children) >= 2:
            k = len(node.children)
            i = rng.randrange(0, k)
            j = rng.randrange(i + 1, k + 1)
            sub = node.children[i:j]
            try:
                sl = node.obj[i:j]
                sub_cond = any(ch.cond for ch in sub)
                if (sl.cond_shape is not None) != sub_cond or tuple(sl.shape) != tuple(shape) or len(node.obj) != k or node.obj[i] is not node.children[i].obj:
                    c.mismatch("chain-slice-declared-shapes", tree=" ".join(node.tokens)[:200], slice=(i, j), cond_shape=sl.cond_shape, expected_conditional=sub_cond)
                xs = [rng.uniform(-1, 1) for _ in range(size(shape))]
                toks = ["CH", str(len(sub))] + sum((ch.tokens for ch in sub), [])
                for m in ("t", "il"):
                    try:
                        want = fj.call(sl, m, np.reshape(xs, shape), jnp.asarray(cond) if sub_cond else None)
                    except Exception as ex:
                        want = ["EXC:" + type(ex).__name__ + ":" + str(ex)[:80]]
                    for op in ("atree", "atreeh"):
                        line = f"{op} {m} {f2b(cond)} {ints(shape)} {fs2b(xs)} " + " ".join(toks)
                        lines.append(line); wants.append(want)
                        infos.append(dict(kind="CH-slice", shape=shape, method=m, x=xs, cond=cond if sub_cond else None, tree=" ".join(toks)[:300],
                                          declared=(list(sl.shape), sl.cond_shape is not None)))
                        c.case((op, " ".join(toks), "slice", m, tuple(xs)), True)
                c.count("chain-slice")
            except Exception as ex:
                c.mismatch("chain-slice-declared-shapes", tree=" ".join(node.tokens)[:200], slice=(i, j), exc=repr(ex)[:200])
    if own:
        from props import c01, c03
        c01.scan_correspondence(c, tier, rng)
        # merge_transforms on nested Transformed (1-3 levels): the generated model of the nest vs the real merged object
        c03.corr_nested(c, tier, rng, n=20 if tier == "quick" else 120)
        # the REGENERATED Chain.__getitem__ / __len__ / __iter__ / merge_chains (Gen/MergeGen.lean, driver op `mgch`) against real nested
        # chains: every int index and every small slice incl. negative / out-of-range bounds and steps, merge_chains at depth <= 3;
        # and the regenerated merge_transforms (which calls the generated merge_chains) on nested Transformed objects
        from props import mergegen
        mergegen.corr_chain(c, tier, rng)
        mergegen.corr_transformed(c, tier, rng, n=12 if tier == "quick" else 80)
        prim_correspondence(c, tier, rng)
        jaxtr_correspondence(c, tier, rng)
        # the Scan inside every premade flow: the generated factory bodies (Scan = generated Chain of the UNSTACKED layers, each with
        # its own parameters and permutation) against the real Scan / Invert(Scan) of real factory-built flows, both log-det methods
        from props import flows
        # (quick tier: the hand-stacked BNAF Scans are run under C01 only; the thorough tier runs them here as well)
        flows.corr_flows(c, tier, rng, parts=("helpers", "factories") if tier == "quick" else ("helpers", "factories", "bnaf"), methods=("tl", "il"))
    outs = vlib.run_model(lines)
    for line, got, want, info in zip(lines, outs, wants, infos):
        gen = line.startswith("atree ")
        name = "generated-array-combinators-vs-impl" if gen else "array-combinators-vs-impl"
        if got.startswith("ERR") or any(isinstance(w, str) for w in want):
            c.mismatch(name, op=line[:400], model=got[:200], impl=want, **info)
            continue
        if gen:
            shape, vals, decl, dcond = parse_out_gen(got)
            if (decl, dcond) != info["declared"]:
                c.mismatch("generated-constructor-declared-shape-vs-impl", op=line[:400], model=(decl, dcond), impl=info["declared"], tree=info["tree"])
        else:
            shape, vals = parse_out(got)
        if tuple(shape) != tuple(info["shape"]) or not vlib.allclose(vals, want, **TOL):
            c.mismatch(name, op=line[:400], model=vals, model_shape=shape, impl=want, **info)


# ------------------------------------------------------------------ reference interpreter (the property's own oracle)
def ref_apply(node, m, x, cond):
    """definition of each combinator over the children's REAL methods; returns (y, ld)"""
    k = node.kind
    fwd = m in ("t", "tl")
    if k == "EW" or k in ("SCAN", "VMAP") and False:
        r = getattr(node.obj, "transform_and_log_det" if fwd else "inverse_and_log_det")(jnp.asarray(x), cond if node.cond else None)
        return np.asarray(r[0]), float(r[1])
    if k == "CH":
        ld = 0.0
        for ch in (node.children if fwd else reversed(node.children)):
            x, l = ref_apply(ch, m, x, cond); ld += l
        return x, ld
    if k == "INV":
        return ref_apply(node.children[0], "il" if fwd else "tl", x, cond)
    if k == "RSH":
        ch = node.children[0]
        y, l = ref_apply(ch, m, np.reshape(x, ch.shape), cond)
        return np.reshape(y, node.shape), l
    if k == "EMB":
        c2 = jnp.tanh(node.extra["w"] * cond + node.extra["b"])
        return ref_apply(node.children[0], m, x, c2)
    if k == "CAT":
        ax = node.extra["axis"]
        cuts = np.cumsum([ch.shape[ax] for ch in node.children])[:-1]
        parts = np.split(np.asarray(x), cuts, axis=ax)
        res = [ref_apply(ch, m, p, cond) for ch, p in zip(node.children, parts)]
        return np.concatenate([r[0] for r in res], axis=ax), sum(r[1] for r in res)
    if k == "STK":
        ax = node.extra["axis"]
        parts = [np.take(np.asarray(x), i, axis=ax) for i in range(len(node.children))]
        res = [ref_apply(ch, m, p, cond) for ch, p in zip(node.children, parts)]
        return np.stack([r[0] for r in res], axis=ax), sum(r[1] for r in res)
    if k == "PAR":
        idx = node.extra["idx"]
        y = np.array(x, dtype=float, copy=True)
        sub, l = ref_apply(node.children[0], m, np.asarray(x)[idx], cond)
        y[idx] = sub
        return y, l
    if k == "SCAN":
        ld = 0.0
        layers = node.extra["layers"] if fwd else list(reversed(node.extra["layers"]))
        for loc, sc in layers:
            x = (np.asarray(x) * sc + loc) if fwd else (np.asarray(x) - loc) / sc
            ld += (1 if fwd else -1) * float(np.sum(np.log(np.abs(sc))))
        return x, ld
    if k == "VMAP":
        out, ld = [], 0.0
        for i, (loc, sc) in enumerate(node.extra["slices"]):
            xi = np.asarray(x)[i]
            out.append(xi * sc + loc if fwd else (xi - loc) / sc)
            ld += (1 if fwd else -1) * float(np.sum(np.log(np.abs(sc))))
        return np.stack(out), ld
    raise AssertionError(k)


def oracle_violations(node, rng):
    out = []
    desc = " ".join(node.tokens)[:160]
    cond = jnp.asarray(rng.uniform(-2, 2))
    cj = cond if node.cond else None
    x = np.asarray([rng.uniform(-2, 2) for _ in range(size(node.shape))]).reshape(node.shape)
    for m in fj.METHODS:
        try:
            want_y, want_ld = ref_apply(node, m, x, cond)
            got = getattr(node.obj, fj.PYMETH[m])(jnp.asarray(x), cj)
            gy = np.asarray(got[0] if isinstance(got, tuple) else got)
            if gy.shape != tuple(node.shape) or not np.allclose(gy, want_y, rtol=1e-7, atol=1e-8, equal_nan=True):
                out.append(dict(key=f"{node.kind}|{m}|{desc}", law="combinator = its definition over the children's methods", method=m, got=gy.tolist(), want=np.asarray(want_y).tolist()))
            if isinstance(got, tuple):
                if np.shape(got[1]) != () or not vlib.close(float(got[1]), want_ld, rtol=1e-7, atol=1e-8):
                    out.append(dict(key=f"{node.kind}|{m}|logdet|{desc}", law="log-det = sum of the parts' log-dets, scalar", method=m, got=np.asarray(got[1]).tolist(), want=want_ld))
        except Exception as ex:
            out.append(dict(key=f"{node.kind}|{m}|exception|{desc}", law="declared shape is accepted by the methods", exc=repr(ex)[:200]))
    return out


def direct_violations():
    """two fixed real-code oracles that random trees seldom hit: (i) `Partial` with a STRIDED or reversed slice changes exactly the indexed
    entries (reference: NumPy assignment); (ii) `merge_chains` / `merge_transforms` on a chain that contains an inverted chain of
    non-commuting children never changes the four methods"""
    import flowjax.bijections as B
    wit = []
    a = B.Affine(jnp.asarray([0.5, -1.0, 2.0]), jnp.asarray([2.0, 0.5, 3.0]))
    x = jnp.asarray([0.3, -1.2, 0.8, 2.0, -0.4, 1.1])
    for name, sl in (("slice(0,None,2)", slice(0, None, 2)), ("slice(1,6,2)", slice(1, 6, 2)), ("slice(5,None,-2)", slice(5, None, -2))):
        try:
            p = B.Partial(a, sl, (6,))
            want = np.asarray(x).copy()
            want[sl] = np.asarray(a.transform(x[sl]))
            for meth, got in (("transform", p.transform(x)), ("transform_and_log_det", p.transform_and_log_det(x)[0])):
                if not np.allclose(np.asarray(got), want, rtol=1e-12, atol=0):
                    wit.append(dict(key=f"partial-strided|{name}|{meth}", kind="direct", law="Partial changes only the indexed entries (strided slice)", got=np.asarray(got).tolist(), want=want.tolist()))
            back = np.asarray(p.inverse(p.transform(x)))
            if not np.allclose(back, np.asarray(x), rtol=1e-12, atol=1e-12):
                wit.append(dict(key=f"partial-strided|{name}|roundtrip", kind="direct", law="Partial.inverse undoes Partial.transform (strided slice)", got=back.tolist(), want=np.asarray(x).tolist()))
        except Exception as ex:  # noqa: BLE001
            wit.append(dict(key=f"partial-strided|{name}|exception", kind="direct", law="Partial accepts a strided slice", exc=repr(ex)[:160]))
    s1, s2 = B.Affine(jnp.asarray(0.7), jnp.asarray(1.5)), B.Exp()
    t = B.Chain([B.Affine(jnp.asarray(-0.2), jnp.asarray(0.8)), B.Invert(B.Chain([s1, s2])), B.Chain([B.Affine(jnp.asarray(1.0), jnp.asarray(2.0))])])
    m = t.merge_chains()
    for v in (0.4, 1.7, 3.0):
        xv = jnp.asarray(v)
        for meth in ("transform", "inverse"):
            try:
                g, w_ = float(getattr(m, meth)(xv)), float(getattr(t, meth)(xv))
                g2, w2 = getattr(m, meth + "_and_log_det")(xv), getattr(t, meth + "_and_log_det")(xv)
                ok = vlib.close(g, w_, rtol=1e-9, atol=1e-10) and vlib.close(float(g2[0]), float(w2[0]), rtol=1e-9, atol=1e-10) and vlib.close(float(g2[1]), float(w2[1]), rtol=1e-9, atol=1e-10)
            except Exception as ex:  # noqa: BLE001
                ok, g, w_ = False, repr(ex)[:80], None
            if not ok:
                wit.append(dict(key=f"merge_chains-inverted-chain|{meth}|x={v}", kind="direct", law="merge_chains never changes the function (chain containing Invert(Chain[...]))", got=g, want=w_))
    return wit


def search(hints, tier, rng):
    wit = []
    wit += direct_violations()
    if wit:
        return wit[:5]
    from props import flows
    wit += flows.search_flows(tier, rng)      # structure of factory-built flows, Scan vs Chain of its unstacked layers
    if len(wit) >= 5:
        return wit[:5]
    # merge_transforms on 2-3 levels of nesting never changes log_prob / sample (shared with C03)
    from props import c03
    wit += [dict(w, key="merge_transforms|" + w["key"]) for w in c03.nested_merge_violations(tier, rng) if "merge" in w.get("key", "")]
    for _ in range(80 if tier == "quick" else 600):
        shape = rng.choice(SHAPES)
        try:
            node = rand_atree(rng, shape, rng.choice([1, 2, 3]))
        except Exception as ex:
            wit.append(dict(key=f"ctor|{shape}|{type(ex).__name__}", law="constructors accept compatible children", exc=repr(ex)[:200]))
            continue
        if tuple(node.obj.shape) != tuple(shape):
            wit.append(dict(key=f"declared-shape|{node.kind}|{shape}", law="declared shape", got=list(node.obj.shape), want=list(shape)))
        wit += oracle_violations(node, rng)
        # merge_chains / slicing never change the function
        if node.kind == "CH":
            x = jnp.asarray(np.asarray([rng.uniform(-1, 1) for _ in range(size(shape))]).reshape(shape))
            cj = jnp.asarray(0.3) if node.cond else None
            a = np.asarray(node.obj.transform(x, cj)); b = np.asarray(node.obj.merge_chains().transform(x, cj))
            if not np.allclose(a, b, rtol=1e-9, atol=1e-9, equal_nan=True):
                wit.append(dict(key="merge_chains|" + " ".join(node.tokens)[:120], law="merge_chains preserves the function"))
            k_ = len(node.children)
            for (i_, j_) in [(0, 1), (k_ - 1, k_), (0, k_), (1, k_)]:
                if 0 <= i_ < j_ <= k_:
                    sub_cond = any(ch.cond for ch in node.children[i_:j_])
                    try:
                        s_ = node.obj[i_:j_]
                        r_ = s_.transform(x, cj if sub_cond else None)
                        if (s_.cond_shape is not None) != sub_cond:
                            raise ValueError("declared cond_shape of the slice does not match its members")
                    except Exception as ex:
                        wit.append(dict(key=f"chain_slice[{i_}:{j_}]|" + " ".join(node.tokens)[:100], law="a slice of a chain is the chain of the sub-list (shape, cond_shape, function)", exc=repr(ex)[:160]))
            sl = node.obj[:]
            if not np.allclose(a, np.asarray(sl.transform(x, cj)), rtol=1e-9, atol=1e-9, equal_nan=True) or len(node.obj) != len(node.children):
                wit.append(dict(key="chain_slice|" + " ".join(node.tokens)[:120], law="slicing / len preserve the chain"))
        if len(wit) >= 5:
            break
    return wit[:5]


def replay(w):
    import random
    if w.get("kind") == "direct":
        return any(x["key"] == w["key"] for x in direct_violations())
    return bool(search({}, "quick", random.Random(1)))
