"""Correspondence for the GENERATED methods of `Coupling` / `MaskedAutoregressive` (`lean/Flowjaxv/Gen/NetGen.lean`, regenerated from
flowjax/bijections/coupling.py and masked_autoregressive.py by tools/py2lean/py2meth.py, sheet targets_net.py).

Driver op `gnet` runs the generated `transform_and_log_det` / `inverse_and_log_det` (and the plain `transform` / `inverse`) at Float on
the RAW arrays of a real object whose leaves were overwritten with arbitrary values, BESIDE the hand model
(`Masks.couplingBij` / `Masks.mafBij`) on the same parsed object.  Compared: generated vs real (rtol 1e-8), generated vs hand
model (bit for bit — they are proved equal at every scalar type, `NetGenPf.gen_coupling_eq_model` / `gen_maf_eq_model`), and the
two world primitives whose meaning is JAX's indexing mode (`x[i]` with a traced index clamps, `.at[i].set` drops out of range).

Objects: dims 1–5, `condition=None` and conditional, every split of Coupling, widths / depths incl. depth 0, three activations,
transformers `Affine()`, `_affine_with_min_scale(m)`, `RationalQuadraticSpline` (several knot counts / intervals), parameters
overwritten with both signs ('rand') or all positive ('pos').

Usage from a property harness:   from props import netgen;  netgen.corr_gen(c, tier, rng)
"""
from __future__ import annotations

import jax
import jax.numpy as jnp
import numpy as np

import flowjax.bijections as B

import vlib
from vlib import fs2b, f2b, b2fs, b2f

try:
    from props import c09 as S
    from props import flows as FL
except ImportError:
    import c09 as S
    import flows as FL

TOL = dict(rtol=1e-8, atol=1e-10)


def _configs(tier, light):
    if light:
        maf = [(1, None, 3, 1), (2, 2, 2, 2), (3, None, 2, 1), (4, 1, 3, 0), (5, None, 4, 2)]
        coup = [(0, 1, 2, 3, 1), (1, 2, None, 2, 1), (2, 3, 1, 2, 0), (1, 4, None, 3, 2), (3, 5, 2, 2, 1)]
    elif tier == "quick":
        maf = [(d, cd, w, dep) for d in range(1, 6) for (cd, w, dep) in ((None, 3, 1), (2, 2, 2))] + [(3, 1, 3, 0), (4, None, 1, 1)]
        coup = [(0, 1, 2, 3, 1), (1, 2, None, 2, 1), (0, 2, 1, 2, 0), (1, 3, None, 4, 2), (2, 3, 1, 2, 0), (1, 4, 2, 3, 1),
                (3, 4, None, 2, 1), (2, 5, None, 3, 2), (4, 5, 3, 2, 1), (1, 5, 1, 2, 0), (2, 4, None, 3, 0)]
    else:
        maf = [(d, cd, w, dep) for d in range(1, 6) for cd in (None, 1, 3) for w in (1, 3) for dep in range(0, 3)]
        coup = [(u, d, cd, w, dep) for d in range(1, 6) for u in range(0, d) for cd in (None, 2) for w in (1, 4) for dep in (0, 2)]
    return maf, coup


def corr_primitives(c):
    """`x[i]` with a traced index and `y.at[i].set(v)` on the real `jnp`, incl. out-of-range indices"""
    get = jax.jit(lambda x, i: x[i])
    put = jax.jit(lambda y, i, v: y.at[i].set(v))
    lines, wants = [], []
    for n in range(1, 5):
        xs = [0.5 + 1.25 * k for k in range(n)]
        for i in range(0, n + 3):
            lines.append(f"gnet idx {fs2b(xs)} {i}")
            wants.append(("idx", [float(get(jnp.asarray(xs), i))], n, i))
            lines.append(f"gnet atset {fs2b(xs)} {i} {f2b(-7.5)}")
            wants.append(("atset", list(np.asarray(put(jnp.asarray(xs), i, -7.5))), n, i))
            c.case(("gnet-prim", n, i), i >= n)
            c.count("netgen:primitive:" + ("out-of-range" if i >= n else "in-range"))
    outs = vlib.run_model(lines)
    for line, got, (kind, want, n, i) in zip(lines, outs, wants):
        if got.startswith("ERR"):
            c.mismatch("netgen-primitive-rejected", op=line, model=got)
            continue
        m = [b2f(got)] if kind == "idx" else b2fs(got)
        if not vlib.allclose(m, want, rtol=0.0, atol=0.0):
            c.mismatch(f"netgen-world-{kind}-vs-jnp", op=line, model=m, impl=want, n=n, index=i)


def corr_init(c):
    """the generated `__init__` fragments (guard + declared shapes) against the real constructors"""
    import equinox as eqx
    from flowjax.bijections.bijection import AbstractBijection

    class CondScalar(AbstractBijection):        # a scalar bijection WITH a condition: refused by both constructors
        shape: tuple = ()
        cond_shape: tuple = (1,)

        def transform_and_log_det(self, x, condition=None):
            return x + condition[0], jnp.zeros(())

        def inverse_and_log_det(self, y, condition=None):
            return y - condition[0], jnp.zeros(())

        def transform(self, x, condition=None):
            return x + condition[0]

        def inverse(self, y, condition=None):
            return y - condition[0]

    def tok(sh):
        return "none" if sh is None else (",".join(str(int(v)) for v in sh) or "-")

    tfs = [("Affine()", B.Affine()), ("Affine(shape (2,))", B.Affine(jnp.zeros(2))), ("Affine(shape (1,))", B.Affine(jnp.zeros(1))),
           ("conditional scalar", CondScalar()), ("Exp()", B.Exp())]
    lines, wants = [], []
    for desc, t in tfs:
        for (ud, dim, cd) in ((1, 2, None), (1, 3, 2), (2, 5, None), (0, 1, 1)):
            for kind in ("cinit", "minit"):
                try:
                    if kind == "cinit":
                        o = B.Coupling(S.KEY, transformer=t, untransformed_dim=ud, dim=dim, cond_dim=cd, nn_width=2, nn_depth=1)
                        want = f"{tok(o.shape)} {tok(o.cond_shape)} {o.untransformed_dim} {o.dim}"
                    else:
                        o = B.MaskedAutoregressive(S.KEY, transformer=t, dim=dim, cond_dim=cd, nn_width=2, nn_depth=1)
                        want = f"{tok(o.shape)} {tok(o.cond_shape)}"
                except ValueError:
                    want = "ValueError"
                except Exception as e:
                    want = f"{type(e).__name__}"
                head = f"gnet {kind} {tok(t.shape)} {tok(t.cond_shape)} " + (f"{ud} " if kind == "cinit" else "")
                lines.append(head + f"{dim} {S.cd_tok(cd)} 2 1")
                wants.append((want, desc, kind, dim, cd))
                c.case(("gnet-init", kind, desc, dim, cd), True)
                c.count(f"netgen:init:{kind}:{'raises' if want == 'ValueError' else 'constructs'}")
    for line, got, (want, desc, kind, dim, cd) in zip(lines, vlib.run_model(lines), wants):
        if got != want:
            c.mismatch(f"netgen-generated-{kind}-vs-impl", op=line, model=got, impl=want, transformer=desc, dim=dim, cond_dim=cd)


def _real(c, bij, x, y_in, cond, info):
    """the six values of the real object, or None (recorded as a mismatch) when a real method raises"""
    try:
        return _real_values(bij, x, y_in, cond)
    except Exception as e:  # the implementation rejects an input every method of the model accepts
        c.mismatch("netgen-impl-raised", error=f"{type(e).__name__}: {str(e)[:200]}", x=list(np.asarray(x)), **info)
        return None


def _real_values(bij, x, y_in, cond):
    yt, ld = bij.transform_and_log_det(x, cond)
    xi, ldi = bij.inverse_and_log_det(y_in, cond)
    return (list(np.asarray(yt)), float(ld), list(np.asarray(xi)), float(ldi),
            list(np.asarray(bij.transform(x, cond))), list(np.asarray(bij.inverse(y_in, cond))))


def corr_gen(c, tier, rng, light=False):
    corr_primitives(c)
    corr_init(c)
    maf, coup = _configs(tier, light)
    acts = list(S.ACTS)
    kinds = ("affine", "rqs", "minscale")
    lines, checks = [], []

    def point(n, lo=-2.0, hi=2.0):
        return jnp.asarray([rng.uniform(lo, hi) for _ in range(n)])

    for ci, (dim, cd, w, depth) in enumerate(maf):
        for ki, kind in enumerate(kinds if not light else kinds[:2]):
            if kind == "minscale" and ci % 3:
                continue
            mode = "pos" if (ci + ki) % 4 == 3 else "rand"
            act = acts[(ci + ki) % 3]
            t, toks, desc = FL.tf_spec(kind, rng)
            bij = S.overwrite(B.MaskedAutoregressive(S.KEY, transformer=t, dim=dim, cond_dim=cd, nn_width=w, nn_depth=depth,
                                                     nn_activation=S.ACTS[act]), rng, mode, mag=1.5)
            x, y_in = point(dim), point(dim)
            cond = None if cd is None else point(cd, -1.0, 1.0)
            info = dict(kind="maf", dim=dim, cond_dim=cd, width=w, depth=depth, mode=mode, act=act, transformer=desc)
            want = _real(c, bij, x, y_in, cond, info)
            if want is None:
                continue
            head = f"{act} {dim} {S.cd_tok(cd)} {w} {depth} {fs2b(x)} {fs2b(y_in)} {fs2b(cond) if cond is not None else '-'} " + " ".join(toks)
            fields = " ".join(S.maf_layer_fields(bij))
            lines += [f"gnet maf {head} {fields}", f"gnet maft {head} {fields}"]
            checks += [("four", want, info), ("two", want, info)]
            c.case(("gnet-maf", dim, cd, w, depth, kind, mode), True,
                   sample={"op": lines[-2][:160], "impl_inverse": want[2]} if ci == 2 and ki == 1 else None)
            c.count(f"netgen:maf:{kind}:{'cond' if cd is not None else 'uncond'}")
    for ci, (ud, dim, cd, w, depth) in enumerate(coup):
        for ki, kind in enumerate(kinds if not light else kinds[:2]):
            if kind == "minscale" and ci % 3:
                continue
            mode = "pos" if (ci + ki) % 4 == 3 else "rand"
            act = acts[(ci + ki) % 3]
            t, toks, desc = FL.tf_spec(kind, rng)
            cp = S.overwrite(B.Coupling(S.KEY, transformer=t, untransformed_dim=ud, dim=dim, cond_dim=cd, nn_width=w, nn_depth=depth,
                                        nn_activation=S.ACTS[act]), rng, mode, mag=1.5)
            x, y_in = point(dim), point(dim)
            cond = None if cd is None else point(cd, -1.0, 1.0)
            info = dict(kind="coupling", untransformed_dim=ud, dim=dim, cond_dim=cd, width=w, depth=depth, mode=mode, act=act, transformer=desc)
            want = _real(c, cp, x, y_in, cond, info)
            if want is None:
                continue
            head = (f"{act} {ud} {dim} {S.cd_tok(cd)} {w} {depth} {fs2b(x)} {fs2b(y_in)} {fs2b(cond) if cond is not None else '-'} "
                    + " ".join(toks))
            fields = " ".join(FL.mlp_fields(cp.conditioner))
            lines += [f"gnet coupling {head} {fields}", f"gnet couplingt {head} {fields}"]
            checks += [("four", want, info), ("two", want, info)]
            c.case(("gnet-coupling", ud, dim, cd, w, depth, kind, mode), True)
            c.count(f"netgen:coupling:{kind}:{'cond' if cd is not None else 'uncond'}")
    outs = vlib.run_model(lines)
    for line, got, (kind, want, info) in zip(lines, outs, checks):
        if got.startswith("ERR"):
            c.mismatch("netgen-model-rejected-op", op=line[:300], model=got, **info)
            continue
        f = got.split(" ")
        # conditioning: as tools/props/netinv.py — Lean's Float has no log1p, so where a softplus scale is tiny the quotient
        # (y - loc)/scale is not comparable at rtol 1e-8; those cases are counted, not compared
        ok_f = np.isfinite(want[1]) and abs(want[1]) <= 12.0 and np.all(np.isfinite(want[0]))
        ok_i = (np.isfinite(want[3]) and abs(want[3]) <= 12.0 and np.all(np.isfinite(want[2]))
                and (max([abs(t) for t in want[2]] or [0.0]) <= 1e3))
        if kind == "four":
            if f[:4] != f[4:]:
                c.mismatch(f"netgen-{info['kind']}-generated-vs-hand-model", op=line[:300], generated=f[:4], hand=f[4:], **info)
            names = ("transform_and_log_det[0]", "transform_and_log_det[1]", "inverse_and_log_det[0]", "inverse_and_log_det[1]")
            vals = (b2fs(f[0]), [b2f(f[1])], b2fs(f[2]), [b2f(f[3])])
            wants = (want[0], [want[1]], want[2], [want[3]])
            oks = (ok_f, ok_f, ok_i, ok_i)
        else:
            names = ("transform", "inverse")
            vals = (b2fs(f[0]), b2fs(f[1]))
            wants = (want[4], want[5])
            oks = (ok_f, ok_i)
        for nm, v, wv, ok in zip(names, vals, wants, oks):
            if not ok:
                c.count(f"netgen:{info['kind']}:{nm} ill-conditioned, not compared")
                continue
            if not vlib.allclose(v, wv, **TOL):
                c.mismatch(f"netgen-{info['kind']}-generated-{nm}-vs-impl", op=line[:300], model=v, impl=wv, **info)
