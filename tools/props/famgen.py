"""Correspondence of the REGENERATED family constructors / accessors (`Gen/FamiliesGen.lean`, driver ops `gfam`, `gbij`, `gmvn`) with
the real constructors of `flowjax.distributions` / `flowjax.bijections` (shared by C05 and C11).

For every family and scalar / vector / matrix / mutually broadcasting parameter shapes (e.g. `loc` of shape (3,) against `scale` of shape
(2, 1)) the generated `__init__` is run at Float and compared with the real object:
  * the declared shape (`dist.shape`),
  * every stored array leaf, with its own shape: `bijection.loc`, the RAW (pre-softplus) `bijection.scale.arr`, `base_dist.df.arr`,
    for LogNormal the leaves of `bijection.bijections[0]` and the shape of `bijections[1]`,
  * every accessor property (`loc`, `scale`, `minval`, `maxval`, `df`, `rate`) with the real accessor and with the constructor argument,
  * private `_log_prob` (after `unwrap`) and public `log_prob` at interior / edge / outside / infinite points,
  * rejection: shapes that do not broadcast, `maxval <= minval` somewhere, `df <= 0` somewhere;
the generated `VmapMixture.__init__` / `_log_prob` / `_sample` (`gmix`, `gmixs`: stored raw `Lambda` argument, unwrapped
`log_normalized_weights`, `_log_prob` from the real components' values, the weight guard, `_sample` on real keys with the component
drawn by the real `jr.categorical`); the generated `Affine` / `Scale` / `Loc` constructors alone (`gbij`: shape, leaves, `transform_and_log_det`), and the generated
`MultivariateNormal.__init__` + accessors with `cholesky := jnp.linalg.cholesky(covariance)` (`gmvn`)."""
from __future__ import annotations

import math

import jax.numpy as jnp
import numpy as np

import flowjax.bijections as B
import flowjax.distributions as D
from flowjax.wrappers import unwrap

import vlib
from vlib import fs2b, b2fs

TOL = dict(rtol=1e-8, atol=1e-9)
BAD_SHAPES = {2: [((3,), (2,)), ((2, 3), (2,)), ((2,), (3, 1, 4))], 3: [((3,), (2,), ()), ((), (2, 2), (3,))]}


def shp(s):
    return ",".join(str(int(d)) for d in s) if len(s) else "-"


def arr_txt(a):
    a = np.asarray(a, float)
    return f"{shp(a.shape)} {fs2b(a.ravel().tolist())}"


def parse_arr(t):
    s, d = t.split(":")
    return (tuple(int(x) for x in s.split(",")) if s != "-" else ()), b2fs(d)


def parse(out):
    """OK a|b;c|d;e|lp pub -> (shape, [leaves], [accessors], [lp, pub])"""
    if not out.startswith("OK "):
        return out
    parts = out[3:].split("|")
    shape = tuple(int(x) for x in parts[0].split(",")) if parts[0] != "-" else ()
    groups = []
    for p in parts[1:-1]:
        groups.append([] if p == "-" else [(x if x == "REJ" else (parse_arr(x) if ":" in x else ((), b2fs(x)))) for x in p.split(";")])
    last = []
    for t in parts[-1].split(" "):
        last += b2fs(t)
    return shape, groups, last


def real_leaves(name, dist):
    if name == "LogNormal":
        a, e = dist.bijection.bijections
        return [np.asarray(a.loc), np.asarray(a.scale.arr), np.zeros(tuple(e.shape) + (0,))]
    if name == "Exponential":
        return [np.asarray(dist.bijection.scale.arr)]
    if name == "StudentT":
        return [np.asarray(dist.base_dist.df.arr), np.asarray(dist.bijection.loc), np.asarray(dist.bijection.scale.arr)]
    return [np.asarray(dist.bijection.loc), np.asarray(dist.bijection.scale.arr)]


def same_arr(got, want):
    """got = (shape, data) from the driver; want = numpy array"""
    gs, gd = got
    want = np.asarray(want, float)
    return tuple(gs) == tuple(want.shape) and vlib.allclose(gd, want.ravel().tolist(), **TOL)


def corr(c, tier, rng, c05=None, only_bij=False):
    if c05 is None:
        import props.c05 as c05
    quick = tier == "quick"
    lines, checks = [], []
    reps = 1 if quick else 6

    def add(line, kind, info):
        lines.append(line)
        checks.append((kind, info))

    for name, (ctor, kinds) in ([] if only_bij else c05.FAMS.items()):
        shapes_list = list(c05.SHAPES[len(kinds)])
        for shapes in shapes_list:
            for rep in range(reps):
                params = c05.rand_params(rng, kinds, shapes)
                try:
                    dist = c05.build(name, params)
                except Exception as ex:   # the real constructor raises: the generated one must too
                    add(f"gfam {name} {' '.join(arr_txt(p) for p in params)} {fs2b([0.0])}", "rej", dict(family=name, shapes=shapes, impl=type(ex).__name__))
                    c.case(("famgen-rej", name, shapes), True)
                    continue
                shape = tuple(dist.shape)
                n = int(np.prod(shape)) if shape else 1
                fp = c05.flat_params(params, shape)
                pts = [("inside", c05.std_points(name, fp, rng, n)) for _ in range(2)]
                base = c05.std_points(name, fp, rng, n)
                j = rng.randrange(n)
                for label, v, exact in c05.special_points(name, fp, j):
                    if exact and not (name in ("Logistic", "Exponential") and label == "-inf"):
                        xs = list(base)
                        xs[j] = v
                        pts.append((label, xs))
                for k, (label, xs) in enumerate(pts):
                    want = dict(shape=shape, leaves=real_leaves(name, dist), acc=c05.accessors(name, dist), args=c05.accessor_args(name, params, shape),
                                lps=c05.real_lps(dist, np.reshape(xs, shape)))
                    add(f"gfam {name} {' '.join(arr_txt(p) for p in params)} {fs2b(xs)}", "fam",
                        dict(family=name, shapes=shapes, params=[np.asarray(p).tolist() for p in params], x=xs, kind=label, want=want, first=(k == 0)))
                    c.case(("famgen", name, shapes, tuple(map(tuple, fp)), tuple(xs)), len(set(shapes)) > 1 or label != "inside",
                           sample={"op": lines[-1][:200], "impl": want["lps"]} if (rep == 0 and k == 0 and shapes == shapes_list[-1]) else None)
                    c.count(f"famgen:{name}:{label if label == 'inside' else 'special'}")
        # ---- rejected constructor calls: the generated constructor must raise exactly when the real one does
        for shapes in BAD_SHAPES.get(len(kinds), []):
            params = c05.rand_params(rng, kinds, shapes)
            rej = c05.raises(lambda: c05.build(name, params).shape)
            add(f"gfam {name} {' '.join(arr_txt(p) for p in params)} {fs2b([0.0])}", "guard", dict(family=name, shapes=shapes, impl="REJ" if rej else "ACC"))
            c.case(("famgen-badshape", name, shapes), True)
            c.count("famgen:bad-shapes")
    for lo, hi in [] if only_bij else [([0.0, 1.0], [1.0, 1.0]), ([0.0], [2.0, -1.0]), ([[0.0], [3.0]], [1.0, 2.0, 4.0])]:
        rej = c05.raises(lambda: D.Uniform(jnp.asarray(lo), jnp.asarray(hi)).bijection.loc)
        add(f"gfam Uniform {arr_txt(lo)} {arr_txt(hi)} {fs2b([0.5])}", "guard", dict(family="Uniform", minval=lo, maxval=hi, impl="REJ" if rej else "ACC"))
        c.case(("famgen-guardU", str(lo), str(hi)), True)
    for df in [[0.0], [3.0, -1.0], [[2.0, 0.0]]]:   # _StandardStudentT.__init__'s guard (C11 too)
        rej = c05.raises(lambda: D.StudentT(jnp.asarray(df), 0.0, 1.0).base_dist.df)
        add(f"gfam StudentT {arr_txt(df)} {arr_txt(0.0)} {arr_txt(1.0)} {fs2b([0.5])}", "guard", dict(family="StudentT", df=df, impl="REJ" if rej else "ACC"))
        c.case(("famgen-guardT", str(df)), True)

    # ---- the bijection constructors alone
    for shapes in c05.SHAPES[2] + BAD_SHAPES[2]:
        for rep in range(reps):
            loc, scale = c05.rand_params(rng, ("loc", "pos"), shapes)
            try:
                real = B.Affine(jnp.asarray(loc), jnp.asarray(scale))
            except Exception:
                add(f"gbij Affine {arr_txt(loc)} {arr_txt(scale)} {fs2b([0.0])}", "guard", dict(bij="Affine", shapes=shapes, impl="REJ"))
                c.case(("gbij-rej", shapes), True)
                continue
            n = int(np.prod(real.shape)) if real.shape else 1
            xs = [rng.uniform(-3, 3) for _ in range(n)]
            y, ld = unwrap(real).transform_and_log_det(jnp.reshape(jnp.asarray(xs), real.shape))
            add(f"gbij Affine {arr_txt(loc)} {arr_txt(scale)} {fs2b(xs)}", "bij",
                dict(bij="Affine", shapes=shapes, want=dict(shape=tuple(real.shape), leaves=[np.asarray(real.loc), np.asarray(real.scale.arr)], y=np.asarray(y), ld=float(ld))))
            c.case(("gbij", "Affine", shapes, tuple(np.ravel(loc)), tuple(np.ravel(scale))), len(set(shapes)) > 1)
            c.count("famgen:Affine.__init__")
    for (shape,) in c05.SHAPES[1]:
        for rep in range(reps):
            (scale,) = c05.rand_params(rng, ("pos",), (shape,))
            (loc,) = c05.rand_params(rng, ("loc",), (shape,))
            n = int(np.prod(shape)) if shape else 1
            xs = [rng.uniform(-3, 3) for _ in range(n)]
            real = B.Scale(jnp.asarray(scale))
            y, ld = unwrap(real).transform_and_log_det(jnp.reshape(jnp.asarray(xs), real.shape))
            add(f"gbij Scale {arr_txt(scale)} {fs2b(xs)}", "bij",
                dict(bij="Scale", shapes=(shape,), want=dict(shape=tuple(real.shape), leaves=[np.asarray(real.scale.arr)], y=np.asarray(y), ld=float(ld))))
            real = B.Loc(jnp.asarray(loc))
            y, ld = real.transform_and_log_det(jnp.reshape(jnp.asarray(xs), real.shape))
            add(f"gbij Loc {arr_txt(loc)} {fs2b(xs)}", "bij",
                dict(bij="Loc", shapes=(shape,), want=dict(shape=tuple(real.shape), leaves=[np.asarray(real.loc)], y=np.asarray(y), ld=float(ld))))
            c.case(("gbij", "Scale/Loc", shape, tuple(np.ravel(scale)), tuple(np.ravel(loc))), shape != ())
            c.count("famgen:Scale/Loc.__init__")

    # ---- MultivariateNormal: generated constructor + accessors, cholesky := jnp.linalg.cholesky(covariance)
    for dim in [] if only_bij else ([1, 2, 3] if quick else [1, 2, 3, 4, 5]):
        for kind in ["random", "diagonal", "identity"]:
            for rep in range(reps):
                cov = c05.rand_cov(rng, dim, kind)
                loc_arg, locv, loc_label = c05.rand_mvn_loc(rng, dim)
                real = D.MultivariateNormal(jnp.asarray(loc_arg), jnp.asarray(cov))
                L = np.asarray(jnp.linalg.cholesky(jnp.asarray(cov)))
                x = (locv + L @ np.asarray([rng.gauss(0, 1.5) for _ in range(dim)])).tolist()
                add(f"gmvn {dim} {fs2b(np.ravel(loc_arg).tolist())} {fs2b(L.ravel().tolist())} {fs2b(x)}", "mvn",
                    dict(dim=dim, kind=kind, loc=loc_label, want=dict(shape=tuple(real.shape), loc=np.asarray(real.loc), cov=np.asarray(real.covariance), cov_arg=cov,
                                                                     lps=c05.real_lps(real, x)), cond=float(np.linalg.cond(L))))
                c.case(("gmvn", dim, kind, loc_label, tuple(x)), True)
                c.count("famgen:MultivariateNormal")

    if not only_bij:
        corr_mixture(c, tier, rng, c05)
    outs = vlib.run_model(lines)
    for line, out, (kind, info) in zip(lines, outs, checks):
        got = parse(out)
        if kind in ("rej", "guard"):
            want_rej = info["impl"] != "ACC"
            if (got == "REJ") != want_rej:
                c.mismatch("generated-ctor-guard-vs-impl", op=line[:300], model=out[:80], **info)
            continue
        want = info.pop("want")
        if isinstance(got, str):
            c.mismatch("generated-ctor-vs-impl", op=line[:300], model=got[:200], **{k: v for k, v in info.items() if k != "first"})
            continue
        shape, groups, last = got
        if kind == "fam":
            first = info.pop("first")
            if shape != want["shape"]:
                c.mismatch("generated-ctor-shape-vs-impl", op=line[:300], model=shape, impl=want["shape"], **info)
            if first:   # leaves and accessors do not depend on the point
                leaves, accs = groups[0], groups[1]
                wl = want["leaves"]
                if info["family"] == "LogNormal":
                    ok = len(leaves) == 3 and same_arr(leaves[0], wl[0]) and same_arr(leaves[1], wl[1]) and tuple(leaves[2][0]) == tuple(wl[2].shape[:-1])
                else:
                    ok = len(leaves) == len(wl) and all(same_arr(g, w) for g, w in zip(leaves, wl))
                if not ok:
                    c.mismatch("generated-ctor-leaves-vs-impl", op=line[:300], model=leaves, impl=[w.tolist() for w in wl], **info)
                wa, wargs = list(want["acc"].values()), list(want["args"].values())
                if not (len(accs) == len(wa) and all(a != "REJ" and same_arr(a, w) for a, w in zip(accs, wa))):
                    c.mismatch("generated-accessor-vs-impl", op=line[:300], model=accs, impl={k: v.tolist() for k, v in want["acc"].items()}, **info)
                if not (len(accs) == len(wargs) and all(a != "REJ" and same_arr(a, w) for a, w in zip(accs, wargs))):
                    c.mismatch("generated-accessor-vs-ctor-argument", op=line[:300], model=accs, args={k: np.asarray(v).tolist() for k, v in want["args"].items()}, **info)
            wl = want["lps"]
            if not (len(last) == 2 and all((not isinstance(w, str)) and vlib.close(g, w, **TOL) for g, w in zip(last, wl))):
                c.mismatch("generated-ctor-log_prob-vs-impl", op=line[:300], model=last, impl=wl, **info)
        elif kind == "bij":
            leaves, ys = groups[0], groups[1]
            ok = shape == want["shape"] and len(leaves) == len(want["leaves"]) and all(same_arr(g, w) for g, w in zip(leaves, want["leaves"]))
            ok = ok and vlib.allclose(ys[0][1], np.ravel(want["y"]).tolist(), **TOL) and vlib.close(last[0], want["ld"], **TOL)
            if not ok:
                c.mismatch("generated-bijection-ctor-vs-impl", op=line[:300], model=out[:300], impl={k: np.asarray(v).tolist() if k != "leaves" else [w.tolist() for w in v] for k, v in want.items()}, **info)
        elif kind == "mvn":
            tol = dict(rtol=1e-8 * max(1.0, info["cond"]) ** 2, atol=1e-9)
            ok = shape == want["shape"] and vlib.allclose(groups[0][0][1], want["loc"].tolist(), **TOL)
            ok = ok and vlib.allclose(groups[1][0][1], want["cov"].ravel().tolist(), **tol) and vlib.allclose(groups[1][0][1], want["cov_arg"].ravel().tolist(), **tol)
            ok = ok and len(last) == 2 and all((not isinstance(w, str)) and vlib.close(g, w, **tol) for g, w in zip(last, want["lps"]))
            if not ok:
                c.mismatch("generated-mvn-ctor-vs-impl", op=line[:300], model=out[:300], impl={k: np.asarray(v).tolist() for k, v in want.items()}, **info)


def corr_mixture(c, tier, rng, c05):
    """the generated `VmapMixture.__init__` / `_log_prob` / `_sample` against real mixtures"""
    import equinox as eqx
    import jax.random as jr
    quick = tier == "quick"
    lines, checks = [], []
    for mi in range(10 if quick else 80):
        comp, k, d, params, ws = c05.rand_mixture(rng)
        m = c05.build_mixture(comp, params, ws)
        um = unwrap(m)
        raw = np.asarray(m.log_normalized_weights.args[0]).tolist()
        lnw = np.asarray(um.log_normalized_weights).tolist()
        for xs in c05.mixture_points(comp, k, d, params, rng):
            x = jnp.asarray(xs[0] if d is None else xs)
            lps = np.asarray(eqx.filter_vmap(lambda dd: dd._log_prob(x))(um.dist)).tolist()
            lines.append(f"gmix {fs2b(ws.tolist())} {fs2b(lps)}")
            checks.append(("lp", dict(comp=comp, k=k, d=d, ws=ws.tolist(), x=xs, component_log_probs=lps), [raw, lnw, c05.real_lps(m, np.asarray(x))]))
            c.case(("gmix", comp, k, d, tuple(ws.tolist()), tuple(xs)), True, sample={"op": lines[-1][:200], "impl": checks[-1][2][2]} if mi == 0 else None)
            c.count("famgen:VmapMixture._log_prob")
        for ki in range(3):
            key = jr.PRNGKey(rng.randrange(2 ** 31))
            key1, key2 = jr.split(key)
            component = int(jr.categorical(key1, um.log_normalized_weights))
            per = [np.asarray(unwrap(c05.build(comp, [np.asarray(p[i]) for p in params]))._sample(key2)).ravel().tolist() for i in range(k)]
            dd = d or 1
            lines.append(f"gmixs {fs2b(ws.tolist())} {component} {dd} {fs2b([v for p in per for v in p])}")
            checks.append(("sample", dict(comp=comp, k=k, d=d, ws=ws.tolist(), component=component), np.asarray(um._sample(key)).ravel().tolist()))
            c.case(("gmixs", comp, k, d, tuple(ws.tolist()), component, tuple(per[component])), True)
            c.count("famgen:VmapMixture._sample")
    for ws in [[1.0, 0.0], [-1.0], [2.0, 3.0, -1e-9]]:
        rej = c05.raises(lambda: D.VmapMixture(eqx.filter_vmap(D.Normal)(jnp.zeros(len(ws)), jnp.ones(len(ws))), jnp.asarray(ws)).log_normalized_weights.args[0])
        lines.append(f"gmix {fs2b(ws)} {fs2b([0.0] * len(ws))}")
        checks.append(("guard", dict(ws=ws), "REJ" if rej else "ACC"))
        c.case(("gmix-guard", tuple(ws)), True)
    outs = vlib.run_model(lines)
    for line, out, (kind, info, want) in zip(lines, outs, checks):
        if kind == "guard":
            if (out == "REJ") != (want == "REJ"):
                c.mismatch("generated-mixture-guard-vs-impl", op=line[:200], model=out[:60], impl=want, **info)
            continue
        if not out.startswith("OK "):
            c.mismatch("generated-mixture-vs-impl", op=line[:200], model=out[:60], impl=want, **info)
            continue
        if kind == "lp":
            parts = out[3:].split("|")
            got = [b2fs(parts[0]), b2fs(parts[1]), [v for t in parts[2].split(" ") for v in b2fs(t)]]
            ok = vlib.allclose(got[0], want[0], **TOL) and vlib.allclose(got[1], want[1], **TOL)
            ok = ok and len(got[2]) == 2 and all((not isinstance(w, str)) and vlib.close(g, w, **TOL) for g, w in zip(got[2], want[2]))
            if not ok:
                c.mismatch("generated-mixture-vs-impl", op=line[:200], model=got, impl=want, **info)
        else:
            got = b2fs(out[3:])
            if not vlib.allclose(got, want, rtol=1e-12, atol=0):
                c.mismatch("generated-mixture-sample-vs-impl", op=line[:200], model=got, impl=want, **info)
