"""C17 — the three losses compute their defining formulas.

Tie: `Model/Losses.lean` is a HAND model of `flowjax/train/losses.py`.  Here the real
`MaximumLikelihoodLoss`, `ElboLoss`, `ContrastiveLoss`, `_get_contrastive_idxs` run against the
model (driver ops `mle`, `elbo`, `cidx`, `contrastive`, Float) fed ONLY with quantities obtained
from the distribution's public methods (`log_prob`, `sample`, `sample_and_log_prob`) and with the
indices the real `_get_contrastive_idxs` produced (re-derived by the model from a permutation that
starts with them, so an invalid row is rejected by the model).

The clause "with stick-the-landing the gradient omits the score-function term" is a theorem about
the reverse-mode model `Model/Ad.lean` (+ `Expr.stopGrad`) / `Model/ElboAd.lean`
(`C17.elbo_stl_gradient_is_path_derivative`, `C17.elbo_plain_gradient_decomposition`).  That model
is tied to the real code here (`stl_real` / `stl_model_compare`, driver op `stlgrad`, Float): value and the adjoint
of EVERY trainable leaf of the real `ElboLoss(target, n, stick_the_landing=True/False)` under
`eqx.filter_value_and_grad`, for real `Normal`, `Transformed(Normal, Exp/Tanh/SoftPlus)` and
`Transformed(StandardNormal, Chain([Affine, …]))` in 1–3 dimensions with the SAME base noise
(recomputed from the key through the public `sample` of the innermost base distribution), against
the model's reverse pass; the model's path-derivative and score-term adjoints (as DEFINED in the
theorems) against the real STL gradient and against `grad_φ mean log q_φ(x)` at the fixed real
samples; and the decomposition plain = STL + score on the real code alone.
`stl_gradient_check` (kept) compares `eqx.filter_grad` of the real loss, for q = Normal(mu, sigma)
and a quadratic target, with the closed-form path-derivative estimator computed in NumPy from the
same base samples, and checks that the plain ELBO gradient differs from it by exactly the score term.
"""
from __future__ import annotations

import math
import random

import equinox as eqx
import jax
import jax.numpy as jnp
import jax.random as jr
import numpy as np

import flowjax.bijections as B
from flowjax import flows
from flowjax.distributions import Normal, StandardNormal, Transformed
from flowjax.train.losses import ContrastiveLoss, ElboLoss, MaximumLikelihoodLoss, _get_contrastive_idxs
from flowjax.wrappers import NonTrainable, non_trainable

import vlib
from vlib import f2b, fs2b, b2f, ints

ID = "C17"
GEN = ["LeavesAst"]   # the expression trees of the reverse-mode ELBO model are assembled from these generated kernels
GEN_TARGETS = {"Affine.transform.ast", "Affine.inverse.ast", "Affine.transform_and_log_det.ast", "Affine.inverse_and_log_det.ast",
               "Exp.transform_and_log_det.ast", "Exp.inverse_and_log_det.ast", "SoftPlus.transform.ast", "SoftPlus.inverse.ast",
               "SoftPlus.transform_and_log_det.ast", "SoftPlus.inverse_and_log_det.ast", "tanhLogGrad.ast",
               "Tanh.transform_and_log_det.ast", "Tanh.inverse_and_log_det.ast"}
RULE = ("real MaximumLikelihoodLoss / ElboLoss (both stick_the_landing settings) / ContrastiveLoss on Normal (scalar and vector), "
        "Transformed with NonTrainable + BijectionReparam nodes, coupling_flow and masked_autoregressive_flow (conditional and "
        "unconditional, parameters perturbed away from initialisation), batch sizes 0..8, num_samples 1..6, n_contrastive 0..batch-1 "
        "plus the guard at batch <= n and mismatched condition batch; model fed with public log_prob / sample / sample_and_log_prob "
        "values and the actual _get_contrastive_idxs rows; STL gradient vs closed-form path-derivative estimator; reverse-mode model "
        "(driver op stlgrad) vs eqx.filter_value_and_grad of the real ElboLoss with and without stick_the_landing on Normal, "
        "Transformed(Normal, Exp/Tanh/SoftPlus) and Affine/Tanh/Exp/SoftPlus chains in 1-3 dims (every trainable leaf, same noise, rtol 1e-8), "
        "model path/score adjoints vs real STL gradient / real grad of log q at fixed samples, plain = STL + score on the real code. non-trivial = "
        "non-default parameters and batch/num_samples >= 2; distinct = distinct (loss, distribution, seed, sizes, setting)")
TRUSTED = [
    "Lean 4.33 kernel; Mathlib v4.33; axioms propext, Classical.choice, Quot.sound",
    "Model/Losses.lean (hand model of train/losses.py; validated by this correspondence on every run)",
    "Model/Ad.lean reverse-mode rules incl. Expr.stopGrad (symbolic-zero cotangent, as jax.lax.stop_gradient) and Model/ElboAd.lean "
    "(hand wiring of Transformed._sample/_log_prob/_sample_and_log_prob, Chain, BijectionReparam(scale, SoftPlus), norm.logpdf, .mean() around the "
    "GENERATED kernels of Gen/LeavesAst.lean): validated against jax.grad of the real ElboLoss by this correspondence on every run",
    "Proofs/DistTheory.lean Distn.Consistent (C03) as the hypothesis of elbo_stl_same_value",
    "jr.choice(replace=False) modelled as the first n entries of SOME permutation of the candidates (validated: the real rows are re-derived by the model)",
    "theorems are over ℝ: IEEE rounding is measured (rtol 1e-9) not proved; logsumexp's max-shift is modelled and proved equal to log-sum-exp",
]
ASSUMPTIONS = [
    "the STL-gradient theorems are about the reverse-mode calculus Ad.Expr (scalar straight-line expressions with let, select, max/min, "
    "vector-parameter lookup, stop_gradient), for EVERY expression-level sample x(θ,ε), log-density and parameter-free target; that JAX's "
    "autodiff implements these cotangent rules is trusted and measured (value and every adjoint, rtol 1e-8) on elementwise flows; network "
    "conditioners (coupling / MAF) are outside the expression language — for them only the value clauses are theorems",
    "the plain (non-STL) branch is modelled as log q_θ(x(θ,ε)) through log_prob; the real code evaluates it by sample_and_log_prob "
    "(forward log-dets). The two gradients agree on the real code and in the model (both forms are run and compared, rtol 1e-8) but their "
    "equality is not a theorem of the AD calculus",
    "distributions enter the theorems as abstract records of their three unbatched methods; the per-sample keys of sample / "
    "sample_and_log_prob are an abstract list (both public methods split the key identically — checked by the STL/non-STL value equality)",
    "empty batch: the real losses return NaN (0/0), as does the Float model; over ℝ the formulas read 0/0 = 0",
    "the theorems are about real (finite) logits; a batch point outside the model's support has logit -inf and the contrastive loss is then "
    "+inf or NaN in the real code and in the Float model alike (compared by IEEE class)",
]
TOL = dict(rtol=1e-9, atol=1e-11)


# ------------------------------------------------------------------ real objects
def partition(dist):
    return eqx.partition(dist, eqx.is_inexact_array, is_leaf=lambda l: isinstance(l, NonTrainable))


def perturb(tree, r, scale=0.3):
    leaves, treedef = jax.tree_util.tree_flatten(tree)
    new = []
    for l in leaves:
        if eqx.is_inexact_array(l):
            noise = np.asarray([r.gauss(0, scale) for _ in range(int(np.prod(l.shape)) or 1)]).reshape(l.shape)
            new.append(l + jnp.asarray(noise, l.dtype))
        else:
            new.append(l)
    return jax.tree_util.tree_unflatten(treedef, new)


def _vec(r, d, lo, hi, f=lambda v: v):
    return jnp.asarray([f(r.uniform(lo, hi)) for _ in range(d)])


UNCOND = ["normal", "normal_scalar", "wrapped", "coupling", "maf"]
COND = ["coupling_c", "maf_c", "wrapped_c"]


def build(name, seed):
    """(distribution with non-default parameters, cond_dim or None) — deterministic in (name, seed)"""
    r = random.Random(seed * 7919 + 13)
    key = jr.PRNGKey(seed)
    if name == "normal":
        d = r.choice([1, 2, 3])
        return Normal(_vec(r, d, -2, 2), _vec(r, d, -1, 1, math.exp)), None
    if name == "normal_scalar":
        return Normal(r.uniform(-2, 2), math.exp(r.uniform(-1, 1))), None
    if name == "lognormal":
        # support (0, inf): batches drawn from N(0, 1.2) mix in-support rows with rows whose raw log-density is NaN (public: -inf)
        from flowjax.distributions import LogNormal
        d = r.choice([1, 2])
        return LogNormal(_vec(r, d, -1, 1), _vec(r, d, -0.5, 0.5, math.exp)), None
    if name == "wrapped":
        # NonTrainable leaves in the base, BijectionReparam (Affine.scale) + NonTrainable in the chain
        base = non_trainable(Normal(_vec(r, 2, -1, 1), _vec(r, 2, -0.5, 0.5, math.exp)))
        bij = B.Chain([B.Affine(_vec(r, 2, -1, 1), _vec(r, 2, -0.5, 0.5, math.exp)), non_trainable(B.Tanh((2,))),
                       B.Scale(_vec(r, 2, 0, 1, math.exp))])
        return Transformed(base, bij), None
    if name == "wrapped_c":
        w, b = r.uniform(-1, 1), r.uniform(-1, 1)
        bij = B.Chain([B.Affine(_vec(r, 2, -1, 1), _vec(r, 2, -0.5, 0.5, math.exp)),
                       B.AdditiveCondition(lambda c, w=w, b=b: jnp.tanh(w * c[:2] + b) + c[2], (2,), (3,))])
        return Transformed(non_trainable(StandardNormal((2,))), bij), 3
    if name in ("coupling", "coupling_c"):
        cd = 2 if name.endswith("_c") else None
        fl = flows.coupling_flow(key, base_dist=StandardNormal((3,)), cond_dim=cd, flow_layers=2, nn_width=6, nn_depth=1,
                                 invert=r.random() < 0.5)
        return perturb(fl, r), cd
    if name in ("maf", "maf_c"):
        cd = 3 if name.endswith("_c") else None
        fl = flows.masked_autoregressive_flow(key, base_dist=StandardNormal((2,)), cond_dim=cd, flow_layers=2, nn_width=6,
                                              nn_depth=1, invert=r.random() < 0.5)
        return perturb(fl, r), cd
    raise KeyError(name)


def data(dist, cd, b, seed, bc=None, in_support=False):
    rs = np.random.RandomState(seed % (2 ** 31))
    x = jnp.asarray(rs.normal(size=(b,) + tuple(dist.shape)) * 1.2)
    if in_support and b not in (0, 8):   # bounded support (Tanh layer): use draws, except batch 8 (keeps a -inf log-prob case)
        x = dist.sample(jr.PRNGKey(seed % (2 ** 31)), (b,)) if cd is None else x
    c = None if cd is None else jnp.asarray(rs.normal(size=((b if bc is None else bc), cd)))
    return x, c


def prior_for(dist, seed):
    r = random.Random(seed * 31 + 5)
    shape = tuple(dist.shape)
    n = int(np.prod(shape)) if shape else 1
    loc = np.asarray([r.uniform(-1, 1) for _ in range(n)]).reshape(shape)
    sc = np.asarray([math.exp(r.uniform(0, 1)) for _ in range(n)]).reshape(shape)
    return Normal(jnp.asarray(loc), jnp.asarray(sc))


def quad_target(shape, seed):
    r = random.Random(seed * 17 + 3)
    n = int(np.prod(shape)) if shape else 1
    a = np.asarray([math.exp(r.uniform(-1, 1)) for _ in range(n)]).reshape(shape)
    m = np.asarray([r.uniform(-1, 1) for _ in range(n)]).reshape(shape)
    aj, mj = jnp.asarray(a), jnp.asarray(m)
    return (lambda x: -0.5 * jnp.sum(aj * (x - mj) ** 2)), a, m


def fl(v):
    return float(np.asarray(v))


def call(f):
    try:
        return fl(f()), None
    except Exception as ex:  # noqa: BLE001
        return None, type(ex).__name__


# ------------------------------------------------------------------ index helpers
def idx_valid(rows, b, n):
    """the conclusion of C17.contrastive_idxs_valid on a concrete table; returns a reason or None"""
    rows = np.asarray(rows)
    if rows.shape != (b, n):
        return f"shape {rows.shape} != {(b, n)}"
    for i, row in enumerate(rows.tolist()):
        if len(set(row)) != n:
            return f"row {i} has repeated indices {row}"
        if i in row:
            return f"row {i} contains its own index {row}"
        if any(j < 0 or j >= b for j in row):
            return f"row {i} out of range {row}"
    return None


def completion(row, b, i):
    """a permutation of delete(arange(b), i) that starts with `row` (only a permutation if the row is valid)"""
    row = [int(v) for v in row]
    rest = [j for j in range(b) if j != i and j not in row]
    return row + rest


def softmax_xent(pos, neg):
    """-log( e^pos / (e^pos + sum e^neg) ), the defining formula, evaluated directly (shifted for safety)"""
    with np.errstate(all="ignore"):   # -inf logits (points outside the support) follow IEEE: +inf or NaN
        neg = np.asarray(list(neg), dtype=float)
        m = max(float(pos), float(neg.max())) if neg.size else float(pos)
        den = np.exp(pos - m) + np.sum(np.exp(neg - m))
        return float(-np.log(np.exp(pos - m) / den))


# ------------------------------------------------------------------ per-loss evaluation of the real code
def mle_case(name, seed, b, bcast=False):
    dist, cd = build(name, seed)
    x, c = data(dist, cd, b, seed + 1, in_support=name == "wrapped")
    if bcast and cd is not None:
        c = c[0] if b else jnp.zeros((cd,))
    params, static = partition(dist)
    real, exc = call(lambda: MaximumLikelihoodLoss()(params, static, x, c))
    # row-by-row public log_prob (unbatched calls)
    lps = [fl(dist.log_prob(x[i], None if c is None else (c if bcast else c[i]))) for i in range(b)]
    return real, exc, lps


def elbo_case(name, seed, n):
    dist, cd = build(name, seed)
    assert cd is None
    target, a, m = quad_target(tuple(dist.shape), seed)
    params, static = partition(dist)
    key = jr.PRNGKey(seed * 101 + n)
    real0, e0 = call(lambda: ElboLoss(target, n, stick_the_landing=False)(params, static, key))
    real1, e1 = call(lambda: ElboLoss(target, n, stick_the_landing=True)(params, static, key))
    s1, lp1 = dist.sample_and_log_prob(key, (n,))
    s2 = dist.sample(key, (n,))
    lp2 = dist.log_prob(s2)
    tg1 = [fl(target(s1[i])) for i in range(n)]
    tg2 = [fl(target(s2[i])) for i in range(n)]
    return dict(real0=real0, real1=real1, exc=(e0, e1), lp1=[fl(v) for v in lp1], lp2=[fl(v) for v in lp2], tg1=tg1, tg2=tg2)


def contrastive_case(name, seed, b, n, bc=None):
    dist, cd = build(name, seed)
    x, c = data(dist, cd, b, seed + 2, bc=bc, in_support=name == "wrapped")
    prior = prior_for(dist, seed)
    params, static = partition(dist)
    key = jr.PRNGKey(seed * 211 + 17 * b + n)
    real, exc = call(lambda: ContrastiveLoss(prior, n)(params, static, x, c, key))
    rows = np.asarray(_get_contrastive_idxs(key, b, n)).reshape(b, n).tolist() if n < b else None
    nc = b if c is None else c.shape[0]
    # LP[i][j] = log p(x_j | c_i) through the public, broadcasting log_prob
    if c is None:
        lp = np.tile(np.asarray(dist.log_prob(x))[None, :], (nc, 1))
    else:
        lp = np.asarray(dist.log_prob(x[None, ...], c.reshape((nc, 1) + c.shape[1:])))
    pr = np.asarray(prior.log_prob(x))
    return dict(real=real, exc=exc, rows=rows, lp=lp.reshape(nc, b), prior=pr.reshape(b), nc=nc)


def stl_gradient_check(seed, d, n):
    """returns a list of (what, got, want) disagreements; [] = the STL gradient is the path-derivative estimator"""
    r = random.Random(seed * 53 + d)
    shape = () if d == 0 else (d,)
    k = max(d, 1)
    mu = np.asarray([r.uniform(-2, 2) for _ in range(k)]).reshape(shape)
    sig = np.asarray([math.exp(r.uniform(-1, 1)) for _ in range(k)]).reshape(shape)
    q = Normal(jnp.asarray(mu), jnp.asarray(sig))
    target, a, m = quad_target(shape, seed + 9)
    params, static = partition(q)
    key = jr.PRNGKey(seed * 97 + n)
    g_stl = eqx.filter_grad(lambda p: ElboLoss(target, n, stick_the_landing=True)(p, static, key))(params)
    g_pln = eqx.filter_grad(lambda p: ElboLoss(target, n, stick_the_landing=False)(p, static, key))(params)
    x = np.asarray(q.sample(key, (n,))).reshape(n, k)
    muf, sigf, af, mf = mu.reshape(k), sig.reshape(k), a.reshape(k), m.reshape(k)
    z = (x - muf) / sigf                       # the base samples
    rho = np.asarray(params.bijection.scale.arr).reshape(k)
    dsig = 1.0 / (1.0 + np.exp(-rho))          # d softplus(rho)/d rho
    inner = -z / sigf + af * (x - mf)          # grad_x [log q(x) - log p(x)] with q's parameters held fixed
    path_mu, path_sig = inner.mean(0), (inner * z).mean(0)
    score_mu, score_sig = (z / sigf).mean(0), ((z ** 2 - 1) / sigf).mean(0)
    got = {
        "stl d/dloc": (np.asarray(g_stl.bijection.loc).reshape(k), path_mu),
        "stl d/dscale_raw": (np.asarray(g_stl.bijection.scale.arr).reshape(k), path_sig * dsig),
        "plain-stl d/dloc = score": (np.asarray(g_pln.bijection.loc).reshape(k) - np.asarray(g_stl.bijection.loc).reshape(k), score_mu),
        "plain-stl d/dscale_raw = score": (np.asarray(g_pln.bijection.scale.arr).reshape(k) - np.asarray(g_stl.bijection.scale.arr).reshape(k), score_sig * dsig),
    }
    bad = []
    for what, (g, w) in got.items():
        if not np.allclose(g, w, rtol=1e-8, atol=1e-9):
            bad.append((what, g.tolist(), w.tolist()))
    nontrivial = bool(np.max(np.abs(score_mu)) > 1e-6 and np.max(np.abs(score_sig)) > 1e-6)
    return bad, nontrivial


# ------------------------------------------------------------------ reverse-mode model of ElboLoss vs jax.grad of the real loss
STL_KINDS = ["normal", "normal+E", "normal+T", "normal+S", "AS", "ATA", "AEA", "AA"]
_EL = {"E": lambda d: B.Exp((d,)), "T": lambda d: B.Tanh((d,)), "S": lambda d: B.SoftPlus((d,))}


def stl_build(kind, d, seed):
    """(real distribution, layer string of the model, innermost base distribution) — deterministic in (kind, d, seed);
    parameters away from the default initialisation, locations of both signs"""
    r = random.Random(seed * 131 + 7 * d + len(kind))
    vec = lambda lo, hi, f=(lambda v: v): jnp.asarray([f(r.uniform(lo, hi)) for _ in range(d)])
    if kind == "normal":
        dist = Normal(vec(-0.7, 0.7), vec(-0.6, 0.2, math.exp))
        return dist, "A", dist.base_dist
    if kind.startswith("normal+"):
        inner = Normal(vec(-0.7, 0.7), vec(-0.6, 0.2, math.exp))
        return Transformed(inner, _EL[kind[-1]](d)), "A" + kind[-1], inner.base_dist
    bs = [B.Affine(vec(-0.7, 0.7), vec(-0.6, 0.2, math.exp)) if ch == "A" else _EL[ch](d) for ch in kind]
    dist = Transformed(StandardNormal((d,)), B.Chain(bs))
    return dist, kind, dist.base_dist


def stl_affines(tree):
    """the Affine nodes of the distribution (or of a gradient / params tree of the same structure), in chain order"""
    if isinstance(tree.bijection, B.Chain):
        return [b for b in tree.bijection.bijections if isinstance(b, B.Affine)]
    if isinstance(tree.bijection, B.Affine):
        return [tree.bijection]
    return [tree.base_dist.bijection]


def stl_leaves(tree):
    """trainable leaves in the model's order: per affine layer loc[0..d) then the raw (pre-softplus) scale[0..d)"""
    out = []
    for a in stl_affines(tree):
        out += list(np.asarray(a.loc).reshape(-1)) + list(np.asarray(a.scale.arr).reshape(-1))
    return out


def stl_target(d, seed):
    r = random.Random(seed * 17 + 3 + d)
    a = np.asarray([math.exp(r.uniform(-1, 1)) for _ in range(d)])
    m = np.asarray([r.uniform(-1, 1) for _ in range(d)])
    kappa = r.uniform(-0.5, 0.5)
    aj, mj = jnp.asarray(a), jnp.asarray(m)
    return (lambda x: -0.5 * jnp.sum(aj * (x - mj) ** 2) + kappa * jnp.sum(x[:-1] * x[1:])), a, m, kappa


def stl_real(kind, d, n, seed):
    """everything the real code says about one (flow, target, key): values, gradients of both settings w.r.t. every trainable
    leaf, the score term grad_φ mean log q_φ(x) at the fixed real samples, the path derivative with φ a closed-over constant"""
    dist, layers, base = stl_build(kind, d, seed)
    target, a, m, kappa = stl_target(d, seed)
    params, static = partition(dist)
    key = jr.PRNGKey(seed * 31 + 5 * d + n)
    eps = np.asarray(base.sample(key, (n,))).reshape(n, d)          # the base noise of dist.sample(key, (n,))
    v_stl, g_stl = eqx.filter_value_and_grad(lambda p: ElboLoss(target, n, stick_the_landing=True)(p, static, key))(params)
    v_pln, g_pln = eqx.filter_value_and_grad(lambda p: ElboLoss(target, n, stick_the_landing=False)(p, static, key))(params)
    x = dist.sample(key, (n,))
    g_score = eqx.filter_grad(lambda p: eqx.combine(p, static).log_prob(x).mean())(params)

    def path_loss(p):
        xs = eqx.combine(p, static).sample(key, (n,))
        return (dist.log_prob(xs) - jax.vmap(target)(xs)).mean()      # φ = the closed-over constant `dist`
    g_path = eqx.filter_grad(path_loss)(params)
    return dict(layers=layers, theta=stl_leaves(params), eps=eps, a=a, m=m, kappa=kappa, v_stl=fl(v_stl), v_pln=fl(v_pln),
                g_stl=np.asarray(stl_leaves(g_stl)), g_pln=np.asarray(stl_leaves(g_pln)), g_score=np.asarray(stl_leaves(g_score)),
                g_path=np.asarray(stl_leaves(g_path)))


def _gclose(u, v, rtol=1e-8):
    u, v = np.asarray(u, dtype=float), np.asarray(v, dtype=float)
    if u.shape != v.shape:
        return False
    scale = max(1.0, float(np.max(np.abs(u))) if u.size else 1.0, float(np.max(np.abs(v))) if v.size else 1.0)
    return vlib.allclose(u.tolist(), v.tolist(), rtol=rtol, atol=1e-10 * scale)


def stl_real_laws(r):
    """the gradient clause on the real code alone; list of (law, got, want)"""
    bad = []
    if not vlib.close(r["v_stl"], r["v_pln"], rtol=1e-8, atol=1e-10):
        bad.append(("same value with or without stick_the_landing", r["v_stl"], r["v_pln"]))
    if not _gclose(r["g_stl"], r["g_path"]):
        bad.append(("STL gradient = path derivative (log q's parameters a closed-over constant)", r["g_stl"].tolist(), r["g_path"].tolist()))
    if not _gclose(r["g_pln"] - r["g_stl"], r["g_score"]):
        bad.append(("plain gradient - STL gradient = score term grad_phi mean log q_phi(x) at fixed samples",
                    (r["g_pln"] - r["g_stl"]).tolist(), r["g_score"].tolist()))
    return bad


def stl_model_line(r, d, n):
    return (f"stlgrad {r['layers']} {d} {n} {fs2b(r['theta'])} {fs2b(r['eps'].reshape(-1))} {fs2b(r['a'])} {fs2b(r['m'])} "
            f"{f2b(r['kappa'])}")


def stl_model_compare(c, got, r, info):
    """model (Float) vs real: values, every adjoint of the three forms, the defined path / score adjoints"""
    if got.startswith("ERR"):
        c.mismatch("stlgrad-model-vs-impl", model=got, **info)
        return
    parts = [p.strip() for p in got.split("|")]
    vals = [b2f(t) for t in parts[0].split(" ")]
    gP, gS, gF, gPath, gScore = [np.asarray(vlib.b2fs(p)) for p in parts[1:]]
    checks = [
        ("value plain (log_prob of the sample)", vals[0], r["v_pln"]), ("value STL", vals[1], r["v_stl"]),
        ("value plain (sample_and_log_prob form)", vals[2], r["v_pln"]),
    ]
    for what, g, w in checks:
        if not vlib.close(g, w, rtol=1e-9, atol=1e-11):
            c.mismatch("stlgrad-model-vs-impl", what=what, model=g, impl=w, **info)
    gchecks = [
        ("grad plain: model log_prob form vs jax.grad of real non-STL loss", gP, r["g_pln"]),
        ("grad plain: model sample_and_log_prob form vs jax.grad of real non-STL loss", gF, r["g_pln"]),
        ("grad STL: model vs jax.grad of real STL loss", gS, r["g_stl"]),
        ("model path derivative (Elbo.pathGrad) vs jax.grad of real STL loss", gPath, r["g_stl"]),
        ("model score term (Elbo.scoreGrad) vs real grad_phi mean log q_phi(x)", gScore, r["g_score"]),
        ("model: STL adjoint = path derivative (theorem (b) at Float)", gS, gPath),
        ("model: plain adjoint = STL adjoint + score (theorem (c) at Float)", gP, gS + gScore),
    ]
    for what, g, w in gchecks:
        if not _gclose(g, w):
            c.mismatch("stlgrad-model-vs-impl", what=what, model=np.asarray(g).tolist(), impl=np.asarray(w).tolist(), **info)


# ------------------------------------------------------------------ correspondence
def corr(c, tier, rng):
    quick = tier == "quick"
    # thorough: hundreds of distinct jit shapes — drop compiled executables between blocks (LLVM "Cannot allocate memory" otherwise)
    clear = (lambda: None) if quick else jax.clear_caches
    lines, checks = [], []   # checks[i] = (name, want (float | "NONE" | list of rows), info)

    def add(line, name, want, info):
        lines.append(line); checks.append((name, want, info))

    # ---- 1. maximum likelihood
    names = UNCOND + COND
    for name in names:
        heavy = name.startswith(("coupling", "maf"))
        seeds = [rng.randrange(1, 10 ** 6) for _ in range(1 if quick else 3)]
        for seed in seeds:
            clear()
            bs = ([rng.choice([1, 2, 3]), rng.choice([3, 5, 8])] if quick and heavy else
                  [0, 1, 2, rng.choice([3, 4, 5, 6, 7]), 8] if quick else list(range(0, 9)))
            for b in bs:
                for bcast in ([False, True] if (name in COND and b in (2, 3)) else [False]):
                    real, exc, lps = mle_case(name, seed, b, bcast)
                    sig = ("mle", name, seed, b, bcast)
                    if exc is not None:
                        c.mismatch("mle-real-raises", dist=name, seed=seed, batch=b, exc=exc)
                        continue
                    add(f"mle {fs2b(lps)}", "mle-model-vs-impl", real, dict(dist=name, seed=seed, batch=b, bcast=bcast))
                    c.case(sig, b >= 2, sample={"op": f"mle <{b} public log_probs>", "impl": real} if b == 3 else None)
                    c.count("mle:" + name)
    # ---- 2. ELBO, both settings
    for name in UNCOND:
        heavy = name in ("coupling", "maf")
        for seed in [rng.randrange(1, 10 ** 6) for _ in range(1 if quick else 3)]:
            clear()
            ns = ([1, rng.choice([2, 3, 4])] if quick and heavy else [1, 2, rng.choice([3, 4, 5, 6])] if quick else [1, 2, 3, 4, 5, 6])
            for n in ns:
                r = elbo_case(name, seed, n)
                info = dict(dist=name, seed=seed, num_samples=n)
                if r["exc"] != (None, None):
                    c.mismatch("elbo-real-raises", exc=r["exc"], **info)
                    continue
                for stl in (0, 1):
                    add(f"elbo {stl} {fs2b(r['lp1'])} {fs2b(r['tg1'])} {fs2b(r['lp2'])} {fs2b(r['tg2'])}", "elbo-model-vs-impl",
                        r[f"real{stl}"], dict(stl=stl, **info))
                    c.case(("elbo", name, seed, n, stl), n >= 2,
                           sample={"op": f"elbo stl={stl} n={n} {name}", "impl": r[f"real{stl}"]} if n == 2 and stl == 1 else None)
                # same value with or without stick-the-landing (real code vs real code)
                if not vlib.close(r["real0"], r["real1"], rtol=1e-7, atol=1e-9):
                    c.mismatch("elbo-stl-same-value", real_plain=r["real0"], real_stl=r["real1"], **info)
                c.count("elbo:" + name)
    # ---- 3. contrastive: indices + value + guard
    for name in ["normal", "normal_scalar", "wrapped", "coupling_c", "maf_c", "wrapped_c"] + ([] if quick else ["coupling", "maf"]):
        heavy = name.startswith(("coupling", "maf"))
        seed = rng.randrange(1, 10 ** 6)
        if quick and heavy:
            combos = [(2, 1), (4, rng.choice([1, 2, 3])), (rng.choice([6, 7, 8]), rng.choice([2, 5]))]
        elif quick:
            # every batch size 2..8 for every distribution; n cycles through 1, batch-1, random (both ends for "normal")
            pick = lambda b, t: [1, b - 1, rng.randrange(1, b)][t % 3]
            combos = [(b, n) for b in range(2, 9) for n in (sorted({1, b - 1}) if (name == "normal" and b % 2 == 0) else [pick(b, b + len(name))])]
            combos += [(1, 0), (3, 0)] if name == "normal" else []
        elif heavy or name in COND:
            combos = [(b, n) for b in range(2, 9) for n in sorted({1, b - 1, rng.randrange(1, b)})]
        else:
            combos = [(b, n) for b in range(1, 9) for n in range(0, b)]
        clear()
        guards = [(2, 2), (3, 5), (1, 1)] if not heavy or not quick else [(2, 2)]
        for ci, (b, n) in enumerate(combos + guards):
            if ci % 12 == 11:
                clear()
            r = contrastive_case(name, seed, b, n)
            info = dict(dist=name, seed=seed, batch=b, n_contrastive=n)
            if n >= b:
                # guard: the real code must raise ValueError, the model must return NONE
                if r["exc"] != "ValueError":
                    c.mismatch("contrastive-guard-real", real=r["real"], exc=r["exc"], **info)
                perms = [completion([], b, i) for i in range(b)]
                add(f"contrastive {b} {b} {n} {fs2b(r['prior'])} " + " ".join(ints(p) for p in perms) + " " + " ".join(fs2b(row) for row in r["lp"]),
                    "contrastive-guard-model", "NONE", info)
                c.case(("contrastive-guard", name, b, n), True)
                c.count("contrastive-guard")
                continue
            if r["exc"] is not None:
                c.mismatch("contrastive-real-raises", exc=r["exc"], **info)
                continue
            why = idx_valid(r["rows"], b, n)
            if why:
                c.mismatch("contrastive-idxs-valid", why=why, rows=r["rows"], **info)
            perms = [completion(r["rows"][i], b, i) for i in range(b)]
            ptxt = " ".join(ints(p) for p in perms)
            add(f"cidx {b} {n} {ptxt}", "contrastive-idxs-model-vs-impl", r["rows"], info)
            add(f"contrastive {b} {b} {n} {fs2b(r['prior'])} {ptxt} " + " ".join(fs2b(row) for row in r["lp"]),
                "contrastive-model-vs-impl", r["real"], info)
            if r["real"] < -1e-12:   # NaN / +inf (a batch point outside the support: logit -inf) are not negative
                c.mismatch("contrastive-nonneg", real=r["real"], **info)
            c.case(("contrastive", name, seed, b, n), n >= 1, sample={"op": f"contrastive b={b} n={n} {name} idxs={r['rows']}", "impl": r["real"]} if (b, n) == (4, 1) else None)
            c.case(("cidx", name, seed, b, n), n >= 1)
            c.count("contrastive:" + name)
        # mismatched batch of the condition: filter_vmap refuses, the model returns NONE
        if name in COND:
            b, n, bc = 4, 2, 3
            r = contrastive_case(name, seed, b, n, bc=bc)
            if r["exc"] is None:
                c.mismatch("contrastive-cond-batch-real", real=r["real"], dist=name, batch=b, cond_batch=bc)
            perms = [completion([], b, i) for i in range(b)]
            add(f"contrastive {b} {bc} {n} {fs2b(r['prior'])} " + " ".join(ints(p) for p in perms) + " " + " ".join(fs2b(row) for row in r["lp"]),
                "contrastive-cond-batch-model", "NONE", dict(dist=name, batch=b, cond_batch=bc))
            c.case(("contrastive-cond-batch", name), True)
    # a deliberately invalid index table must be rejected by the model (the tie is not vacuous)
    add("cidx 3 2 1,1 0,2 0,1", "cidx-rejects-invalid", "ERR", {})
    add("cidx 3 2 0,1 0,2 0,1", "cidx-rejects-own-index", "ERR", {})
    # ---- 4. stick-the-landing gradient = path-derivative estimator (real code vs closed form)
    clear()
    for d in (0, 1, 2, 3):
        for n in (([1, 4] if d in (0, 2) else [3]) if quick else [1, 2, 4, 7]):
            seed = rng.randrange(1, 10 ** 6)
            bad, nontrivial = stl_gradient_check(seed, d, n)
            for what, g, w in bad:
                c.mismatch("stl-gradient", what=what, got=g, want=w, seed=seed, dim=d, num_samples=n)
            c.case(("stl-grad", seed, d, n), nontrivial)
            c.count("stl-gradient")
    # ---- 5. the reverse-mode model of ElboLoss (theorems (a)-(c)) vs jax.grad of the real loss, both settings
    clear()
    stl_lines, stl_reals = [], []
    for kind in STL_KINDS:
        for d in (1, 2, 3):
            ns = [rng.choice([1, 2]), rng.choice([3, 4, 5])] if quick else [1, 2, 3, 5, 8]
            for n in (ns[:1] if quick and d == 3 else ns):
                seed = rng.randrange(1, 10 ** 6)
                info = dict(flow=kind, dim=d, num_samples=n, seed=seed)
                try:
                    r = stl_real(kind, d, n, seed)
                except Exception as ex:  # noqa: BLE001
                    c.mismatch("stlgrad-real-raises", exc=type(ex).__name__, **info)
                    continue
                for law, g, w in stl_real_laws(r):
                    c.mismatch("stl-gradient-real-laws", law=law, got=g, want=w, **info)
                stl_lines.append(stl_model_line(r, d, n)); stl_reals.append((r, info))
                nontriv = bool(np.max(np.abs(r["g_score"])) > 1e-6)     # the score term is really there
                c.case(("stlgrad-model", kind, d, n, seed), nontriv,
                       sample={"op": f"stlgrad {r['layers']} d={d} n={n} ({kind})", "impl_grad_stl": r["g_stl"].tolist(),
                               "impl_grad_plain": r["g_pln"].tolist()} if (kind, d) == ("normal+T", 2) else None)
                c.count("stlgrad:" + kind)
        clear()
    for got, (r, info) in zip(vlib.run_model(stl_lines), stl_reals):
        stl_model_compare(c, got, r, info)
    # the model must reject an ill-formed op (the tie is not vacuous)
    add("stlgrad AX 1 1 - - - - 0", "stlgrad-rejects-bad-layer", "ERR", {})

    outs = vlib.run_model(lines)
    for line, got, (name, want, info) in zip(lines, outs, checks):
        if want == "ERR":
            if not got.startswith("ERR"):
                c.mismatch(name, op=line, model=got)
        elif want == "NONE":
            if got != "NONE":
                c.mismatch(name, op=line[:300], model=got, **info)
        elif isinstance(want, list):
            rows = [[int(v) for v in t.split(",")] if t != "-" else [] for t in got.split(" ")] if not got.startswith("ERR") else got
            if got == "" and all(len(rw) == 0 for rw in want):
                rows = want
            if rows != want:
                c.mismatch(name, op=line[:300], model=rows, impl=want, **info)
        else:
            ok = (not got.startswith("ERR")) and got != "NONE" and vlib.close(b2f(got), want, **TOL)
            if not ok:
                c.mismatch(name, op=line[:300], model=(b2f(got) if got.isdigit() else got), impl=want, **info)


# ------------------------------------------------------------------ the property's oracle on the real code
def oracle_mle(name, seed, b):
    real, exc, lps = mle_case(name, seed, b)
    if exc is not None:
        return dict(key=f"mle|{name}|{seed}|{b}", kind="mle", name=name, seed=seed, b=b, law="loss raises", exc=exc)
    want = -float(np.sum(np.asarray(lps))) / b
    if not vlib.close(real, want, rtol=1e-8, atol=1e-10):
        return dict(key=f"mle|{name}|{seed}|{b}", kind="mle", name=name, seed=seed, b=b,
                    law="MLE loss = -mean log_prob(x_i, c_i)", got=real, want=want)
    return None


def oracle_elbo(name, seed, n):
    r = elbo_case(name, seed, n)
    k = f"elbo|{name}|{seed}|{n}"
    base = dict(key=k, kind="elbo", name=name, seed=seed, n=n)
    if r["exc"] != (None, None):
        return dict(law="loss raises", exc=r["exc"], **base)
    want0 = float(np.mean(np.asarray(r["lp1"]) - np.asarray(r["tg1"])))
    want1 = float(np.mean(np.asarray(r["lp2"]) - np.asarray(r["tg2"])))
    if not vlib.close(r["real0"], want0, rtol=1e-8, atol=1e-10):
        return dict(law="ELBO = mean(log q(x) - target(x)) over sample_and_log_prob(key)", got=r["real0"], want=want0, **base)
    if not vlib.close(r["real1"], want1, rtol=1e-8, atol=1e-10):
        return dict(law="STL ELBO = mean(log_prob(sample(key)) - target)", got=r["real1"], want=want1, **base)
    if not vlib.close(r["real0"], r["real1"], rtol=1e-7, atol=1e-9):
        return dict(law="same value with or without stick_the_landing", got=r["real1"], want=r["real0"], **base)
    return None


def oracle_contrastive(name, seed, b, n):
    r = contrastive_case(name, seed, b, n)
    base = dict(key=f"contrastive|{name}|{seed}|{b}|{n}", kind="contrastive", name=name, seed=seed, b=b, n=n)
    if n >= b:
        return None if r["exc"] == "ValueError" else dict(law="batch <= n_contrastive must raise ValueError", got=r["real"], exc=r["exc"], **base)
    if r["exc"] is not None:
        return dict(law="loss raises", exc=r["exc"], **base)
    why = idx_valid(r["rows"], b, n)
    if why:
        return dict(law="each row: n distinct other rows", why=why, rows=r["rows"], **base)
    logit = r["lp"] - r["prior"][None, :]
    want = float(np.mean([softmax_xent(logit[i, i], [logit[i, j] for j in r["rows"][i]]) for i in range(b)]))
    if not vlib.close(r["real"], want, rtol=1e-8, atol=1e-10):
        return dict(law="contrastive loss = mean softmax cross-entropy", got=r["real"], want=want, rows=r["rows"], **base)
    if r["real"] < -1e-12:
        return dict(law="contrastive loss >= 0", got=r["real"], **base)
    return None


def oracle_stl(seed, d, n):
    bad, _ = stl_gradient_check(seed, d, n)
    if bad:
        what, g, w = bad[0]
        return dict(key=f"stlgrad|{seed}|{d}|{n}", kind="stlgrad", seed=seed, d=d, n=n,
                    law="STL gradient = path-derivative estimator (no score term): " + what, got=g, want=w)
    return None


def oracle_stl_decomp(kind, d, n, seed):
    try:
        bad = stl_real_laws(stl_real(kind, d, n, seed))
    except Exception as ex:  # noqa: BLE001
        bad = [("loss / gradient raises", type(ex).__name__, None)]
    if bad:
        law, g, w = bad[0]
        return dict(key=f"stldecomp|{kind}|{d}|{n}|{seed}", kind="stldecomp", flow=kind, d=d, n=n, seed=seed, law=law, got=g, want=w)
    return None


def search(hints, tier, rng):
    quick = tier == "quick"
    clear = (lambda: None) if quick else jax.clear_caches
    wit = []

    def push(w):
        if w is not None:
            wit.append(w)
        return len(wit) >= 5

    for d in (0, 2):
        for n in (1, 5):
            if push(oracle_stl(rng.randrange(1, 10 ** 6), d, n)):
                return wit
    for kind in (["normal+T", "ATA"] if quick else STL_KINDS):
        clear()
        for d, n in ([(1, 1), (2, 3)] if quick else [(1, 1), (2, 3), (3, 5)]):
            if push(oracle_stl_decomp(kind, d, n, rng.randrange(1, 10 ** 6))):
                return wit
    for name in (["lognormal", "normal", "wrapped", "maf", "coupling_c", "wrapped_c"] if quick else ["lognormal"] + UNCOND + COND):
        clear()
        seed = rng.randrange(1, 10 ** 6)
        for b in ([1, 3, 8] if quick else [1, 2, 3, 5, 8]):
            if push(oracle_mle(name, seed, b)):
                return wit
    for name in (["normal", "wrapped", "coupling"] if quick else UNCOND):
        clear()
        seed = rng.randrange(1, 10 ** 6)
        for n in ([1, 3] if quick else [1, 2, 3, 6]):
            if push(oracle_elbo(name, seed, n)):
                return wit
    for name in (["normal", "wrapped_c", "maf_c"] if quick else ["normal", "normal_scalar", "wrapped", "wrapped_c", "coupling_c", "maf_c"]):
        clear()
        seed = rng.randrange(1, 10 ** 6)
        combos = [(2, 1), (5, 2), (5, 4), (3, 3)] if quick else [(b, n) for b in range(2, 9) for n in range(1, b + 1)]
        for b, n in combos:
            if push(oracle_contrastive(name, seed, b, n)):
                return wit
    return wit


def replay(w):
    k = w.get("kind")
    if k == "mle":
        return oracle_mle(w["name"], w["seed"], w["b"]) is not None
    if k == "elbo":
        return oracle_elbo(w["name"], w["seed"], w["n"]) is not None
    if k == "contrastive":
        return oracle_contrastive(w["name"], w["seed"], w["b"], w["n"]) is not None
    if k == "stlgrad":
        return oracle_stl(w["seed"], w["d"], w["n"]) is not None
    if k == "stldecomp":
        return oracle_stl_decomp(w["flow"], w["d"], w["n"], w["seed"]) is not None
    return bool(search({}, "quick", random.Random(0)))
