"""C14 — methods are pure and transparent to jit, vmap and serialisation.

Tie: the control-flow skeleton of EVERY method in scope and the dataclass field table are REGENERATED from
/repo (Gen/Trace.lean, tools/py2lean/tracegen.py); Lean decides the staging discipline on that table
(`C14.all_methods_traceSafe`, by kernel evaluation — the table is the finite domain) and proves that a
checked skeleton is noninterferent (`C14.every_method_noninterferent`).  This harness validates the model
against JAX's real tracer: for every zoo object and method the model's verdict ("trace-safe") is compared
with what actually happens under `eqx.filter_jit`, `jax.vmap` and leaf (de)serialisation, and the field
table is compared with the live dataclass fields.  What is NOT proved: JAX's tracer, XLA and Equinox's
serialiser themselves (assumptions A1/A2 of the theorem are the interface).
"""
from __future__ import annotations

import dataclasses
import io
import math

import equinox as eqx
import jax
import jax.numpy as jnp
import jax.random as jr
import numpy as np

import flowjax.bijections as B
import flowjax.distributions as D
from flowjax import flows
from flowjax.wrappers import AbstractUnwrappable

import fj
import vlib
from props import c13

ID = "C14"
GEN = ["Trace"]
RULE = ("every (zoo object, public method): model verdict trace-safe vs eqx.filter_jit(method)==eager (bitwise or 1e-12), jax.vmap over inputs/conditions == Python loop, "
        "two calls equal, pytree flatten/unflatten and eqx.tree_serialise_leaves round trip into a freshly built model give identical results; distributions: "
        "log_prob/sample/sample_and_log_prob likewise; field table kinds vs live dataclass fields; non-trivial = object with parameters and a combinator or network; "
        "distinct = distinct (object, method, check)")
TRUSTED = [
    "Lean 4.33 kernel; axioms propext, Classical.choice, Quot.sound; `decide +kernel` over the regenerated table (the table is the whole finite domain)",
    "tools/py2lean/tracegen.py: abstraction of each Python expression to the variables it reads / aspect-only flags / array-library flag (trusted translator, validated here against the real tracer's behaviour)",
    "Semantic assumptions A1/A2 of C14.noninterference (a static expression depends only on static data; shapes/dtypes of results depend only on static data) — the contract of JAX's abstract evaluation",
    "JAX's tracer, XLA compilation, jax.vmap batching rules and Equinox's serialiser are NOT modelled: compared by this harness only",
]
ASSUMPTIONS = ["constructors (__init__, __check_init__) and three construction-time helpers are outside the traced-method table by design (argument validation runs eagerly)",
               "callee control flow is covered compositionally (every callee in flowjax is itself a row of the table); library callees (jnp/lax/eqx) are trusted"]


def same(a, b, tol=1e-12):
    la, lb = jax.tree_util.tree_leaves(a), jax.tree_util.tree_leaves(b)
    if len(la) != len(lb):
        return False
    for u, v in zip(la, lb):
        u, v = np.asarray(u), np.asarray(v)
        if u.shape != v.shape:
            return False
        if tol == 0.0 and u.dtype != v.dtype:
            return False  # "bit-identical" includes the dtype (a weakly typed leaf that loses its weak flag changes the promotion)
        if not np.allclose(u, v, rtol=tol, atol=tol, equal_nan=True):
            return False
    return True


def rebuild_like(obj):
    """a 'freshly constructed model' with the same structure: zero every inexact leaf"""
    return jax.tree_util.tree_map(lambda l: jnp.zeros_like(l) if eqx.is_inexact_array(l) else l, obj)


def serialise_roundtrip(obj):
    buf = io.BytesIO()
    eqx.tree_serialise_leaves(buf, obj)
    buf.seek(0)
    return eqx.tree_deserialise_leaves(buf, rebuild_like(obj))


def method_checks(name, obj, rng, want_safe=None):
    """returns list of (check name, ok, detail)"""
    out = []
    shape, cs = tuple(obj.shape), obj.cond_shape
    x = jnp.asarray(np.asarray([rng.uniform(-0.9, 0.9) for _ in range(int(np.prod(shape)) or 1)]).reshape(shape))
    cond = jnp.asarray(np.asarray([rng.uniform(-1, 1) for _ in range(int(np.prod(cs)) or 1)]).reshape(cs)) if cs is not None else None
    for m in fj.METHODS:
        meth = fj.PYMETH[m]
        try:
            eager = getattr(obj, meth)(x, cond)
        except NotImplementedError:
            continue
        except Exception as ex:
            out.append((f"{meth}:eager", False, repr(ex)[:150]))
            continue
        # jit of the bound method
        try:
            jitted = eqx.filter_jit(getattr(obj, meth))(x, cond)
            out.append((f"{meth}:jit==eager", same(jitted, eager, 1e-9), ""))
        except Exception as ex:
            out.append((f"{meth}:jit==eager", False, type(ex).__name__ + ": " + str(ex)[:120]))
        # jit with the OBJECT as a traced argument (how a training step sees a model: its array leaves are tracers, the rest static)
        try:
            jitted = eqx.filter_jit(lambda o, a, c, meth=meth: getattr(o, meth)(a, c))(obj, x, cond)
            out.append((f"{meth}:jit(object as argument)==eager", same(jitted, eager, 1e-9), ""))
        except Exception as ex:
            out.append((f"{meth}:jit(object as argument)==eager", False, type(ex).__name__ + ": " + str(ex)[:120]))
        # repeated call
        out.append((f"{meth}:repeat", same(getattr(obj, meth)(x, cond), eager, 0.0), ""))
        # vmap over inputs (and conditions) == loop
        try:
            xs = jnp.stack([x, x * 0.5, -x])
            if cond is not None:
                cds = jnp.stack([cond, cond * 0.5, cond + 0.1])
                vm = jax.vmap(lambda a, c: getattr(obj, meth)(a, c))(xs, cds)
                loop = [getattr(obj, meth)(xs[i], cds[i]) for i in range(3)]
            else:
                vm = jax.vmap(lambda a: getattr(obj, meth)(a))(xs)
                loop = [getattr(obj, meth)(xs[i]) for i in range(3)]
            stacked = jax.tree_util.tree_map(lambda *ls: jnp.stack(ls), *loop)
            out.append((f"{meth}:vmap==loop", same(vm, stacked, 1e-9), ""))
        except Exception as ex:
            out.append((f"{meth}:vmap==loop", False, type(ex).__name__ + ": " + str(ex)[:120]))
        # flatten / unflatten and serialisation
        try:
            leaves, td = jax.tree_util.tree_flatten(obj)
            o2 = jax.tree_util.tree_unflatten(td, leaves)
            out.append((f"{meth}:flatten", same(getattr(o2, meth)(x, cond), eager, 0.0), ""))
            o3 = serialise_roundtrip(obj)
            out.append((f"{meth}:serialise", same(getattr(o3, meth)(x, cond), eager, 0.0), ""))
        except Exception as ex:
            out.append((f"{meth}:serialise", False, type(ex).__name__ + ": " + str(ex)[:120]))
    return out


def dist_checks(name, d, rng):
    out = []
    key = jr.PRNGKey(rng.randrange(2 ** 31))
    cs = d.cond_shape
    cond = jnp.asarray(np.asarray([rng.uniform(-1, 1) for _ in range(int(np.prod(cs)) or 1)]).reshape(cs)) if cs is not None else None
    try:
        s = d.sample(key, (3,), condition=cond)
        lp = d.log_prob(s, cond)
        out.append(("sample:jit==eager", same(eqx.filter_jit(d.sample)(key, (3,), condition=cond), s, 1e-9), ""))
        out.append(("log_prob:jit==eager", same(eqx.filter_jit(d.log_prob)(s, cond), lp, 1e-9), ""))
        out.append(("sample:repeat", same(d.sample(key, (3,), condition=cond), s, 0.0), ""))
        s2, lp2 = d.sample_and_log_prob(key, (3,), condition=cond)
        out.append(("sample_and_log_prob:jit==eager", same(eqx.filter_jit(d.sample_and_log_prob)(key, (3,), condition=cond), (s2, lp2), 1e-9), ""))
        vm = jax.vmap(lambda p: d.log_prob(p, cond))(s)
        out.append(("log_prob:vmap==loop", same(vm, jnp.stack([d.log_prob(s[i], cond) for i in range(3)]), 1e-9), ""))
        d3 = serialise_roundtrip(d)
        out.append(("log_prob:serialise", same(d3.log_prob(s, cond), lp, 0.0), ""))
        out.append(("sample:serialise", same(d3.sample(key, (3,), condition=cond), s, 0.0), ""))
    except Exception as ex:
        out.append(("dist:exception", False, type(ex).__name__ + ": " + str(ex)[:150]))
    return out


def keyed_builders():
    """(name, mk(key) -> bijection, cond_shape): constructors whose parameters depend on the key / on user modules WITH array parameters"""
    import flowjax.bijections as B
    from flowjax import flows
    from flowjax.distributions import StandardNormal

    def lin(k, i, o):
        return eqx.nn.Linear(i, o, key=k)

    yield "AdditiveCondition(eqx.nn.Linear)", (lambda k: B.AdditiveCondition(lin(k, 2, 3), (3,), (2,))), (2,)
    yield "AdditiveCondition(eqx.nn.MLP)", (lambda k: B.AdditiveCondition(eqx.nn.MLP(2, 3, 4, 1, key=k), (3,), (2,))), (2,)
    yield "EmbedCondition(Linear)", (lambda k: B.EmbedCondition(B.AdditiveCondition(lin(k, 2, 3), (3,), (2,)), lin(jr.fold_in(k, 1), 4, 2), (4,))), (4,)
    def tri(k, lower):
        n = 0.5 * jr.normal(jr.fold_in(k, 1), (3, 3))
        arr = n - jnp.diag(jnp.diag(n)) + jnp.diag(jnp.exp(0.3 * jr.normal(jr.fold_in(k, 2), (3,))))
        return B.TriangularAffine(jr.normal(k, (3,)), arr, lower=lower)

    # constructors whose ARRAY ARGUMENTS depend on the key: everything they compute from the arguments must end up in pytree leaves
    yield "TriangularAffine(lower)", (lambda k: tri(k, True)), None
    yield "TriangularAffine(upper)", (lambda k: tri(k, False)), None
    yield "Affine(arrays)", (lambda k: B.Affine(jr.normal(k, (3,)), jnp.exp(0.3 * jr.normal(jr.fold_in(k, 1), (3,))))), None
    # parameters given as PYTHON scalars (the constructors must turn them into ordinary, strongly typed float leaves)
    yield "Affine(python floats)", (lambda k: B.Affine(0.5 + float(jr.uniform(k)), 2.5)), None
    yield "Loc(python float)", (lambda k: B.Loc(0.5 + float(jr.uniform(k)))), None
    yield "Scale(python float)", (lambda k: B.Scale(1.5 + float(jr.uniform(k)))), None
    yield "Coupling", (lambda k: B.Coupling(k, transformer=B.Affine(), untransformed_dim=1, dim=3, cond_dim=2, nn_width=4, nn_depth=1)), (2,)
    yield "MaskedAutoregressive", (lambda k: B.MaskedAutoregressive(k, transformer=B.Affine(), dim=3, cond_dim=2, nn_width=4, nn_depth=1)), (2,)
    yield "Planar", (lambda k: B.Planar(k, dim=3, cond_dim=2, negative_slope=0.1, width_size=4, depth=1)), (2,)
    yield "Planar(unconditional)", (lambda k: B.Planar(k, dim=3)), None
    yield "BlockAutoregressiveNetwork", (lambda k: B.BlockAutoregressiveNetwork(k, dim=2, cond_dim=2, depth=1, block_dim=2)), (2,)
    yield "coupling_flow", (lambda k: flows.coupling_flow(k, base_dist=StandardNormal((3,)), cond_dim=2, flow_layers=2, nn_width=4).bijection), (2,)
    yield "masked_autoregressive_flow", (lambda k: flows.masked_autoregressive_flow(k, base_dist=StandardNormal((3,)), flow_layers=2, nn_width=4).bijection), None
    yield "planar_flow", (lambda k: flows.planar_flow(k, base_dist=StandardNormal((3,)), flow_layers=2, negative_slope=0.1).bijection), None
    yield "planar_flow(tanh, invert=False)", (lambda k: flows.planar_flow(k, base_dist=StandardNormal((3,)), flow_layers=2, invert=False).bijection), None


def perturb(obj, key):
    """move every inexact leaf away from its initial value (final conditioner layers are zero-initialised)"""
    leaves, td = jax.tree_util.tree_flatten(obj)
    ks = jr.split(key, len(leaves))
    return jax.tree_util.tree_unflatten(td, [l + 0.3 * jr.normal(k, l.shape, l.dtype) if eqx.is_inexact_array(l) else l for l, k in zip(leaves, ks)])


def fresh_model_checks(rng):
    """leaf serialisation of a trained model A, restored into a FRESHLY CONSTRUCTED model B (different key): B must behave bit-identically to A
    -> list of (name, check, ok, detail, nontrivial)"""
    out = []
    for name, mk, cs in keyed_builders():
        try:
            s1, s2 = rng.randrange(2 ** 30), rng.randrange(2 ** 30)
            a = perturb(mk(jr.PRNGKey(s1)), jr.PRNGKey(s1 + 1))
            b = mk(jr.PRNGKey(s2))
            x = jr.normal(jr.PRNGKey(s1 + 2), a.shape)
            cond = None if cs is None else jr.normal(jr.PRNGKey(s1 + 3), cs)
            buf = io.BytesIO()
            eqx.tree_serialise_leaves(buf, a)
            buf.seek(0)
            r = eqx.tree_deserialise_leaves(buf, b)
            ya, yb, yr = (o.transform_and_log_det(x, cond) for o in (a, b, r))
            out.append((name, "fresh:transform_and_log_det", same(yr, ya, 0.0), "", not same(yb, ya, 0.0)))
            fa, fr = eqx.filter_jit(a.transform_and_log_det)(x, cond), eqx.filter_jit(r.transform_and_log_det)(x, cond)
            out.append((name, "fresh:jit", same(fr, fa, 0.0), "", True))
            try:
                ia = a.inverse_and_log_det(x, cond)
            except NotImplementedError:
                continue
            out.append((name, "fresh:inverse_and_log_det", same(r.inverse_and_log_det(x, cond), ia, 0.0), "", True))
            # narrower input dtype than the parameters: results (values AND dtypes) must not depend on having been through the serialiser.
            # Uses the model AS CONSTRUCTED (a perturbation would re-type every leaf); objects that do not accept float32 input under x64
            # at all (a Scan whose carry starts as a Python 0) are skipped.
            try:
                a0 = mk(jr.PRNGKey(s1))
                x32 = x.astype(jnp.float32)
                c32 = None if cond is None else cond.astype(jnp.float32)
                want32 = a0.transform_and_log_det(x32, c32)
            except Exception:  # noqa: BLE001
                want32 = None
            if want32 is not None:
                buf0 = io.BytesIO()
                eqx.tree_serialise_leaves(buf0, a0)
                buf0.seek(0)
                r0 = eqx.tree_deserialise_leaves(buf0, b)
                out.append((name, "fresh:float32-input", same(r0.transform_and_log_det(x32, c32), want32, 0.0), "", True))
        except Exception as ex:  # a constructor or the serialiser raising is itself a failure of the round trip
            out.append((name, "fresh:exception", False, type(ex).__name__ + ": " + str(ex)[:160], True))
    return out


JIT_FIRST_SCRIPT = r"""
import json, sys
import jax
jax.config.update("jax_enable_x64", True)
import equinox as eqx, jax.numpy as jnp, numpy as np, random
sys.path.insert(0, sys.argv[1])
import fj
from props import c13
from props.c14 import same
rng = random.Random(int(sys.argv[2]))
out = []
zoo = c13.zoo()
for name in zoo:
    obj = zoo[name]()
    shape, cs = tuple(obj.shape), obj.cond_shape
    x = jnp.asarray(np.asarray([rng.uniform(-0.9, 0.9) for _ in range(int(np.prod(shape)) or 1)]).reshape(shape))
    cond = jnp.asarray(np.asarray([rng.uniform(-1, 1) for _ in range(int(np.prod(cs)) or 1)]).reshape(cs)) if cs is not None else None
    for m in fj.METHODS:
        meth = fj.PYMETH[m]
        try:
            j1 = eqx.filter_jit(getattr(obj, meth))(x, cond)        # the FIRST call of this method in this process is traced
        except NotImplementedError:
            continue
        except Exception as ex:
            out.append([name, meth + ":jit-first", False, type(ex).__name__ + ": " + str(ex)[:100]]); continue
        try:
            e = getattr(obj, meth)(x, cond)                          # then eagerly
            j2 = eqx.filter_jit(lambda o, a, c: getattr(o, meth)(a, c))(obj, x, cond)   # then a fresh trace
            out.append([name, meth + ":jit-first-then-eager", bool(same(j1, e, 1e-9) and same(j2, e, 1e-9)), ""])
        except Exception as ex:
            out.append([name, meth + ":jit-first-then-eager", False, type(ex).__name__ + ": " + str(ex)[:100]])
print("RESULT" + json.dumps(out))
"""


def jit_first_checks(seed):
    """A FRESH interpreter in which the first call of every method is a traced one (then eager, then a new trace): module-level caches
    or other hidden state written during tracing would leak tracers / stale values into later calls.  -> [(object, check, ok, detail)]"""
    import subprocess, sys, os, json
    here = os.path.dirname(os.path.dirname(os.path.abspath(__file__)))
    env = dict(os.environ, JAX_PLATFORMS="cpu")
    r = subprocess.run([sys.executable, "-W", "ignore", "-c", JIT_FIRST_SCRIPT, here, str(seed)], capture_output=True, text=True, env=env, timeout=1500)
    for line in r.stdout.splitlines():
        if line.startswith("RESULT"):
            return [tuple(t) for t in json.loads(line[6:])]
    return [("<subprocess>", "jit-first:harness", False, (r.stderr or r.stdout)[-300:])]


def extra_dists(rng):
    k = jr.PRNGKey(3)
    base = D.StandardNormal((3,))
    yield "coupling_flow", flows.coupling_flow(k, base_dist=base, flow_layers=2, nn_width=6)
    yield "coupling_flow|cond", flows.coupling_flow(k, base_dist=base, cond_dim=2, flow_layers=2, nn_width=6)
    yield "maf", flows.masked_autoregressive_flow(k, base_dist=base, flow_layers=2, nn_width=6)
    yield "maf_spline|noinvert", flows.masked_autoregressive_flow(k, base_dist=base, flow_layers=1, nn_width=6, invert=False, transformer=B.RationalQuadraticSpline(knots=3, interval=2))
    yield "planar", flows.planar_flow(k, base_dist=base, flow_layers=2, negative_slope=0.1)
    yield "Normal(vec)", D.Normal(jnp.arange(3.0), jnp.ones(3) * 2)
    yield "StudentT", D.StudentT(jnp.asarray([3.0, 5.0]))
    yield "LogNormal", D.LogNormal(0.3, 0.7)
    yield "VmapMixture", D.VmapMixture(eqx.filter_vmap(D.Normal)(jnp.arange(3.0)), jnp.asarray([1.0, 2.0, 3.0]))


def live_field_kind(v):
    if isinstance(v, (jax.Array, np.ndarray)):
        return "array"
    if isinstance(v, AbstractUnwrappable):
        return "array"
    if isinstance(v, eqx.Module) or callable(v):
        return "module"
    if isinstance(v, (tuple, list)) and v and all(isinstance(e, (eqx.Module,)) or (isinstance(e, tuple) and any(isinstance(t, eqx.Module) for t in e)) for e in v):
        return "module"
    return "static"


def corr(c, tier, rng):
    zoo = c13.zoo()
    lines, wants, infos = [], [], []
    names = list(zoo)
    if tier == "quick":
        # one object of EVERY class first, then random others
        rng.shuffle(names)
        seen, first, rest = set(), [], []
        for n in names:
            cls_n = type(zoo[n]()).__name__
            (rest if cls_n in seen else first).append(n)
            seen.add(cls_n)
        names = (first + rest)[:max(34, len(first))]
    lines.append("tracetable")
    wants.append(None)
    infos.append({})
    for name in names:
        obj = zoo[name]()
        cls = type(obj).__name__
        checks = method_checks(name, obj, rng)
        real_ok = {}
        for chk, ok, detail in checks:
            meth = chk.split(":")[0]
            real_ok.setdefault(meth, []).append((chk, ok, detail))
        for meth, res in real_ok.items():
            lines.append(f"tracesafe {cls} {meth}")
            wants.append(("method", res))
            infos.append(dict(object=name, cls=cls, method=meth))
            c.case((name, meth), cls not in ("Exp", "Tanh", "SoftPlus", "Identity", "Flip"), sample={"object": name, "method": meth, "checks": [r[0] + ("=ok" if r[1] else "=FAIL") for r in res]} if len(c.samples) < 6 else None)
            c.count("bijection-method")
        # field table vs the live dataclass
        if dataclasses.is_dataclass(obj):
            for f in dataclasses.fields(obj):
                try:
                    v = getattr(obj, f.name)
                except Exception:
                    continue
                lines.append(f"fieldkind {cls} {f.name}")
                wants.append(("field", live_field_kind(v), bool(f.metadata.get("static", False)), v is None))
                infos.append(dict(object=name, cls=cls, field=f.name))
                c.case((cls, "field", f.name), True)
                c.count("field")
    dz = {k: v for k, v in c13.dist_zoo().items()}
    for name, mk in list(dz.items()) + [(n, (lambda d=d: d)) for n, d in extra_dists(rng)]:
        d = mk()
        res = dist_checks(name, d, rng)
        for chk, ok, detail in res:
            c.case((name, chk), True)
            c.count("distribution-check")
            if not ok:
                c.mismatch("real-tracer-transparency", object=name, check=chk, detail=detail)
        for meth in ("log_prob", "sample", "sample_and_log_prob"):
            lines.append(f"tracesafe AbstractDistribution {meth}")
            wants.append(("method", [(f"{meth}:{r[0]}", r[1], r[2]) for r in res if r[0].startswith(meth)]))
            infos.append(dict(object=name, cls="AbstractDistribution", method=meth))
    for name, chk, ok, detail in jit_first_checks(rng.randrange(2 ** 30)):
        c.case((name, chk), True)
        c.count("jit-first-in-fresh-process")
        if not ok:
            c.mismatch("real-tracer-transparency", object=name, check=chk, detail=detail)
    for name, chk, ok, detail, nontrivial in fresh_model_checks(rng):
        c.case((name, chk), nontrivial)
        c.count("fresh-model-serialisation")
        if not ok:
            c.mismatch("serialise-into-fresh-model", object=name, check=chk, detail=detail)
    outs = vlib.run_model(lines)
    for line, got, want, info in zip(lines, outs, wants, infos):
        if want is None:
            n, bad = got.split(" ")
            c.notes.append(f"generated table: {n} methods, {bad} not trace-safe")
            if bad != "0":
                c.mismatch("table-has-unsafe-methods", model=got)
            continue
        if want[0] == "method":
            model_safe = got != "NONE" and all(t == "1" for t in got.split(" "))
            real_all_ok = all(ok for _, ok, _ in want[1])
            if got == "NONE":
                c.mismatch("method-missing-from-table", op=line, **info)
            elif model_safe != real_all_ok:
                c.mismatch("model-verdict-vs-real-tracer", op=line, model_safe=model_safe,
                           real=[(ch, d) for ch, ok, d in want[1] if not ok][:4], **info)
        else:
            _, live, marked, is_none = want
            if got == "NONE":
                # properties / inherited fields are not class-body annotations; only flag declared fields
                continue
            kind, mk = got.split(" ")
            if (mk == "1") != marked:
                c.mismatch("field-static-marker", op=line, model=got, live_marked=marked, **info)
            if marked and live == "array":
                c.mismatch("array-in-static-field", op=line, **info)
            if not is_none and kind == "static" and live == "array":
                c.mismatch("field-kind", op=line, model=kind, live=live, **info)


def search(hints, tier, rng):
    """the property's own oracle on the real code only: jit / vmap / repeat / flatten / serialise transparency"""
    wit = []
    sd = rng.randrange(2 ** 30)
    for name, chk, ok, detail in jit_first_checks(sd):
        if not ok:
            wit.append(dict(key=f"{name}|{chk}", object=name, check=chk, detail=detail, kind="jit_first", seed=sd))
    if len(wit) >= 5:
        return wit[:5]
    for name, chk, ok, detail, _ in fresh_model_checks(rng):
        if not ok:
            wit.append(dict(key=f"{name}|{chk}", object=name, check=chk, detail=detail, kind="fresh"))
    zoo = c13.zoo()
    for name in zoo:
        obj = zoo[name]()
        for chk, ok, detail in method_checks(name, obj, rng):
            if not ok:
                wit.append(dict(key=f"{name}|{chk}", object=name, check=chk, detail=detail, kind="bijection"))
        if len(wit) >= 5:
            return wit[:5]
    for name, mk in list(c13.dist_zoo().items()) + [(n, (lambda d=d: d)) for n, d in extra_dists(rng)]:
        for chk, ok, detail in dist_checks(name, mk(), rng):
            if not ok:
                wit.append(dict(key=f"{name}|{chk}", object=name, check=chk, detail=detail, kind="distribution"))
        if len(wit) >= 5:
            break
    return wit[:5]


def replay(w):
    import random
    rng = random.Random(0)
    if w.get("kind") == "bijection":
        obj = c13.zoo()[w["object"]]()
        return any(chk == w["check"] and not ok for chk, ok, _ in method_checks(w["object"], obj, rng))
    if w.get("kind") == "jit_first":
        return any(n == w["object"] and chk == w["check"] and not ok for n, chk, ok, _ in jit_first_checks(w.get("seed", 0)))
    if w.get("kind") == "fresh":
        return any(n == w["object"] and chk == w["check"] and not ok for n, chk, ok, _, _ in fresh_model_checks(rng))
    return bool(search({}, "quick", rng))
