"""Correspondence of the REGENERATED `merge_transforms` / `shape` / `cond_shape` of `AbstractTransformed` and
`Chain.__getitem__ / __len__ / __iter__ / merge_chains` (Gen/MergeGen.lean; driver ops `mgmt`, `mgch`) with the real objects.

Objects: leaves are scalar bijection trees that do not commute (Affine with both signs of scale, Exp, Invert(Affine), Invert(Exp),
Invert(Chain(...)), AdditiveCondition with cond_shape ()), chains nest to depth 3; distributions nest 1-4 levels over StandardNormal
or a conditional base with the scalar condition shape ().  Structure is compared exactly (class of the merged base / bijection,
number of members, presence of a nested Chain, shape, cond_shape, exception class), values through the methods, and every member
of a merged / sliced chain by evaluation at a point.
"""
from __future__ import annotations

import math

import jax.numpy as jnp
import jax.random as jr
from jax.scipy import stats as jstats

import flowjax.bijections as B
from flowjax.distributions import AbstractDistribution, AbstractTransformed, StandardNormal, Transformed

import fj
import vlib
from vlib import f2b, b2f
from props import c01

TOL = dict(rtol=1e-8, atol=1e-9)


class CondNormal(AbstractDistribution):
    """a NON-transformed conditional base with the scalar condition shape `()`: N(condition, 1)"""
    shape: tuple = ()
    cond_shape: tuple = ()

    def _log_prob(self, x, condition=None):
        return jstats.norm.logpdf(x - condition)

    def _sample(self, key, condition=None):
        return jr.normal(key, ()) + condition


def rand_leaf(rng):
    """(tokens after `LF <cs>`, real object, conditional?) — never a top-level Chain"""
    k = rng.choice(["A", "A", "E", "IA", "IE", "IC", "AC", "T"])
    if k == "A":
        loc, sc = rng.uniform(-2, 2), rng.choice([-1, 1]) * math.exp(rng.uniform(-1, 1))
        return ["A", f2b(loc), f2b(sc)], fj.affine(loc, sc), False
    if k == "E":
        return ["E"], B.Exp(()), False
    if k == "IA":
        loc, sc = rng.uniform(-2, 2), rng.choice([-1, 1]) * math.exp(rng.uniform(-1, 1))
        return ["I", "A", f2b(loc), f2b(sc)], B.Invert(fj.affine(loc, sc)), False
    if k == "IE":
        return ["I", "E"], B.Invert(B.Exp(())), False
    if k == "AC":
        w, b = rng.uniform(-2, 2), rng.uniform(-1, 1)
        return ["AC", f2b(w), f2b(b)], B.AdditiveCondition(lambda c, w=w, b=b: jnp.tanh(w * c + b), (), ()), True
    if k == "T":
        toks, obj, _, _, _ = c01.rand_tree(rng, 1)
        if toks[0] == "C":
            return ["I"] + toks, B.Invert(obj), False
        return toks, obj, False
    loc, sc = rng.uniform(-2, 2), rng.choice([-1, 1]) * math.exp(rng.uniform(-1, 1))
    return ["I", "C", "2", "A", f2b(loc), f2b(sc), "E"], B.Invert(B.Chain([fj.affine(loc, sc), B.Exp(())])), False


def rand_obj(rng, depth):
    """(tokens, real object, conditional?, description)"""
    if depth == 0 or rng.random() < 0.4:
        toks, obj, cond = rand_leaf(rng)
        return ["LF", "S" if cond else "N"] + [str(t) for t in toks], obj, cond, toks[0]
    n = rng.choice([1, 2, 2, 3])
    subs = [rand_obj(rng, depth - 1) for _ in range(n)]
    toks = ["C", str(n)]
    for s in subs:
        toks += s[0]
    return toks, B.Chain([s[1] for s in subs]), any(s[2] for s in subs), "C[" + ",".join(s[3] for s in subs) + "]"


def shape_str(s):
    return ",".join(str(int(v)) for v in s) if len(s) else "-"


def opt_shape_str(s):
    return "N" if s is None else "S" + shape_str(s)


def exc(ex):
    return "EXC:" + type(ex).__name__


class Batch:
    def __init__(self, c, name):
        self.c, self.name = c, name
        self.lines, self.wants, self.infos = [], [], []

    def add(self, line, want, **info):
        """want: list of str (exact tokens) / float (numeric tokens), or an `EXC:…` string"""
        self.lines.append(line)
        self.wants.append(want)
        self.infos.append(info)

    def run(self):
        outs = vlib.run_model(self.lines)
        for line, got, want, info in zip(self.lines, outs, self.wants, self.infos):
            ok = True
            if isinstance(want, str):
                ok = got == want
            else:
                toks = got.split(" ")
                if got.startswith("ERR") or got.startswith("EXC") or len(toks) != len(want):
                    ok = False
                else:
                    for t, w in zip(toks, want):
                        if isinstance(w, str):
                            ok = ok and t == w
                        else:
                            try:
                                ok = ok and vlib.close(b2f(int(t)), w, **TOL)
                            except ValueError:
                                ok = False
            if not ok:
                self.c.mismatch(self.name, op=line[:400], model=got, impl=[w if isinstance(w, str) else float(w) for w in want] if not isinstance(want, str) else want, **info)


def bit(b):
    return "1" if b else "0"


def call4(obj, m, x, cond):
    try:
        return fj.call(obj, m, x, cond)
    except Exception as ex:
        return exc(ex)


# ------------------------------------------------------------------ C03: merge_transforms / shape / cond_shape
def corr_transformed(c, tier, rng, n=None):
    n = n if n is not None else (40 if tier == "quick" else 300)
    bt = Batch(c, "generated-merge_transforms-vs-impl")
    for i in range(n):
        depth = rng.choice([1, 2, 2, 3, 3, 4])
        base_kind = rng.choice(["N", "N", "CN"])
        objs = [rand_obj(rng, rng.choice([0, 0, 1, 2])) for _ in range(depth)]
        head = f"mgmt {base_kind} {depth} " + " ".join(" ".join(o[0]) for o in objs)
        desc = base_kind + ":" + "|".join(o[3] for o in objs)
        conditional = base_kind == "CN" or any(o[2] for o in objs)
        d = StandardNormal() if base_kind == "N" else CondNormal()
        try:
            for o in objs:
                d = Transformed(d, o[1])
        except Exception as ex:
            bt.add(head + " struct", exc(ex), desc=desc)
            continue
        cond = rng.uniform(-1.5, 1.5)
        cj = jnp.asarray(cond) if conditional else None
        # ---- the properties
        bt.add(head + " cs", [opt_shape_str(d.cond_shape)], desc=desc, what="cond_shape")
        bt.add(head + " shape", [shape_str(d.shape)], desc=desc, what="shape")
        c.case((desc, "cond_shape"), conditional)
        c.count("cond_shape:" + opt_shape_str(d.cond_shape) + ":base=" + base_kind)
        # ---- merge_transforms: structure
        try:
            m = d.merge_transforms()
        except Exception as ex:
            bt.add(head + " struct", exc(ex), desc=desc)
            c.count("merge_transforms:raises")
            continue
        isch = isinstance(m.bijection, B.Chain)
        members = list(m.bijection.bijections) if isch else []
        bt.add(head + " struct", [bit(isinstance(m.base_dist, AbstractTransformed)), bit(isch), str(len(members)),
                                  bit(any(isinstance(b, B.Chain) for b in members)), shape_str(m.shape), opt_shape_str(m.cond_shape)],
               desc=desc, what="struct")
        c.case((desc, "struct"), depth >= 2)
        c.count(f"depth{depth}:" + ("cond" if conditional else "uncond"))
        key = jr.PRNGKey(rng.randrange(2 ** 31))
        z = float(StandardNormal()._sample(key))
        xs = [rng.uniform(-2, 2), rng.choice([0.5, 1.0, 2.0])]
        for x in xs:
            for form, dist in (("n", d), ("", m)):
                try:
                    want = [float(dist._log_prob(jnp.asarray(x), cj))]
                except Exception as ex:
                    want = exc(ex)
                bt.add(f"{head} {form}lp {f2b(x)} {f2b(cond)}", want, desc=desc, what=form + "lp", x=x, cond=cond)
                c.case((desc, form + "lp", x, cond), depth >= 2)
        for form, dist in (("n", d), ("", m)):
            # the model's key is the base sample: the conditional base adds the condition in its `_sample`
            try:
                s = float(dist._sample(key, cj))
                s2, lp2 = dist._sample_and_log_prob(key, cj)
                bt.add(f"{head} {form}s {f2b(z)} {f2b(cond)}", [s], desc=desc, what=form + "s", z=z, cond=cond)
                bt.add(f"{head} {form}slp {f2b(z)} {f2b(cond)}", [float(s2), float(lp2)], desc=desc, what=form + "slp", z=z, cond=cond)
                c.case((desc, form + "s", z, cond), depth >= 2)
            except Exception as ex:
                bt.add(f"{head} {form}s {f2b(z)} {f2b(cond)}", exc(ex), desc=desc)
        # ---- every member of the merged chain, by evaluation (order and identity of the collected bijections)
        x0 = rng.uniform(0.2, 1.5)
        for j, b in enumerate(members if isch else [m.bijection]):
            want = call4(b, "t", x0, cj)
            bt.add(f"{head} leaf {j} {f2b(x0)} {f2b(cond)}", want, desc=desc, what="member", j=j, x=x0)
            c.case((desc, "member", j), True)
    # ---- the scalar condition shape, exhaustively over (base, bijection) in {None, ()}^2 and two levels
    aff = lambda: (["LF", "N", "A", str(f2b(0.5)), str(f2b(-1.5))], fj.affine(0.5, -1.5))
    ac = lambda: (["LF", "S", "AC", str(f2b(0.7)), str(f2b(0.1))], B.AdditiveCondition(lambda cc: jnp.tanh(0.7 * cc + 0.1), (), ()))
    for base_kind in ("N", "CN"):
        for outer in ([aff], [ac], [aff, aff], [aff, ac], [ac, aff], [ac, ac]):
            built = [f() for f in outer]
            d = StandardNormal() if base_kind == "N" else CondNormal()
            for _, o in built:
                d = Transformed(d, o)
            head = f"mgmt {base_kind} {len(built)} " + " ".join(" ".join(t) for t, _ in built)
            bt.add(head + " cs", [opt_shape_str(d.cond_shape)], what="cond_shape-grid", base=base_kind)
            c.case(("cond-grid", base_kind, len(built), tuple(t[1] for t, _ in built)), True)
            c.count("cond_shape-grid")
    bt.run()


# ------------------------------------------------------------------ C08: Chain.__getitem__ / __len__ / __iter__ / merge_chains
def corr_chain(c, tier, rng, n=None):
    n = n if n is not None else (25 if tier == "quick" else 150)
    bt = Batch(c, "generated-chain-methods-vs-impl")
    for i in range(n):
        k = rng.choice([1, 2, 3, 3, 4])
        subs = [rand_obj(rng, rng.choice([0, 0, 1, 2])) for _ in range(k)]
        toks = ["C", str(k)]
        for s in subs:
            toks += s[0]
        ch = B.Chain([s[1] for s in subs])
        conditional = any(s[2] for s in subs)
        desc = "C[" + ",".join(s[3] for s in subs) + "]"
        head = "mgch " + " ".join(toks)
        cond = rng.uniform(-1.5, 1.5)
        cj = jnp.asarray(cond) if conditional else None
        x = rng.uniform(0.2, 1.5)
        bt.add(head + " len", [str(len(ch))], desc=desc, what="len")
        bt.add(head + " iter", [str(len(list(iter(ch))))], desc=desc, what="iter")
        try:
            bt.add(head + " geto", exc_of(lambda: ch["a"]), desc=desc, what="getitem-other")
        except AssertionError:
            c.mismatch("chain-getitem-other-does-not-raise", desc=desc)
        # ---- merge_chains
        m = ch.merge_chains()
        bt.add(head + " mcs", [str(len(m)), bit(any(isinstance(b, B.Chain) for b in m.bijections)), shape_str(m.shape), opt_shape_str(m.cond_shape)],
               desc=desc, what="merge_chains-struct")
        nested = any(isinstance(b, B.Chain) for b in ch.bijections)
        c.case((desc, "merge_chains"), nested)
        c.count("merge_chains:" + ("nested" if nested else "flat"))
        for meth in fj.METHODS:
            bt.add(f"{head} mc {meth} {f2b(x)} {f2b(cond)}", call4(m, meth, x, cj), desc=desc, what="merge_chains-" + meth, x=x)
            c.case((desc, "mc", meth, x), nested)
        for j, b in enumerate(m.bijections):
            bt.add(f"{head} mcleaf {j} {f2b(x)} {f2b(cond)}", call4(b, "t", x, cj), desc=desc, what="merge_chains-member", j=j)
        # ---- chain[i], every int index incl. negative and out of range
        for j in range(-k - 2, k + 2):
            try:
                want = call4(ch[j], "t", x, cj)
            except Exception as ex:
                want = exc(ex)
            bt.add(f"{head} geti {j} t {f2b(x)} {f2b(cond)}", want, desc=desc, what="getitem-int", j=j)
            c.case((desc, "geti", j), True)
            c.count("getitem-int:" + ("neg" if j < 0 else "nonneg") + (":raises" if isinstance(want, str) else ""))
        # ---- chain[a:b:k], every small pair incl. negative / out of range / None, several steps
        bounds = [None] + list(range(-k - 1, k + 2))
        steps = [None, 1] + ([-1, 2, -2, 0] if i % 3 == 0 else [])
        for a in bounds:
            for b in bounds:
                for st in steps:
                    if st not in (None, 1) and rng.random() < 0.5:
                        continue
                    meth = rng.choice(fj.METHODS)
                    try:
                        r = ch[slice(a, b, st)]
                        v = call4(r, meth, x, cj)
                        want = v if isinstance(v, str) else [str(len(r)), opt_shape_str(r.cond_shape)] + v
                    except Exception as ex:
                        want = exc(ex)
                    tok = lambda v: "N" if v is None else str(v)
                    bt.add(f"{head} gets {tok(a)} {tok(b)} {tok(st)} {meth} {f2b(x)} {f2b(cond)}", want, desc=desc, what="getitem-slice", a=a, b=b, step=st)
                    c.case((desc, "gets", a, b, st), True)
                    c.count("getitem-slice:step=" + tok(st) + (":raises" if isinstance(want, str) else ""))
    bt.run()


def exc_of(f):
    try:
        f()
    except Exception as ex:
        return exc(ex)
    raise AssertionError("did not raise")
