"""C12 — unwrap applies every wrapper exactly once; frozen parameters never move.

Tie to the code (hand model `lean/Flowjaxv/Model/Tree.lean`, driver op `pytree`):
  * random REAL pytrees built from the real `flowjax.wrappers` classes (instrumented subclasses that only log a
    static tag and call `super().unwrap()`; `Lambda`s with logging functions), wrappers inside tuples / lists /
    dicts / eqx Modules / real bijections, shared sub-objects, wrappers built under 1–2 levels of
    `eqx.filter_vmap`, and real flows — each encoded generically (one-level flattening, leaf identities) into
    the model's prefix notation and compared with the model on: structure after `unwrap`, wrapper-freeness,
    idempotence, the exact ORDER of applied wrappers, which leaves land in params / static under
    `eqx.partition(…, is_leaf=NonTrainable)`, `num_params`, `constructor(v)` leaf by leaf (bitwise),
    `eqx.apply_updates` with `None` holes, per-slice trees of vmapped constructions;
  * the per-class `.unwrap()` bodies — abstract in the first group of theorems — are also REGENERATED from flowjax/wrappers.py
    (`Gen/Wrappers.lean`: NonTrainable, BijectionReparam + its constructor, Where, WeightNormalization at rank 2 and 3, Lambda), assembled
    into one `WrapFn` (`Model/WrapGen.lean`) for which `WrapFree` / `SkUniform` are proved, and run (driver op `gwrap`) against the real
    `unwrap` on matrices / rank-3 weights of many shapes and on whole nests (BNAF weight nest, masked MAF layers, NonTrainable subtrees,
    a Lambda) by `tools/props/wrapgen.py`;
  * real-vs-real oracles (also the `search`): batched unwrap == stack of individually built unwraps, methods give
    bit-identical results on `t` and `unwrap(t)`, every bijection class's four methods are wrapped by
    `_unwrap_check_and_cast` and every distribution method starts with `self = unwrap(self)`, real
    `fit_to_data` / `fit_to_variational_target` runs with a strict subset frozen and adam / sgd+momentum /
    adamw(weight decay) leave frozen and non-float leaves bit-identical, gradients w.r.t. frozen arrays are
    exactly zero.
"""
from __future__ import annotations

import ast
import dataclasses
import inspect
import random
import textwrap

import equinox as eqx
import jax
import jax.numpy as jnp
import jax.random as jr
import numpy as np
import optax

import flowjax.bijections as B
import flowjax.distributions as D
from flowjax import wrappers as W
from flowjax.flows import coupling_flow, masked_autoregressive_flow
from flowjax.train import fit_to_data, fit_to_variational_target
from flowjax.train.losses import ElboLoss, MaximumLikelihoodLoss
from flowjax.utils import get_ravelled_pytree_constructor
from flowjax.wrappers import (AbstractUnwrappable, BijectionReparam, Lambda, NonTrainable, WeightNormalization, Where,
                              non_trainable, unwrap)

import vlib
from vlib import f2b, fs2b, b2fs
from props import wrapgen

ID = "C12"
GEN = ["Wrappers", "UnwrapGen"]
RULE = ("random real pytrees over the five flowjax.wrappers classes (depth<=4: NonTrainable / BijectionReparam(Exp|SoftPlus) / "
        "Where / WeightNormalization / Lambda nested in each other and in tuples, lists, dicts, eqx Modules and real bijections, "
        "shared sub-objects, float/int/bool arrays, non-array leaves, None), the same under 1-2 levels of eqx.filter_vmap, "
        "and real flows (MAF, coupling, Transformed(Normal, Affine), BNAF network) with a strict subset frozen; compared with "
        "the Lean model on structure, order of application, partition halves, num_params, constructor(v), apply_updates; "
        "a case is non-trivial when the tree has >=2 nested wrappers or a frozen strict subset; distinct = distinct "
        "(tree encoding, op) pairs")
TRUSTED = [
    "Lean 4.33 kernel; axioms propext, Classical.choice, Quot.sound (core Lean only, no Mathlib in the C12 cone)",
    "hand model Model/Tree.lean of jax.tree_util flattening order, eqx.partition/combine/apply_updates, ravel_pytree, "
    "eqx.filter_vmap (leafwise stack of per-slice results) — validated by this correspondence on every run",
    "the generic encoder of real pytrees in tools/props/c12.py (one-level flattening, array identity)",
    "the TRAVERSAL (unwrap, recursive_unwrap with vectorized_unwrap / v_unwrap / the reversed(_dummy.shape) filter_vmap loop, non_trainable, the partition "
    "statement of fit_to_data / fit_to_variational_target) is regenerated (Gen/UnwrapGen.lean; translator tools/py2lean/py2meth.py + sheet targets_unwrap.py) and "
    "PROVED equal to Model/Tree.lean; trusted there: the library meanings of Model/UnwrapWorld.lean (tree_map, tree_flatten_one_level / tree_unflatten, "
    "filter_vmap on a module, isinstance, _dummy, eqx.partition) and the fuel knot of Model/UnwrapKnot.lean (proved fuel-independent) — run beside the real code on every tree",
    "the per-class .unwrap() bodies are an abstract parameter f of the theorems (hypothesis WrapFree f), instantiated with the bodies regenerated from "
    "flowjax/wrappers.py (Gen/Wrappers.lean; translator tools/py2lean/py2nd.py + typing sheet targets_wrappers.py trusted and compared with the real unwrap "
    "on every run; a Lambda's function stays a parameter); bit-identity is Lean equality of array data",
]
ASSUMPTIONS = [
    "exactly-zero gradient of NonTrainable leaves rests on jax.lax.stop_gradient's semantics (measured on the real code: jax.grad is exactly 0; frozen leaves are absent from the params half, which is proved)",
    "optax / eqx.apply_updates return a tree with the structure of params (the model's applyU fails otherwise, as the real call raises); any update values are covered",
    "a Lambda whose function itself returns wrappers (then unwrap's result contains wrappers, also in the real code) is excluded by hypothesis WrapFree",
    "Where / WeightNormalization have no _dummy: built under vmap they are only correct when their arguments broadcast batch-polymorphically (hypothesis inside WB); "
    "observed on the real code: filter_vmap(lambda c, s: Where(c, s, 0.0))(bool[3,3], f64[3]) unwraps to a value different from the stack of the individually built ones",
    "constructor(0) = t needs 0 + x = x: IEEE turns a -0.0 parameter into +0.0 (observed, value-equal)",
]

LOG: list = []
GRAD_CONTROL: list = []


# ------------------------------------------------------------------ instrumented real wrappers
class CWhere(Where):
    tag: int = eqx.field(static=True, default=-1)

    def unwrap(self):
        LOG.append(self.tag)
        return super().unwrap()


class CNT(NonTrainable):
    tag: int = eqx.field(static=True, default=-1)

    def unwrap(self):
        LOG.append(self.tag)
        return super().unwrap()


class CBR(BijectionReparam):
    tag: int = eqx.field(static=True, default=-1)

    def __init__(self, arr, bijection, tag, **kw):
        super().__init__(arr, bijection, **kw)
        self.tag = tag

    def unwrap(self):
        LOG.append(self.tag)
        return super().unwrap()


class CWN(WeightNormalization):
    tag: int = eqx.field(static=True, default=-1)

    def __init__(self, weight, tag):
        super().__init__(weight)
        self.tag = tag

    def unwrap(self):
        LOG.append(self.tag)
        return super().unwrap()


KIND_COUNTS: dict = {}


class count_kinds:
    """context manager: counts `.unwrap()` calls per wrapper class (also of uninstrumented instances) by
    temporarily wrapping the five classes' `unwrap` methods"""

    def __enter__(self):
        KIND_COUNTS.clear()
        self.saved = {}
        for cls, name in ((NonTrainable, "NT"), (BijectionReparam, "BR"), (Where, "WH"), (WeightNormalization, "WN"), (Lambda, "LA")):
            orig = cls.__dict__["unwrap"]
            self.saved[cls] = orig

            def patched(self_, _orig=orig, _name=name):
                KIND_COUNTS[_name] = KIND_COUNTS.get(_name, 0) + 1
                return _orig.__get__(self_, type(self_))() if hasattr(_orig, "__get__") else _orig(self_)
            type.__setattr__(cls, "unwrap", patched)
        return KIND_COUNTS

    def __exit__(self, *a):
        for cls, orig in self.saved.items():
            type.__setattr__(cls, "unwrap", orig)


def wrapper_kinds(x, acc=None):
    """number of wrapper nodes per class by a plain traversal of the real tree"""
    acc = {} if acc is None else acc
    if x is None or is_arr(x):
        return acc
    if is_wrapper(x):
        k = next(s for cls, s in KIND if isinstance(x, cls))
        acc[k] = acc.get(k, 0) + 1
        for f in dataclasses.fields(x):
            if not f.metadata.get("static", False) and f.name != "_dummy":
                wrapper_kinds(getattr(x, f.name), acc)
        return acc
    if jax.tree_util.all_leaves([x]):
        return acc
    for k in eqx.tree_flatten_one_level(x)[0]:
        wrapper_kinds(k, acc)
    return acc


def make_fn(kind, tag):
    """Lambda functions: 0 sum of positional args (one array), 1 a pair of arrays, 2 first positional argument unchanged."""
    if kind == 0:
        def fn(*a, **k):
            LOG.append(tag)
            r = a[0] * 1.0
            for x in list(a[1:]) + [k[q] for q in sorted(k)]:
                r = r + x
            return r
    elif kind == 1:
        def fn(*a, **k):
            LOG.append(tag)
            return (a[0] * 2.0, -a[0])
    else:
        def fn(*a, **k):
            LOG.append(tag)
            return a[0]
    fn._c12_kind, fn._c12_tag = kind, tag
    return fn


class Mod(eqx.Module):
    a: object
    b: object
    name: str = eqx.field(static=True, default="m")


KIND = [(NonTrainable, "NT"), (BijectionReparam, "BR"), (Where, "WH"), (WeightNormalization, "WN"), (Lambda, "LA")]


def is_wrapper(x):
    return isinstance(x, AbstractUnwrappable)


def is_arr(x):
    return isinstance(x, (jax.Array, np.ndarray))


# ------------------------------------------------------------------ generic encoder real pytree -> model tokens
class Enc:
    def __init__(self, use_batch=True):
        self.keep = []          # keep objects alive so id() stays unique
        self.arr_ids, self.static_ids, self.tags = {}, {}, {}
        self.arrs = {}          # id -> array
        self.content = {}       # content key -> id
        self.use_batch = use_batch
        self.n_wrappers = 0
        self.max_nest = 0

    @staticmethod
    def ckey(a):
        a = np.asarray(a)
        return (a.shape, str(a.dtype), a.tobytes())

    def arr_id(self, a):
        k = id(a)
        if k not in self.arr_ids:
            self.keep.append(a)
            self.arr_ids[k] = len(self.arr_ids) + 1
            self.arrs[self.arr_ids[k]] = a
            self.content.setdefault(self.ckey(a), self.arr_ids[k])
        return self.arr_ids[k]

    def static_id(self, x):
        if callable(x) and hasattr(x, "_c12_kind"):
            return 9000 + x._c12_kind
        if isinstance(x, bool):
            k = ("b", x)
        elif isinstance(x, (int, float)):
            k = ("num", float(x))
        else:
            k = ("o", id(x))
        if k not in self.static_ids:
            self.keep.append(x)
            self.static_ids[k] = len(self.static_ids) + 1
        return self.static_ids[k]

    def tag_of(self, x):
        if isinstance(x, Lambda) and hasattr(x.fn, "_c12_tag"):
            return x.fn._c12_tag
        t = getattr(x, "tag", None)
        if isinstance(t, int) and t >= 0:
            return t
        k = id(x)
        if k not in self.tags:
            self.keep.append(x)
            self.tags[k] = 5000 + len(self.tags)
        return self.tags[k]

    def enc_arr(self, a, L):
        a = np.asarray(a)
        if L == 0:
            return ["D", fs2b(np.ravel(a).astype(float))]
        if a.ndim == 0:
            raise ValueError("array without the batch axis")
        out = ["B", str(a.shape[0])]
        for i in range(a.shape[0]):
            out += self.enc_arr(a[i], L - 1)
        return out

    def enc(self, x, L=0, nest=0):
        if x is None:
            return ["N"]
        if is_wrapper(x):
            self.n_wrappers += 1
            self.max_nest = max(self.max_nest, nest + 1)
            kind = next(s for cls, s in KIND if isinstance(x, cls))
            names = [f.name for f in dataclasses.fields(x) if not f.metadata.get("static", False) and f.name != "_dummy"]
            dummy = getattr(x, "_dummy", None)
            batch = tuple(np.shape(dummy)) if (dummy is not None and self.use_batch) else ()
            toks = ["W", kind, str(self.tag_of(x)), vlib.ints(batch), str(len(names))]
            for n in names:
                toks += self.enc(getattr(x, n), L, nest + 1)
            return toks
        if is_arr(x):
            return ["A", str(self.arr_id(x)), "1" if eqx.is_inexact_array(x) else "0"] + self.enc_arr(x, L)
        kids, _ = eqx.tree_flatten_one_level(x) if not jax.tree_util.all_leaves([x]) else ([], None)
        if jax.tree_util.all_leaves([x]):
            return ["S", str(self.static_id(x))]
        toks = ["C", str(len(kids))]
        for k in kids:
            toks += self.enc(k, L, nest)
        return toks

    # skeleton of a real tree in the model's notation (arrays identified by content with the encoded leaves)
    def skel(self, x):
        if x is None:
            return "N"
        if is_wrapper(x):
            kind = next(s for cls, s in KIND if isinstance(x, cls))
            names = [f.name for f in dataclasses.fields(x) if not f.metadata.get("static", False) and f.name != "_dummy"]
            return f"W{kind}[" + " ".join(self.skel(getattr(x, n)) for n in names) + "]"
        if is_arr(x):
            i = self.arr_ids.get(id(x)) or self.content.get(self.ckey(x))
            return f"A{i}" if i else "A*"
        if jax.tree_util.all_leaves([x]):
            return f"S{self.static_id(x)}"
        kids, _ = eqx.tree_flatten_one_level(x)
        return "C[" + " ".join(self.skel(k) for k in kids) + "]"


def real_leaves(x, acc=None):
    """array leaves of a real tree in flattening order (wrappers are ordinary nodes; `_dummy` skipped)"""
    acc = [] if acc is None else acc
    if x is None:
        return acc
    if is_wrapper(x):
        for f in dataclasses.fields(x):
            if not f.metadata.get("static", False) and f.name != "_dummy":
                real_leaves(getattr(x, f.name), acc)
        return acc
    if is_arr(x):
        acc.append(x)
        return acc
    if jax.tree_util.all_leaves([x]):
        return acc
    for k in eqx.tree_flatten_one_level(x)[0]:
        real_leaves(k, acc)
    return acc


def frozen_real(x, under=False, acc=None):
    """(array, frozen?) in flattening order by the property's own definition: under a NonTrainable or non-inexact"""
    acc = [] if acc is None else acc
    if x is None:
        return acc
    if is_wrapper(x):
        u = under or isinstance(x, NonTrainable)
        for f in dataclasses.fields(x):
            if not f.metadata.get("static", False) and f.name != "_dummy":
                frozen_real(getattr(x, f.name), u, acc)
        return acc
    if is_arr(x):
        acc.append((x, under or not eqx.is_inexact_array(x)))
        return acc
    if jax.tree_util.all_leaves([x]):
        return acc
    for k in eqx.tree_flatten_one_level(x)[0]:
        frozen_real(k, under, acc)
    return acc


def wrapper_tags_postorder(enc, x, acc=None):
    acc = [] if acc is None else acc
    if x is None or is_arr(x):
        return acc
    if is_wrapper(x):
        for f in dataclasses.fields(x):
            if not f.metadata.get("static", False) and f.name != "_dummy":
                wrapper_tags_postorder(enc, getattr(x, f.name), acc)
        acc.append(enc.tag_of(x))
        return acc
    if jax.tree_util.all_leaves([x]):
        return acc
    for k in eqx.tree_flatten_one_level(x)[0]:
        wrapper_tags_postorder(enc, k, acc)
    return acc


import re
_TOK = re.compile(r"A\*|A\d+|S\d+|N|C\[|W[A-Z]+\[|\]")


def skel_match(model, real):
    """equal skeletons; a computed array `A*` of the model matches any array of the real tree"""
    m, r = _TOK.findall(model), _TOK.findall(real)
    if len(m) != len(r) or "".join(m) != model.replace(" ", "") or "".join(r) != real.replace(" ", ""):
        return False
    return all(x == y or (x == "A*" and y.startswith("A")) for x, y in zip(m, r))


def has_wrappers(x):
    return any(is_wrapper(l) for l in jax.tree_util.tree_leaves(x, is_leaf=is_wrapper))


def trees_bitwise_equal(a, b):
    la, ta = jax.tree_util.tree_flatten(a)
    lb, tb = jax.tree_util.tree_flatten(b)
    if ta != tb or len(la) != len(lb):
        return False
    for x, y in zip(la, lb):
        if is_arr(x) or is_arr(y):
            x, y = np.asarray(x), np.asarray(y)
            if x.shape != y.shape or x.dtype != y.dtype or x.tobytes() != y.tobytes():
                return False
        elif not (x is y or x == y):
            return False
    return True


# ------------------------------------------------------------------ random real trees
class Gen:
    def __init__(self, rng: random.Random):
        self.rng = rng
        self.tag = 0
        self.shared = []

    def t(self):
        self.tag += 1
        return self.tag

    def farr(self, shape):
        r = self.rng
        n = int(np.prod(shape)) if shape else 1
        return jnp.asarray(np.reshape([r.choice([-1, 1]) * r.uniform(0.1, 2.0) for _ in range(n)], shape))

    def mask(self, shape):
        n = int(np.prod(shape)) if shape else 1
        return jnp.asarray(np.reshape([self.rng.random() < 0.5 for _ in range(n)], shape))

    def arrlike(self, shape, depth):
        """something that unwraps to a float array of `shape`"""
        r = self.rng
        if depth <= 0 or r.random() < 0.12:
            return self.farr(shape)
        k = r.choice(["WH", "WH", "BR", "BR", "LA", "NT", "WN", "SH", "BNAF"])
        if k == "BNAF" and len(shape) == 2:
            # reparameterisation inside masking inside weight-norm, inner mask shared (block_autoregressive_linear)
            inner = CWhere(self.mask(shape), self.arrlike(shape, depth - 2), 0, tag=self.t())
            w = CWhere(self.mask(shape), CBR(inner, B.SoftPlus(), self.t(), invert_on_init=False), inner, tag=self.t())
            wn = CWN(w, self.t())
            return eqx.tree_at(lambda q: q.scale, wn, CBR(wn.scale.arr, wn.scale.bijection, self.t(), invert_on_init=False))
        if k == "WH":
            other = r.choice([0.0, 1.5, None])
            other = self.arrlike(shape, depth - 1) if other is None else other
            return CWhere(self.mask(shape), self.arrlike(shape, depth - 1), other, tag=self.t())
        if k == "BR":
            return CBR(self.arrlike(shape, depth - 1), r.choice([B.Exp, B.SoftPlus])(), self.t(), invert_on_init=False)
        if k == "LA":
            if r.random() < 0.5:
                return Lambda(make_fn(0, self.t()), self.arrlike(shape, depth - 1), self.arrlike(shape, depth - 1))
            return Lambda(make_fn(0, self.t()), self.arrlike(shape, depth - 1), off=self.arrlike(shape, depth - 1))
        if k == "NT":
            return CNT(self.arrlike(shape, depth - 1), tag=self.t())
        if k == "WN" and len(shape) == 2:
            wn = CWN(self.arrlike(shape, depth - 1), self.t())
            sc = wn.scale
            return eqx.tree_at(lambda w: w.scale, wn, CBR(sc.arr, sc.bijection, self.t(), invert_on_init=False))
        if k == "SH" and self.shared:
            s, sh = r.choice(self.shared)
            if sh == shape:
                return s
        x = self.arrlike(shape, depth - 1)
        if is_wrapper(x):
            self.shared.append((x, shape))
        return x

    def shape(self):
        return self.rng.choice([(), (2,), (3,), (2, 3), (2, 2), (2, 3), (1,)])

    def tree(self, depth):
        r = self.rng
        if depth <= 0 or r.random() < 0.08:
            k = r.choice(["f", "f", "i", "b", "s", "n", "w", "w"])
            if k == "f":
                return self.farr(self.shape())
            if k == "i":
                return jnp.asarray(np.reshape([r.randrange(-5, 5) for _ in range(3)], (3,)))
            if k == "b":
                return self.mask((2,))
            if k == "s":
                return r.choice(["txt", 3, 2.5, True, len])
            if k == "n":
                return None
            return self.arrlike(self.shape(), 2)
        k = r.choice(["tuple", "list", "dict", "mod", "bij", "arrlike", "arrlike", "NT", "LA1", "LA2", "ntfn"])
        if k == "tuple":
            return tuple(self.tree(depth - 1) for _ in range(r.choice([0, 1, 2, 3])))
        if k == "list":
            return [self.tree(depth - 1) for _ in range(r.choice([1, 2, 3]))]
        if k == "dict":
            return {name: self.tree(depth - 1) for name in r.sample(["z", "a", "m", "b"], r.choice([1, 2, 3]))}
        if k == "mod":
            return Mod(self.tree(depth - 1), self.tree(depth - 1), name=r.choice(["p", "q"]))
        if k == "bij":
            sh = r.choice([(), (2,)])
            b = B.Affine(self.farr(sh), jnp.abs(self.farr(sh)) + 0.1)
            if r.random() < 0.5:  # replace its scale by a deeper nest
                b = eqx.tree_at(lambda t: t.scale, b, self.arrlike(sh, depth - 1))
            return b
        if k == "arrlike":
            return self.arrlike(self.shape(), depth)
        if k == "NT":
            return CNT(self.tree(depth - 1), tag=self.t())
        if k == "LA1":
            return Lambda(make_fn(1, self.t()), self.arrlike(self.shape(), depth - 1))
        if k == "LA2":
            return Lambda(make_fn(2, self.t()), self.tree(depth - 1), self.tree(depth - 2))
        return non_trainable(self.tree(depth - 1))


# ------------------------------------------------------------------ model ops
class Batch:
    def __init__(self):
        self.lines, self.handlers = [], []

    def add(self, line, handler):
        self.lines.append(line)
        self.handlers.append(handler)

    def run(self):
        outs = vlib.run_model(self.lines) if self.lines else []
        for line, out, h in zip(self.lines, outs, self.handlers):
            h(line, out)


def parse_leaves(s):
    if s == "-":
        return []
    out = []
    for item in s.split(";"):
        i, d = item.split(":")
        out.append((int(i), b2fs(d)))
    return out


def bits(a):
    return [f2b(v) for v in np.ravel(np.asarray(a)).astype(float)]


def same_data(model_floats, impl_bits):
    """bitwise equal; NaNs match NaNs (Lean's `Float.toBits` canonicalises the NaN payload/sign)"""
    if len(model_floats) != len(impl_bits):
        return False
    for x, b in zip(model_floats, impl_bits):
        if x != x:
            y = vlib.b2f(b)
            if y == y:
                return False
        elif f2b(x) != b:
            return False
    return True


def same_leaves(got, want_data):
    return len(got) == len(want_data) and all(same_data(d, w) for (_, d), w in zip(got, want_data))


def compare_tree(c, batch, t, desc, L=0, use_batch=True, rng=None, do_unwrap=True, nontrivial=None):
    """All model-vs-real comparisons for one real tree `t`."""
    enc = Enc(use_batch=use_batch)
    toks = enc.enc(t, L)
    ts = " ".join(toks)
    nt = (enc.n_wrappers >= 2 and enc.max_nest >= 2) if nontrivial is None else nontrivial
    c.count(f"wrappers:{min(enc.n_wrappers, 9)}")
    c.count(f"nest:{min(enc.max_nest, 6)}")

    # ---- unwrap: structure, order of application, idempotence
    if do_unwrap:
        LOG.clear()
        with jax.disable_jit(), count_kinds() as kc:
            u = unwrap(t)
            kinds = dict(kc)
        log1 = list(LOG)
        if kinds != wrapper_kinds(t):
            c.mismatch("unwrap-calls-per-class", impl=kinds, tree=wrapper_kinds(t), desc=desc)
        LOG.clear()
        with jax.disable_jit():
            uu = unwrap(u)
        log2 = list(LOG)
        real = dict(skel=enc.skel(u), log=log1, log2=log2, idem=trees_bitwise_equal(u, uu), nowrap=not has_wrappers(u))
        want_tags = wrapper_tags_postorder(enc, t)

        def h_unwrap(line, out, real=real, want_tags=want_tags, enc=enc):
            if out.startswith("ERR"):
                c.mismatch("unwrap-model-rejects", op=line[:400], model=out, desc=desc)
                return
            sk, tags, tags2, idem, nowrap, dims = out.split(" | ")
            mtags = [int(v) for v in tags.split(",")] if tags != "-" else []
            mtags_obs = [v for v in mtags if v < 5000]
            rlog = real["log"]
            if not skel_match(sk, real["skel"]):
                c.mismatch("unwrap-structure", op=line[:400], model=sk, impl=real["skel"], desc=desc)
            if mtags_obs != rlog:
                c.mismatch("unwrap-order-of-application", op=line[:400], model=mtags, impl=rlog, desc=desc)
            if mtags != want_tags:
                c.mismatch("unwrap-tags-vs-tree-traversal", op=line[:400], model=mtags, impl=want_tags, desc=desc)
            if tags2 != "-" or real["log2"]:
                c.mismatch("unwrap-second-pass-applies", op=line[:400], model=tags2, impl=real["log2"], desc=desc)
            if idem != "1" or not real["idem"]:
                c.mismatch("unwrap-idempotent", op=line[:400], model=idem, impl=real["idem"], desc=desc)
            if nowrap != "1" or not real["nowrap"]:
                c.mismatch("unwrap-no-wrappers", op=line[:400], model=nowrap, impl=real["nowrap"], desc=desc)
        line = "pytree unwrap " + ts
        batch.add(line, h_unwrap)
        c.case((ts, "unwrap"), nt, sample={"op": line[:240], "impl": {"skel": real["skel"][:200], "log": log1}} if nt else None)

    # ---- partition / num_params
    is_nt = lambda l: isinstance(l, NonTrainable)  # noqa: E731
    p, s = eqx.partition(t, eqx.is_inexact_array, is_leaf=is_nt)
    pid = [enc.arr_ids[id(a)] for a in real_leaves(p)]
    sid = [enc.arr_ids[id(a)] for a in real_leaves(s)]
    ctor, nparams = get_ravelled_pytree_constructor(t)
    comb_ok = trees_bitwise_equal(eqx.combine(p, s), t)
    frz = frozen_real(t)
    frozen_ids = [enc.arr_ids[id(a)] for a, f in frz if f]
    train_ids = [enc.arr_ids[id(a)] for a, f in frz if not f]
    has_frozen = bool(frozen_ids) and bool(train_ids)

    def h_part(line, out):
        if out.startswith("ERR"):
            c.mismatch("partition-model-rejects", op=line[:400], model=out, desc=desc)
            return
        mp, ms, sp, ss, npar, comb, skp, sks = out.split(" | ")
        mp = [int(v) for v in mp.split(",")] if mp != "-" else []
        ms = [int(v) for v in ms.split(",")] if ms != "-" else []
        if mp != pid or ms != sid:
            c.mismatch("partition-halves", op=line[:400], model=[mp, ms], impl=[pid, sid], desc=desc)
        if mp != train_ids or ms != frozen_ids:
            c.mismatch("partition-vs-frozen-definition", op=line[:400], model=[mp, ms], impl=[train_ids, frozen_ids], desc=desc)
        if sp != "-":
            c.mismatch("partition-nonarray-in-params", op=line[:400], model=sp, desc=desc)
        if int(npar) != nparams:
            c.mismatch("num-params", op=line[:400], model=npar, impl=nparams, desc=desc)
        if comb != "1" or not comb_ok:
            c.mismatch("combine-partition", op=line[:400], model=comb, impl=comb_ok, desc=desc)
        if not skel_match(skp, enc.skel(p)) or not skel_match(sks, enc.skel(s)):
            c.mismatch("partition-structure", op=line[:400], model=[skp, sks], impl=[enc.skel(p), enc.skel(s)], desc=desc)
    line = "pytree part " + ts
    batch.add(line, h_part)
    c.case((ts, "part"), has_frozen or nt, sample={"op": line[:240], "impl": {"params": pid, "static": sid, "num_params": nparams}} if has_frozen and nt else None)
    c.count("frozen-strict-subset" if has_frozen else "no-frozen-or-all-frozen")

    # ---- constructor(v): leaf by leaf, bitwise
    if rng is not None and nparams > 0 and L == 0:
        v = np.asarray([rng.choice([-1, 1]) * rng.uniform(0.01, 3.0) for _ in range(nparams)])
        tv = ctor(jnp.asarray(v))
        want = [(enc.arr_ids.get(id(a)), bits(a)) for a in real_leaves(tv)]
        # leaves of the static half keep identity; parameter leaves are new arrays -> match by position
        orig = [enc.arr_ids[id(a)] for a in real_leaves(t)]
        frozen_same = all(np.asarray(a).tobytes() == np.asarray(b).tobytes() for (a, f), b in zip(frz, real_leaves(tv)) if f)

        def h_ctor(line, out, want=want, orig=orig, frozen_same=frozen_same):
            if out.startswith("ERR"):
                c.mismatch("constructor-model-rejects", op=line[:400], model=out, desc=desc)
                return
            lv, sk = out.split(" | ")
            got = parse_leaves(lv)
            if [i for i, _ in got] != orig or not same_leaves(got, [d for _, d in want]):
                c.mismatch("constructor-leaves", op=line[:300], model=got[:8], impl=want[:8], desc=desc)
            if not frozen_same:
                c.mismatch("constructor-moves-frozen", op=line[:300], desc=desc)
        line = f"pytree ctor {fs2b(v)} " + ts
        batch.add(line, h_ctor)
        c.case((ts, "ctor"), has_frozen or nt)
        # wrong length is rejected by both
        try:
            ctor(jnp.zeros(nparams + 2))
            raised = False
        except Exception:
            raised = True
        batch.add(f"pytree ctor {fs2b([0.0] * (nparams + 2))} " + ts,
                  lambda line, out, raised=raised: None if (out.startswith("ERR") and raised) else c.mismatch("constructor-size-guard", op=line[:300], model=out[:100], impl=raised, desc=desc))
        c.case((ts, "ctor-size"), False)

    # ---- apply_updates with None holes
    if rng is not None and L == 0 and real_leaves(p):
        def mk_upd(x, top=False):
            if x is None:
                return None
            if not top and rng.random() < 0.15:
                return None
            if is_arr(x):
                return jnp.asarray(np.reshape([rng.uniform(-1, 1) for _ in range(int(np.size(x)))], np.shape(x)))
            if jax.tree_util.all_leaves([x]):
                return None
            kids, td = eqx.tree_flatten_one_level(x)
            return jax.tree_util.tree_unflatten(td, [mk_upd(k) for k in kids])
        upd = mk_upd(p, top=True)
        try:
            newp = eqx.apply_updates(p, upd)
            want = [(enc.arr_ids.get(id(a)), bits(a)) for a in real_leaves(newp)]
            ok = True
        except Exception as ex:  # structure mismatch
            want, ok = repr(ex)[:100], False
        if ok:
            enc_u = Enc(use_batch=use_batch)
            ut = " ".join(enc_u.enc(upd, L))
            pt = " ".join(enc.enc(p, L))
            porder = [enc.arr_ids[id(a)] for a in real_leaves(p)]

            def h_upd(line, out, want=want, porder=porder):
                if out.startswith("ERR"):
                    c.mismatch("apply-updates-model-rejects", op=line[:300], model=out, desc=desc)
                    return
                got = parse_leaves(out.split(" | ")[0])
                if [i for i, _ in got] != porder or not same_leaves(got, [d for _, d in want]):
                    c.mismatch("apply-updates-leaves", op=line[:300], model=got[:8], impl=want[:8], desc=desc)
            batch.add(f"pytree upd {ut} {pt}", h_upd)
            c.case((ts, ut, "upd"), has_frozen)
    return enc


def compare_generated(c, batch, t, desc, L=0, use_batch=True, nontrivial=True, real_unwrap=True):
    """The GENERATED traversal (`Gen/UnwrapGen.lean`: `unwrap` / `recursive_unwrap` / `non_trainable` / the partition statement of the
    training loops, driver ops `pytree gunwrap|gpart|gnt`) beside the hand model and the REAL code on the same encoded tree."""
    enc = Enc(use_batch=use_batch)
    ts = " ".join(enc.enc(t, L))
    is_nt = lambda l: isinstance(l, NonTrainable)  # noqa: E731
    if real_unwrap:
        with jax.disable_jit():
            u = unwrap(t)
            uu = unwrap(u)
        real = dict(skel=enc.skel(u), idem=trees_bitwise_equal(u, uu), nowrap=not has_wrappers(u))

        def h_gunwrap(line, out, real=real):
            if out.startswith("ERR"):
                c.mismatch("generated-unwrap-rejects", op=line[:400], model=out, desc=desc)
                return
            sk, idem, nowrap, dims, hand, fuel, rec = out.split(" | ")
            if not skel_match(sk, real["skel"]):
                c.mismatch("generated-unwrap-structure", op=line[:400], model=sk, impl=real["skel"], desc=desc)
            if idem != "1" or not real["idem"]:
                c.mismatch("generated-unwrap-idempotent", op=line[:400], model=idem, impl=real["idem"], desc=desc)
            if nowrap != "1" or not real["nowrap"]:
                c.mismatch("generated-unwrap-no-wrappers", op=line[:400], model=nowrap, impl=real["nowrap"], desc=desc)
            if hand != "1":
                c.mismatch("generated-unwrap-vs-hand-model", op=line[:400], desc=desc)
            if fuel != "1":
                c.mismatch("generated-unwrap-fuel-dependent", op=line[:400], desc=desc)
            if rec != "1":
                c.mismatch("generated-recursive-unwrap-vs-hand-model", op=line[:400], desc=desc)
        line = "pytree gunwrap " + ts
        batch.add(line, h_gunwrap)
        c.case((ts, "gunwrap"), nontrivial, sample={"op": line[:240], "impl": {"skel": real["skel"][:200]}} if nontrivial else None)
        c.count("generated-unwrap")

    p, s = eqx.partition(t, eqx.is_inexact_array, is_leaf=is_nt)
    pid = [enc.arr_ids[id(a)] for a in real_leaves(p)]
    sid = [enc.arr_ids[id(a)] for a in real_leaves(s)]
    nparams = sum(int(np.size(a)) for a in real_leaves(p))
    skp, sks = enc.skel(p), enc.skel(s)

    def h_gpart(line, out):
        if out.startswith("ERR"):
            c.mismatch("generated-partition-rejects", op=line[:400], model=out, desc=desc)
            return
        mp, ms, sp, ss, npar, comb, mskp, msks, same, hand = out.split(" | ")
        mp = [int(v) for v in mp.split(",")] if mp != "-" else []
        ms = [int(v) for v in ms.split(",")] if ms != "-" else []
        if mp != pid or ms != sid:
            c.mismatch("generated-partition-halves", op=line[:400], model=[mp, ms], impl=[pid, sid], desc=desc)
        if sp != "-":
            c.mismatch("generated-partition-nonarray-in-params", op=line[:400], model=sp, desc=desc)
        if int(npar) != nparams:
            c.mismatch("generated-partition-num-params", op=line[:400], model=npar, impl=nparams, desc=desc)
        if comb != "1":
            c.mismatch("generated-partition-combine", op=line[:400], desc=desc)
        if not skel_match(mskp, skp) or not skel_match(msks, sks):
            c.mismatch("generated-partition-structure", op=line[:400], model=[mskp, msks], impl=[skp, sks], desc=desc)
        if same != "1":
            c.mismatch("generated-partition-data-fit-vs-variational-fit", op=line[:400], desc=desc)
        if hand != "1":
            c.mismatch("generated-partition-vs-hand-model", op=line[:400], desc=desc)
    line = "pytree gpart " + ts
    batch.add(line, h_gpart)
    c.case((ts, "gpart"), bool(pid) and bool(sid))
    c.count("generated-partition")

    # non_trainable(t): structure, nothing trainable afterwards
    nt = non_trainable(t)
    np_, ns_ = eqx.partition(nt, eqx.is_inexact_array, is_leaf=is_nt)
    want = dict(skel=enc.skel(nt), p=[enc.arr_ids[id(a)] for a in real_leaves(np_)], s=[enc.arr_ids[id(a)] for a in real_leaves(ns_)])

    def h_gnt(line, out, want=want):
        if out.startswith("ERR"):
            c.mismatch("generated-non-trainable-rejects", op=line[:400], model=out, desc=desc)
            return
        sk, mp, ms, hand = out.split(" | ")
        mp = [int(v) for v in mp.split(",")] if mp != "-" else []
        ms = [int(v) for v in ms.split(",")] if ms != "-" else []
        if not skel_match(sk, want["skel"]):
            c.mismatch("generated-non-trainable-structure", op=line[:400], model=sk, impl=want["skel"], desc=desc)
        if mp != want["p"] or ms != want["s"] or mp:
            c.mismatch("generated-non-trainable-partition", op=line[:400], model=[mp, ms], impl=[want["p"], want["s"]], desc=desc)
        if hand != "1":
            c.mismatch("generated-non-trainable-vs-hand-model", op=line[:400], desc=desc)
    line = "pytree gnt " + ts
    batch.add(line, h_gnt)
    c.case((ts, "gnt"), bool(sid) and bool(pid))
    c.count("generated-non-trainable")


# ------------------------------------------------------------------ vmapped construction
def vmapped_case(rng, levels, kind=None):
    """returns (mk, batched inputs, axis sizes): mk builds a nest of wrappers from array arguments"""
    g = Gen(rng)
    sizes = [rng.choice([1, 2, 3]) for _ in range(levels)]
    shape = rng.choice([(), (2,), (3,)])
    kind = kind or rng.choice(["la", "br", "br_la", "la_br_cont", "nt_la", "wh_same", "pair", "ident", "la_bool", "la_int"])
    tags = [g.t() for _ in range(6)]
    mask = g.mask(shape)

    def mk(x, y):
        if kind == "la":
            return Lambda(make_fn(0, tags[0]), x, y)
        if kind == "la_bool":   # a mapped BOOLEAN array leaf (a mask computed per slice) next to the float one
            return Lambda(make_fn(0, tags[0]), x, keep=(y > 0))
        if kind == "la_int":    # a mapped INTEGER array leaf
            return Lambda(make_fn(0, tags[0]), x, shift=jnp.floor(3 * y).astype(int))
        if kind == "br":
            return CBR(x, B.Exp(), tags[0], invert_on_init=False)
        if kind == "br_la":
            return CBR(Lambda(make_fn(0, tags[0]), x, off=y), B.SoftPlus(), tags[1], invert_on_init=False)
        if kind == "la_br_cont":
            return {"k": (Lambda(make_fn(0, tags[0]), CBR(x, B.Exp(), tags[1], invert_on_init=False), y), y), "n": None, "s": 3}
        if kind == "nt_la":
            return CNT((Lambda(make_fn(0, tags[0]), x, y), x), tag=tags[1])
        if kind == "wh_same":
            return Lambda(make_fn(0, tags[0]), CWhere(jnp.broadcast_to(mask, jnp.shape(x)), x, y, tag=tags[1]), y)
        if kind == "pair":
            return [Lambda(make_fn(1, tags[0]), CBR(x, B.Exp(), tags[1], invert_on_init=False)), y]
        return Lambda(make_fn(2, tags[0]), x, CBR(y, B.Exp(), tags[1], invert_on_init=False))
    full = tuple(sizes) + shape
    n = int(np.prod(full)) if full else 1
    x = jnp.asarray(np.reshape([rng.uniform(-1.5, 1.5) for _ in range(n)], full))
    y = jnp.asarray(np.reshape([rng.uniform(-1.5, 1.5) for _ in range(n)], full))
    return kind, mk, x, y, sizes


def vmapped_violations(kind, mk, x, y, sizes):
    """real-vs-real oracle: unwrap of the vmapped-built tree == leafwise stack of the individually built ones"""
    out = []
    f = mk
    for _ in sizes:
        f = eqx.filter_vmap(f)
    V = f(x, y)
    with jax.disable_jit():
        U = unwrap(V)
    idx = list(np.ndindex(*sizes))
    singles = [unwrap(mk(x[i], y[i])) for i in idx]
    lu, tu = jax.tree_util.tree_flatten(U)
    for s in singles:
        ls, tsd = jax.tree_util.tree_flatten(s)
        if tsd != tu:
            out.append("structure of batched unwrap differs from an individually built one")
            return V, U, out
    for j, a in enumerate(lu):
        if is_arr(a):
            st = np.stack([np.asarray(jax.tree_util.tree_flatten(s)[0][j]) for s in singles]).reshape(tuple(sizes) + np.shape(jax.tree_util.tree_flatten(singles[0])[0][j]))
            if st.shape != np.shape(a) or not np.allclose(st, np.asarray(a), rtol=1e-13, atol=0):
                out.append(f"leaf {j}: batched unwrap != stack of per-slice unwraps")
    return V, U, out


# ------------------------------------------------------------------ real flows, freezing, training
def small_flows(rng, key):
    k = jr.split(key, 6)
    out = []
    maf = masked_autoregressive_flow(k[0], base_dist=D.Normal(jnp.zeros(2)), flow_layers=2, nn_width=4, nn_depth=1)
    out.append(("maf", maf))
    cf = coupling_flow(k[1], base_dist=D.Normal(jnp.zeros(3)), flow_layers=1, nn_width=4, nn_depth=1)
    out.append(("coupling", cf))
    ta = D.Transformed(D.Normal(jnp.zeros(2)), B.Affine(jnp.asarray([0.3, -0.2]), jnp.asarray([1.5, 0.7])))
    out.append(("affine", ta))
    return out


def non_trainable_fn_violations():
    """`non_trainable(tree)` must freeze EVERY inexact array leaf of `tree`, also those that sit inside another wrapper
    (BijectionReparam / Lambda / Where / WeightNormalization): afterwards the trainable half of the training partition holds no array,
    and unwrapping gives the same values."""
    out = []
    trees = {
        "Affine": B.Affine(jnp.asarray([0.3, -0.2]), jnp.asarray([1.5, 0.7])),
        "Normal": D.Normal(jnp.asarray([0.1, 0.2]), jnp.asarray([1.2, 0.8])),
        "RationalQuadraticSpline": B.RationalQuadraticSpline(knots=3, interval=2),
        "dict(Where, Lambda, array)": {"w": Where(jnp.asarray([True, False]), jnp.asarray([1.0, 2.0]), jnp.asarray([3.0, 4.0])),
                                         "l": Lambda(lambda a: a * 2.0, jnp.asarray([0.5])), "a": jnp.asarray([7.0])},
        "WeightNormalization": WeightNormalization(jnp.asarray([[1.0, 2.0], [0.5, -1.0]])),
    }
    for name, t in trees.items():
        try:
            z = non_trainable(t)
            params, _ = eqx.partition(z, eqx.is_inexact_array, is_leaf=lambda leaf: isinstance(leaf, NonTrainable))
            left = [l for l in jax.tree_util.tree_leaves(params) if eqx.is_inexact_array(l)]
            if left:
                out.append(f"non_trainable({name}): {len(left)} inexact array leaves are still in the trainable half of the partition")
            if not trees_bitwise_equal(unwrap(z), unwrap(t)):
                out.append(f"non_trainable({name}): unwrapping the frozen tree gives different values")
        except Exception as ex:  # noqa: BLE001
            out.append(f"non_trainable({name}) raised {type(ex).__name__}: {str(ex)[:120]}")
    return out


def freeze_variants(name, flow, rng):
    """strict subsets frozen through the public API"""
    vs = []
    vs.append(("base", eqx.tree_at(lambda f: f.base_dist, flow, replace_fn=non_trainable)))
    if name == "affine":
        vs.append(("loc", eqx.tree_at(lambda f: f.bijection.loc, flow, replace_fn=NonTrainable)))
        vs.append(("scale-tree", eqx.tree_at(lambda f: f.bijection.scale, flow, replace_fn=NonTrainable)))
        # the FUNCTION non_trainable applied to a subtree whose parameter is itself wrapped (BijectionReparam): it has to descend into it
        vs.append(("scale-fn", eqx.tree_at(lambda f: f.bijection.scale, flow, replace_fn=non_trainable)))
        vs.append(("bijection-fn", eqx.tree_at(lambda f: f.bijection, flow, replace_fn=non_trainable)))
    if name == "maf":
        vs.append(("masked-mlp-layer0", eqx.tree_at(lambda f: _first_mlp(f).layers[0], flow, replace_fn=non_trainable)))
    if name == "coupling":
        vs.append(("conditioner-last-bias", eqx.tree_at(lambda f: _first_mlp(f).layers[-1].bias, flow, replace_fn=NonTrainable)))
    return vs


def _first_mlp(f):
    for l in jax.tree_util.tree_leaves(f, is_leaf=lambda x: isinstance(x, eqx.nn.MLP)):
        if isinstance(l, eqx.nn.MLP):
            return l
    raise ValueError("no MLP")


OPTS = {
    "adam": lambda: optax.adam(1e-2),
    "sgd-momentum": lambda: optax.sgd(1e-2, momentum=0.9),
    "adamw-decay": lambda: optax.adamw(1e-2, weight_decay=0.1),
}


def train_violations(name, vname, flow, optname, loop, key, steps):
    """real training run; returns (violations, info)"""
    frz = frozen_real(flow)
    before = [(np.asarray(a).copy(), f) for a, f in frz]
    stat_before = [x for x in jax.tree_util.tree_leaves(eqx.filter(flow, lambda l: not eqx.is_array(l)))]
    dim = flow.shape[0]
    opt = OPTS[optname]()
    if loop == "data":
        x = jr.normal(key, (24, dim)) * 0.7 + 0.3
        new, _ = fit_to_data(key, flow, x, optimizer=opt, max_epochs=steps, batch_size=8, val_prop=0.25, show_progress=False,
                             return_best=(steps % 3 == 0))
    else:
        target = lambda z: -0.5 * jnp.sum((z - 0.5) ** 2)  # noqa: E731
        new, _ = fit_to_variational_target(key, flow, ElboLoss(target, num_samples=8), steps=steps, optimizer=opt,
                                           show_progress=False, return_best=(steps % 3 == 0))
    after = frozen_real(new)
    out = []
    if len(after) != len(before):
        out.append("leaf count changed")
        return out, {}
    moved_train = 0
    for j, ((b, f), (a, f2)) in enumerate(zip(before, after)):
        a = np.asarray(a)
        same = a.shape == b.shape and a.dtype == b.dtype and a.tobytes() == b.tobytes()
        if f and not same:
            out.append(f"frozen/non-float leaf #{j} changed: {b.ravel()[:3]} -> {a.ravel()[:3]}")
        if f != f2:
            out.append(f"leaf #{j} changed its frozen status")
        if not f and not same:
            moved_train += 1
    stat_after = [x for x in jax.tree_util.tree_leaves(eqx.filter(new, lambda l: not eqx.is_array(l)))]
    if len(stat_after) != len(stat_before) or any(not (x is y or x == y) for x, y in zip(stat_before, stat_after) if not callable(x)):
        out.append("non-array leaves changed")
    if jax.tree_util.tree_structure(new) != jax.tree_util.tree_structure(flow):
        out.append("tree structure changed by training")
    return out, dict(moved_trainable=moved_train, n_frozen=sum(1 for _, f in before if f), n_train=sum(1 for _, f in before if not f))


def weightnorm_batched_violations(seed):
    """WeightNormalization over a BATCH of matrices (what vmapped construction / stacking wrappers produces): unwrapping the batch equals
    stacking the unwraps of the slices, and every row of every slice has the norm given by its scale parameter"""
    from flowjax.wrappers import WeightNormalization
    out = []
    r = np.random.RandomState(seed % (2 ** 31))
    for shape in ((3, 4, 5), (2, 3, 2, 4), (1, 1, 3)):
        w = jnp.asarray(r.standard_normal(shape))
        wn = WeightNormalization(w)
        wn = eqx.tree_at(lambda t: t.scale, wn, jax.tree_util.tree_map(lambda a: a + jnp.asarray(0.3 * r.standard_normal(a.shape)), wn.scale))
        batched = np.asarray(unwrap(wn))
        sc = np.asarray(unwrap(wn.scale))
        flat_w, flat_s = np.asarray(w).reshape((-1,) + shape[-2:]), sc.reshape((-1,) + sc.shape[-2:])
        per = np.stack([np.asarray(flat_s[i] * flat_w[i] / np.linalg.norm(flat_w[i], axis=-1, keepdims=True)) for i in range(flat_w.shape[0])]).reshape(shape)
        if batched.shape != tuple(shape) or not np.allclose(batched, per, rtol=1e-10, atol=1e-12):
            out.append(f"WeightNormalization(weight of shape {shape}): batched unwrap != stack of per-slice unwraps (max diff "
                       f"{float(np.max(np.abs(batched - per))) if batched.shape == tuple(shape) else 'shape'})")
        rows = np.linalg.norm(batched, axis=-1, keepdims=True)
        if batched.shape == tuple(shape) and not np.allclose(rows, np.abs(sc), rtol=1e-9, atol=1e-12):
            out.append(f"WeightNormalization(weight of shape {shape}): row norms differ from the scale parameter")
    return out


def vmap_frozen_violations(key, optname="adam", loop="data"):
    """a bijection whose leaf was frozen BEFORE it was wrapped in Vmap(in_axes=...): the wrapper must survive construction, the leaf
    must get no gradient and must be bit-identical after training (values taken from the unwrapped model, so a dropped wrapper shows)"""
    out = []
    aff = B.Affine(jnp.zeros(()), jnp.ones(()))
    aff = eqx.tree_at(lambda a: a.loc, aff, jnp.asarray([0.3, -1.2, 2.0]))
    in_axes = jax.tree_util.tree_map(lambda _: None, unwrap(aff))
    in_axes = eqx.tree_at(lambda a: a.loc, in_axes, 0, is_leaf=lambda x: x is None)
    inner = eqx.tree_at(lambda a: a.loc, aff, replace_fn=NonTrainable)
    vm = B.Vmap(inner, in_axes=in_axes)
    if not isinstance(vm.bijection.loc, NonTrainable):
        out.append("Vmap(in_axes=...) dropped the NonTrainable wrapper of the wrapped bijection's loc at construction")
    flow = D.Transformed(D.Normal(jnp.zeros(3)), vm)
    loc0 = np.asarray(unwrap(flow).bijection.bijection.loc).copy()
    x = jr.normal(key, (24, 3)) * 0.7 + 0.3
    opt = OPTS[optname]()
    if loop == "data":
        new, _ = fit_to_data(key, flow, x, optimizer=opt, max_epochs=2, batch_size=8, val_prop=0.25, show_progress=False, return_best=False)
    else:
        new, _ = fit_to_variational_target(key, flow, ElboLoss(lambda z: -0.5 * jnp.sum((z - 0.5) ** 2), num_samples=8), steps=2, optimizer=opt,
                                           show_progress=False, return_best=False)
    loc1 = np.asarray(unwrap(new).bijection.bijection.loc)
    if loc1.tobytes() != loc0.tobytes():
        out.append(f"leaf frozen before Vmap(in_axes=...) moved in training ({optname}, {loop}): {loc0.tolist()} -> {loc1.tolist()}")
    sc0, sc1 = np.asarray(unwrap(flow).bijection.bijection.scale), np.asarray(unwrap(new).bijection.bijection.scale)
    return out, dict(trainable_moved=bool(sc0.tobytes() != sc1.tobytes()))


def grad_violations(flow, key):
    """(1) frozen leaves are not in the params half that the loops differentiate; the gradient tree has None there;
    (2) jax.grad of log_prob through `unwrap` w.r.t. the raw array under a NonTrainable is exactly zero."""
    out = []
    is_nt = lambda l: isinstance(l, NonTrainable)  # noqa: E731
    params, static = eqx.partition(flow, eqx.is_inexact_array, is_leaf=is_nt)
    x = jr.normal(key, (5, flow.shape[0]))
    g = eqx.filter_grad(MaximumLikelihoodLoss())(params, static, x)
    frz = frozen_real(flow)
    pl = {id(a) for a in real_leaves(params)}
    for a, f in frz:
        if f and id(a) in pl:
            out.append("a frozen leaf is in the params half")
    if len(real_leaves(g)) != len(real_leaves(params)):
        out.append("gradient tree has a different number of array leaves than params")
    # (2) raw arrays under NonTrainable nodes
    nts = [l for l in jax.tree_util.tree_leaves(flow, is_leaf=is_nt) if is_nt(l)]
    for nt in nts[:4]:
        arrs = [a for a in jax.tree_util.tree_leaves(nt.tree) if eqx.is_inexact_array(a)]
        if not arrs:
            continue
        a0 = arrs[0]

        def loss(a, a0=a0):
            f2 = jax.tree_util.tree_map(lambda l: a if l is a0 else l, flow)
            return jnp.sum(unwrap(f2).log_prob(x))
        gr = np.asarray(jax.grad(loss)(a0))
        if not np.all(gr == 0.0):
            out.append(f"gradient w.r.t. a NonTrainable array is not exactly zero: {gr.ravel()[:3]}")

        # control: without the NonTrainable the same array does receive gradient (so the zero is not vacuous)
        def loss_free(a, a0=a0):
            f2 = jax.tree_util.tree_map(lambda l: a if l is a0 else l, flow)
            f3 = jax.tree_util.tree_map(lambda l: l.tree if is_nt(l) else l, f2, is_leaf=is_nt)
            return jnp.sum(unwrap(f3).log_prob(x))
        if np.any(np.asarray(jax.grad(loss_free)(a0)) != 0.0):
            GRAD_CONTROL.append(1)
    return out


# ------------------------------------------------------------------ methods: unwrap first or not
def method_objects(rng, key):
    k = jr.split(key, 8)
    objs = []
    objs.append(("Affine", B.Affine(jnp.asarray([0.2, -1.0]), jnp.asarray([1.3, 0.4])), None))
    objs.append(("Scale", B.Scale(jnp.asarray([0.5, 2.0])), None))
    objs.append(("TriangularAffine", B.TriangularAffine(jnp.zeros(3), jnp.asarray(np.tril(np.reshape([rng.uniform(0.2, 1.5) for _ in range(9)], (3, 3))))), None))
    rq = B.RationalQuadraticSpline(knots=4, interval=3)
    rq = eqx.tree_at(lambda t: t.x_pos.args[0], rq, jnp.asarray([rng.uniform(-1, 1) for _ in range(4)]))
    objs.append(("RQS", rq, None))
    objs.append(("MaskedAutoregressive", B.MaskedAutoregressive(k[0], transformer=B.Affine(), dim=3, nn_width=4, nn_depth=1), None))
    objs.append(("MaskedAutoregressive-cond", B.MaskedAutoregressive(k[1], transformer=rq, dim=2, cond_dim=2, nn_width=4, nn_depth=1), 2))
    objs.append(("Coupling", B.Coupling(k[2], transformer=B.Affine(), untransformed_dim=1, dim=3, nn_width=4, nn_depth=1), None))
    objs.append(("BNAF", B.BlockAutoregressiveNetwork(k[3], dim=2, depth=1, block_dim=2), None))
    objs.append(("Planar", B.Planar(k[4], dim=3, negative_slope=0.1), None))
    objs.append(("Chain-frozen", B.Chain([non_trainable(B.Affine(jnp.ones(3), jnp.full(3, 0.5))), B.Tanh((3,)), NonTrainable(B.Loc(jnp.full(3, 0.1)))]), None))
    objs.append(("Invert", B.Invert(B.Affine(jnp.asarray([0.1]), jnp.asarray([2.0]))), None))
    objs.append(("Vmap", B.Vmap(B.Affine(jnp.asarray(0.3), jnp.asarray(1.2)), axis_size=3), None))
    return objs


def method_violations(name, b, cond_dim, rng):
    out = []
    u = unwrap(b)
    if has_wrappers(u):
        out.append("unwrap left wrappers")
    x = jnp.asarray([rng.uniform(-0.9, 0.9) for _ in range(int(np.prod(b.shape)) or 1)]).reshape(b.shape)
    cond = jnp.asarray([rng.uniform(-1, 1) for _ in range(cond_dim)]) if cond_dim else None
    for m in ("transform", "transform_and_log_det", "inverse", "inverse_and_log_det"):
        r1 = getattr(b, m)(x, cond)
        r2 = getattr(u, m)(x, cond)
        if not trees_bitwise_equal(r1, r2):
            out.append(f"{m}: result differs when the caller unwrapped first")
    return out


def dist_objects(rng, key):
    k = jr.split(key, 4)
    ds = [("Normal", D.Normal(jnp.asarray([0.1, -0.3]), jnp.asarray([1.2, 0.6]))),
          ("StudentT", D.StudentT(jnp.asarray(3.5), jnp.asarray(0.2), jnp.asarray(1.1))),
          ("MultivariateNormal", D.MultivariateNormal(jnp.zeros(2), jnp.asarray([[1.0, 0.3], [0.3, 2.0]]))),
          ("maf", masked_autoregressive_flow(k[0], base_dist=D.Normal(jnp.zeros(2)), flow_layers=1, nn_width=4, nn_depth=1)),
          ("coupling-frozen-base", eqx.tree_at(lambda f: f.base_dist, coupling_flow(k[1], base_dist=D.Normal(jnp.zeros(2)), flow_layers=1, nn_width=4), replace_fn=non_trainable))]
    return ds


def dist_violations(name, d, key):
    out = []
    u = unwrap(d)
    if has_wrappers(u):
        out.append("unwrap left wrappers")
    x = jr.normal(key, d.shape) * 0.5
    if not trees_bitwise_equal(d.log_prob(x), u.log_prob(x)):
        out.append("log_prob differs when the caller unwrapped first")
    if not trees_bitwise_equal(d.sample(key), u.sample(key)):
        out.append("sample differs when the caller unwrapped first")
    if not trees_bitwise_equal(d.sample(key, (3,)), u.sample(key, (3,))):
        out.append("batched sample differs when the caller unwrapped first")
    if not trees_bitwise_equal(d.sample_and_log_prob(key), u.sample_and_log_prob(key)):
        out.append("sample_and_log_prob differs when the caller unwrapped first")
    return out


def guard_table_violations():
    """every concrete bijection class resolves its four methods to functions wrapped by `_unwrap_check_and_cast`;
    the three public distribution methods start with `self = unwrap(self)`; the losses call unwrap before use."""
    out, n = [], 0
    from flowjax.bijections.bijection import AbstractBijection

    def subclasses(cls):
        for s in cls.__subclasses__():
            yield s
            yield from subclasses(s)
    for cls in set(subclasses(AbstractBijection)):
        if not cls.__module__.startswith("flowjax") or inspect.isabstract(cls):
            continue
        for m in ("transform", "transform_and_log_det", "inverse", "inverse_and_log_det"):
            fn = getattr(cls, m)
            fn = getattr(fn, "__func__", fn)
            w = getattr(fn, "__wrapped__", None)
            n += 1
            code = getattr(fn, "__code__", None)
            if (w is None or code is None or code.co_name != "wrapper" or "unwrap" not in code.co_names
                    or not code.co_filename.endswith("flowjax/bijections/bijection.py")):
                out.append(f"{cls.__name__}.{m} is not wrapped by _unwrap_check_and_cast")
    for m in ("log_prob", "sample", "sample_and_log_prob"):
        src = textwrap.dedent(inspect.getsource(getattr(D.AbstractDistribution, m)))
        body = [st for st in ast.parse(src).body[0].body if not (isinstance(st, ast.Expr) and isinstance(st.value, ast.Constant))]
        n += 1
        if not body or ast.unparse(body[0]).replace(" ", "") != "self=unwrap(self)":
            out.append(f"AbstractDistribution.{m} does not start with self = unwrap(self)")
    import flowjax.train.losses as Ls
    for cname in ("MaximumLikelihoodLoss", "ContrastiveLoss"):
        src = inspect.getsource(getattr(Ls, cname).__call__)
        n += 1
        if "unwrap(" not in src:
            out.append(f"{cname}.__call__ does not call unwrap")
    return out, n


def observations():
    """behaviour of the real code at the points the theorems' hypotheses exclude (recorded, not judged)"""
    notes = []
    try:
        l = Lambda(lambda x: NonTrainable(x), jnp.ones(2))
        notes.append("excluded by WrapFree: unwrap(Lambda(lambda x: NonTrainable(x), ones(2))) " +
                     ("still contains a wrapper" if has_wrappers(unwrap(l)) else "is wrapper-free"))
    except Exception as ex:
        notes.append("excluded by WrapFree: Lambda returning a wrapper raises " + type(ex).__name__)
    try:
        cnd = jnp.asarray([[True, False, True], [False, True, True], [True, True, False]])
        sv = jnp.asarray([1.0, 2.0, 3.0])
        mk = lambda cc, ss: Where(cc, ss, 0.0)  # noqa: E731
        got = np.asarray(unwrap(eqx.filter_vmap(mk)(cnd, sv)))
        want = np.stack([np.asarray(unwrap(mk(cnd[i], sv[i]))) for i in range(3)])
        notes.append("excluded by WB (Where has no _dummy): filter_vmap(lambda c, s: Where(c, s, 0.0))(bool[3,3], f64[3]) unwraps to " +
                     ("the stack of the individually built ones" if np.array_equal(got, want) else
                      f"{got.tolist()} but the individually built ones stack to {want.tolist()}"))
    except Exception as ex:
        notes.append("excluded by WB: Where with mixed-rank arguments under vmap raises " + type(ex).__name__)
    try:
        ctor, n = get_ravelled_pytree_constructor((jnp.asarray([-0.0, 1.0]), 3))
        z = np.asarray(ctor(jnp.zeros(n))[0])
        notes.append("constructor(0) on a -0.0 parameter returns " + ("-0.0" if np.signbit(z[0]) else "+0.0 (value-equal, not bit-equal: 0 + x = x fails for IEEE -0.0)"))
    except Exception as ex:
        notes.append("constructor(0) probe raises " + type(ex).__name__)
    return notes


# ------------------------------------------------------------------ correspondence
def corr(c, tier, rng):
    quick = tier == "quick"
    batch = Batch()
    key = jr.PRNGKey(rng.randrange(2**31))

    # A. random real wrapper trees vs the model
    n_trees = 150 if quick else 1500
    for i in range(n_trees):
        try:
            g = Gen(rng)
            t = g.tree(rng.choice([1, 2, 3, 3, 4, 4, 5]))
            compare_tree(c, batch, t, f"random-tree#{i}", rng=rng)
            compare_generated(c, batch, t, f"random-tree#{i}")
        except Exception as ex:
            c.mismatch("harness-exception", desc=f"random-tree#{i}", exc=repr(ex)[:300])
        c.count("random-trees")

    # B. vmapped construction (1-2 levels): real-vs-real stack oracle + model structure/order + per-slice trees
    n_v = 24 if quick else 200
    for i in range(n_v):
        levels = rng.choice([1, 1, 2])
        kind, mk, x, y, sizes = vmapped_case(rng, levels)
        try:
            V, U, viol = vmapped_violations(kind, mk, x, y, sizes)
            for v in viol:
                c.mismatch("vmapped-unwrap-vs-stack", desc=f"{kind} sizes={sizes}", detail=v)
            c.case((kind, tuple(sizes), "vmapped-stack", i), True)
            # the GENERATED traversal on the vmapped-built tree (bool / int mapped leaves included: every array leaf is sliced)
            compare_generated(c, batch, V, f"vmapped:{kind}:{sizes}", L=levels)
            c.count(f"generated-vmapped:{kind}")
            if kind in ("la_bool", "la_int"):
                continue  # non-float mapped leaves: real-vs-real stack oracle only (the tree model's Lambda functions are float-valued)
            enc = compare_tree(c, batch, V, f"vmapped:{kind}:{sizes}", L=levels, nontrivial=True)
            # per-slice tree of the model == individually built real tree
            i0 = rng.randrange(sizes[0])
            f = mk
            for _ in sizes[1:]:
                f = eqx.filter_vmap(f)
            single = f(x[i0], y[i0])
            want = [bits(a) for a in real_leaves(single)]
            want_sk = Enc().skel(single)

            def h_slice(line, out, want=want, desc=f"vmapped:{kind}:{sizes}"):
                if out.startswith("ERR"):
                    c.mismatch("slice-model-rejects", op=line[:300], model=out, desc=desc)
                    return
                got = parse_leaves(out.split(" | ")[0])
                if not same_leaves(got, want):
                    c.mismatch("slice-vs-individually-built", op=line[:300], model=got[:4], impl=want[:4], desc=desc)
            batch.add(f"pytree slice {i0} " + " ".join(Enc().enc(V, levels)), h_slice)
            c.case((kind, tuple(sizes), "slice", i), True)
        except Exception as ex:
            c.mismatch("harness-exception", desc=f"vmapped#{i}:{kind}", exc=repr(ex)[:300])
        c.count(f"vmapped-levels:{levels}")

    # B'. the GENERATED traversal on every vmapped kind with a bool / int / float mapped Lambda leaf, 1 and 2 levels (not left to chance)
    for kind in ("la_bool", "la_int", "la", "br_la"):
        for levels in (1, 2):
            try:
                kind, mk, x, y, sizes = vmapped_case(rng, levels, kind=kind)
                f = mk
                for _ in sizes:
                    f = eqx.filter_vmap(f)
                compare_generated(c, batch, f(x, y), f"vmapped-generated:{kind}:{sizes}", L=levels)
                c.count(f"generated-vmapped:{kind}")
            except Exception as ex:
                c.mismatch("harness-exception", desc=f"vmapped-generated:{kind}:{levels}", exc=repr(ex)[:300])

    # C0. the function non_trainable freezes every inexact leaf, also inside other wrappers (real code only)
    for v in non_trainable_fn_violations():
        c.mismatch("non_trainable-freezes-every-inexact-leaf", detail=v)
    c.case(("non_trainable-fn",), True)
    c.count("non_trainable-fn")
    # C. real flows: model partition / num_params / unwrap structure; methods; gradients; training
    key, k1, k2 = jr.split(key, 3)
    try:
        flows = small_flows(rng, k1)
        variants = [(name, flow, freeze_variants(name, flow, rng)) for name, flow in flows]
    except Exception as ex:
        c.mismatch("harness-exception", desc="building real flows", exc=repr(ex)[:300])
        flows, variants = [], []
    for name, flow, vs in variants:
        for vname, fz in vs:
            try:
                compare_tree(c, batch, fz, f"flow:{name}:{vname}", use_batch=False, rng=rng, nontrivial=True)
                compare_generated(c, batch, fz, f"flow:{name}:{vname}", use_batch=False)
                for v in grad_violations(fz, k2):
                    c.mismatch("gradient-of-frozen", desc=f"{name}:{vname}", detail=v)
                c.case((name, vname, "grad"), True)
            except Exception as ex:
                c.mismatch("harness-exception", desc=f"flow:{name}:{vname}", exc=repr(ex)[:300])
            c.count("real-flows")
    try:
        bn = B.BlockAutoregressiveNetwork(k1, dim=2, depth=1, block_dim=2)
        compare_tree(c, batch, bn, "BNAF-network", use_batch=False, rng=rng, nontrivial=True)
        compare_generated(c, batch, bn, "BNAF-network", use_batch=False)
        compare_tree(c, batch, eqx.tree_at(lambda b: b.layers[0][0].weight, bn, replace_fn=NonTrainable), "BNAF-network-frozen-weight", use_batch=False, rng=rng, nontrivial=True)
    except Exception as ex:
        c.mismatch("harness-exception", desc="BNAF-network", exc=repr(ex)[:300])

    runs = []
    for name, flow, vs in variants:
        for vname, fz in vs:
            for optname in OPTS:
                for loop in ("data", "vi"):
                    runs.append((name, vname, fz, optname, loop))
    if quick:
        # every flow x loop, every optimiser at least twice
        keep = []
        for j, r in enumerate(runs):
            if (j % 6) in ((j // 6) % 6, ((j // 6) + 3) % 6):
                keep.append(r)
        runs = keep[:10]
    for j, (name, vname, fz, optname, loop) in enumerate(runs):
        key, sub = jr.split(key)
        steps = rng.choice([1, 2, 3]) if quick else rng.choice([1, 2, 3, 5, 8])
        try:
            viol, info = train_violations(name, vname, fz, optname, loop, sub, steps)
            for v in viol:
                c.mismatch("training-moves-frozen", desc=f"{name}:{vname}:{optname}:{loop}:steps={steps}", detail=v)
            if info and info["moved_trainable"] == 0:
                c.notes.append(f"training run {name}:{vname}:{optname}:{loop} moved no trainable leaf")
            c.case((name, vname, optname, loop, steps), bool(info) and info["moved_trainable"] > 0 and info["n_frozen"] > 0,
                   sample={"run": f"{name}:{vname}:{optname}:{loop}:steps={steps}", "impl": info} if j < 3 else None)
        except Exception as ex:
            c.mismatch("harness-exception", desc=f"train:{name}:{vname}:{optname}:{loop}", exc=repr(ex)[:300])
        c.count(f"train:{loop}:{optname}")

    sd = rng.randrange(2 ** 30)
    for v in weightnorm_batched_violations(sd):
        c.mismatch("unwrap-batched-weightnorm-vs-slices", seed=sd, detail=v)
    c.case(("weightnorm-batched", sd), True)
    c.count("weightnorm-batched")
    # a leaf frozen before the bijection is wrapped in Vmap(in_axes=...) (Model/Tree: wrappers are nodes of the tree the constructor stores)
    for optname, loop in ((("adam", "data"),) if quick else (("adam", "data"), ("sgd-momentum", "vi"), ("adamw-decay", "data"))):
        key, sub = jr.split(key)
        try:
            viol, info = vmap_frozen_violations(sub, optname, loop)
            for v in viol:
                c.mismatch("training-moves-frozen", desc=f"vmap-frozen-inner:{optname}:{loop}", detail=v)
            c.case(("vmap-frozen-inner", optname, loop), info.get("trainable_moved", False))
        except Exception as ex:
            c.mismatch("harness-exception", desc=f"train:vmap-frozen-inner:{optname}:{loop}", exc=repr(ex)[:300])
        c.count("train:vmap-frozen-inner")

    # D. methods give the same result whether or not the caller unwrapped first; guard table
    key, k3, k4 = jr.split(key, 3)
    try:
        mobjs, dobjs = method_objects(rng, k3), dist_objects(rng, k4)
    except Exception as ex:
        c.mismatch("harness-exception", desc="building method objects", exc=repr(ex)[:300])
        mobjs, dobjs = [], []
    for name, b, cd in mobjs:
        try:
            for v in method_violations(name, b, cd, rng):
                c.mismatch("method-unwrap-invariance", desc=name, detail=v)
        except Exception as ex:
            c.mismatch("harness-exception", desc=f"method:{name}", exc=repr(ex)[:300])
        c.case((name, "methods"), True)
        c.count("bijection-methods", 4)
    for name, d in dobjs:
        try:
            for v in dist_violations(name, d, k4):
                c.mismatch("method-unwrap-invariance", desc=name, detail=v)
        except Exception as ex:
            c.mismatch("harness-exception", desc=f"dist:{name}", exc=repr(ex)[:300])
        c.case((name, "dist-methods"), True)
        c.count("distribution-methods", 4)
    for note in observations():
        c.notes.append(note)
    viol, n = guard_table_violations()
    for v in viol:
        c.mismatch("methods-begin-with-unwrap", detail=v)
    c.case(("guard-table", n), True)
    c.count("guard-table-entries", n)

    batch.run()

    # generated `.unwrap()` bodies (Gen/Wrappers.lean) against the real ones
    try:
        wrapgen.corr_generated(c, tier, rng)
    except vlib.ModelError:
        raise
    except Exception as ex:
        c.mismatch("harness-exception", desc="generated-bodies", exc=repr(ex)[:300])


# ------------------------------------------------------------------ witness search (real code only)
def tree_oracle(seed, depth):
    """C12's first sentence on one random real tree; returns violations"""
    rng = random.Random(seed)
    t = Gen(rng).tree(depth)
    enc = Enc()
    enc.enc(t)
    out = []
    LOG.clear()
    with jax.disable_jit(), count_kinds() as kc:
        u = unwrap(t)
        kinds = dict(kc)
    log1 = list(LOG)
    if has_wrappers(u):
        out.append("unwrap(t) contains a wrapper")
    if kinds != wrapper_kinds(t):
        out.append(f"unwrap calls per class {kinds} != wrapper nodes per class {wrapper_kinds(t)}")
    want = [v for v in wrapper_tags_postorder(enc, t) if v < 5000]
    if sorted(log1) != sorted(want):
        out.append(f"applied wrappers {sorted(log1)} != wrapper nodes {sorted(want)}")
    elif log1 != want:
        out.append("wrappers applied in an order other than inner-before-outer post-order")
    LOG.clear()
    with jax.disable_jit():
        uu = unwrap(u)
    if LOG or not trees_bitwise_equal(u, uu):
        out.append("unwrap is not idempotent")
    is_nt = lambda l: isinstance(l, NonTrainable)  # noqa: E731
    p, s = eqx.partition(t, eqx.is_inexact_array, is_leaf=is_nt)
    pl = {id(a) for a in real_leaves(p)}
    for a, f in frozen_real(t):
        if f and id(a) in pl:
            out.append("a frozen / non-float leaf is in the params half")
        if not f and id(a) not in pl:
            out.append("a trainable leaf is missing from the params half")
    ctor, n = get_ravelled_pytree_constructor(t)
    if n != sum(int(np.size(a)) for a, f in frozen_real(t) if not f):
        out.append("num_params counts a frozen leaf")
    if n:
        tv = ctor(jnp.asarray([rng.uniform(-2, 2) for _ in range(n)]))
        for (a, f), b in zip(frozen_real(t), real_leaves(tv)):
            if f and np.asarray(a).tobytes() != np.asarray(b).tobytes():
                out.append("constructor(v) moved a frozen leaf")
    return out


def search(hints, tier, rng):
    quick = tier == "quick"
    wit = []

    def add(key, **info):
        wit.append(dict(key=key, **info))
        return len(wit) >= 5
    for i in range(150 if quick else 1500):
        seed, depth = rng.randrange(2**40), rng.choice([1, 2, 3, 4])
        try:
            v = tree_oracle(seed, depth)
        except Exception as ex:
            v = ["exception " + repr(ex)[:200]]
        if v and add(f"tree|seed={seed}|depth={depth}", kind="tree", seed=seed, depth=depth, violations=v):
            return wit
    for i in range(20 if quick else 150):
        seed, levels = rng.randrange(2**40), rng.choice([1, 2])
        r = random.Random(seed)
        kind, mk, x, y, sizes = vmapped_case(r, levels)
        try:
            v = vmapped_violations(kind, mk, x, y, sizes)[2]
        except Exception as ex:
            v = ["exception " + repr(ex)[:200]]
        if v and add(f"vmapped|seed={seed}|levels={levels}", kind="vmapped", seed=seed, levels=levels, violations=v):
            return wit
    try:
        key = jr.PRNGKey(7)
        for name, b, cd in method_objects(random.Random(1), key):
            v = method_violations(name, b, cd, random.Random(2))
            if v and add(f"method|{name}", kind="method", name=name, violations=v):
                return wit
        for name, d in dist_objects(random.Random(1), key):
            v = dist_violations(name, d, key)
            if v and add(f"dist|{name}", kind="dist", name=name, violations=v):
                return wit
        v, _ = guard_table_violations()
        if v and add("guard-table|" + v[0], kind="guard", violations=v):
            return wit
        sd = rng.randrange(2 ** 30)
        v = weightnorm_batched_violations(sd)
        if v and add(f"weightnorm-batched|{v[0][:60]}", kind="weightnorm_batched", seed=sd, violations=v):
            return wit
        for optname, loop in (("adam", "data"), ("sgd-momentum", "vi")):
            v, _ = vmap_frozen_violations(jr.PRNGKey(3), optname, loop)
            if v and add(f"vmap-frozen|{optname}|{loop}", kind="vmap_frozen", opt=optname, loop=loop, violations=v):
                return wit
        v = non_trainable_fn_violations()
        if v and add("non_trainable_fn", kind="non_trainable_fn", violations=v):
            return wit
        flows = small_flows(random.Random(1), key)
        j = 0
        for name, flow in flows:
            for vname, fz in freeze_variants(name, flow, random.Random(1)):
                v = grad_violations(fz, key)
                if v and add(f"grad|{name}|{vname}", kind="grad", name=name, vname=vname, violations=v):
                    return wit
                for optname in OPTS:
                    for loop in ("data", "vi"):
                        j += 1
                        if quick and j % 5:
                            continue
                        v, _ = train_violations(name, vname, fz, optname, loop, jr.PRNGKey(j), 2)
                        if v and add(f"train|{name}|{vname}|{optname}|{loop}", kind="train", name=name, vname=vname, opt=optname, loop=loop, steps=2, seed=j, violations=v):
                            return wit
    except Exception as ex:
        add("exception|" + type(ex).__name__, kind="exception", violations=[repr(ex)[:300]])
    return wit


def replay(w):
    """True iff the witness still fails on the real code (an exception while re-evaluating counts as failing)"""
    try:
        return _replay(w)
    except Exception:
        return True


def where_under_vmap_violation():
    """`Where` built under filter_vmap with mixed-rank arguments: batched unwrap vs stack of per-slice unwraps"""
    import equinox as eqx
    from flowjax.wrappers import Where, unwrap
    c = jnp.asarray([[True, False, True], [False, True, True], [True, True, False]])
    s_ = jnp.asarray([1.0, 2.0, 3.0])
    batched = unwrap(eqx.filter_vmap(lambda c, s: Where(c, s, 0.0))(c, s_))
    per_slice = jnp.stack([unwrap(Where(c[i], s_[i], 0.0)) for i in range(3)])
    return not bool(jnp.array_equal(batched, per_slice))


def _replay(w):
    k = w.get("kind")
    key = jr.PRNGKey(7)
    if k == "where_under_vmap":
        return where_under_vmap_violation()
    if k == "exception":
        return bool(search({}, "quick", random.Random(0)))
    if k == "weightnorm_batched":
        return bool(weightnorm_batched_violations(w["seed"]))
    if k == "vmap_frozen":
        return bool(vmap_frozen_violations(jr.PRNGKey(3), w["opt"], w["loop"])[0])
    if k == "tree":
        return bool(tree_oracle(w["seed"], w["depth"]))
    if k == "vmapped":
        r = random.Random(w["seed"])
        kind, mk, x, y, sizes = vmapped_case(r, w["levels"])
        return bool(vmapped_violations(kind, mk, x, y, sizes)[2])
    if k == "method":
        for name, b, cd in method_objects(random.Random(1), key):
            if name == w["name"]:
                return bool(method_violations(name, b, cd, random.Random(2)))
    if k == "dist":
        for name, d in dist_objects(random.Random(1), key):
            if name == w["name"]:
                return bool(dist_violations(name, d, key))
    if k == "guard":
        return bool(guard_table_violations()[0])
    if k == "non_trainable_fn":
        return bool(non_trainable_fn_violations())
    if k in ("grad", "train"):
        for name, flow in small_flows(random.Random(1), key):
            for vname, fz in freeze_variants(name, flow, random.Random(1)):
                if name == w["name"] and vname == w["vname"]:
                    if k == "grad":
                        return bool(grad_violations(fz, key))
                    return bool(train_violations(name, vname, fz, w["opt"], w["loop"], jr.PRNGKey(w["seed"]), w["steps"])[0])
    return False
