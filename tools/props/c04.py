"""C04 — exp(log_prob) integrates to one over the sample space, and samples follow that density.

Tie: the theorems of Props/C04.lean are about the GENERATED `Transformed._log_prob/_sample`
(Gen/Dist.lean), the generated leaves (Gen/Leaves.lean) and `Chain` (Gen/Combinators.lean); those
definitions are tied to the implementation by C03's correspondence, which is re-run here.

`search` is the property's own oracle on the REAL code only: deterministic quadrature of
exp(log_prob) (1-D and 2-D) and a fixed-seed Kolmogorov-Smirnov comparison of `sample` against the
CDF obtained by cumulative quadrature of exp(log_prob), for every constructible factory and for
hand-built flows, both orientations, unconditional and conditional, with the trainable parameters
perturbed away from the identity initialisation.

Quadrature: trapezoid on a tail-covering graded grid — a uniform core ([-40,40] with 40k intervals in
1-D; [-12,12]^2 with 400^2 cells in 2-D, 800^2 in the thorough tier) continued geometrically to
|x| = 1e6 (an inverted BlockAutoregressiveNetwork with LeakyTanh(3) has slope ~0.01 outside the
activation's core, so its samples reach |x| ~ 500).  The tolerance is scaled by conditioning: to the
fixed tolerance (1e-4 in 1-D, 5e-3 in 2-D) we add an a-posteriori bound of the trapezoid error
(sum over nodes of |f - linear interpolant of the two neighbours| x node weight: ~6x the true error
where f is smooth, >= the true error across a jump of the density, which kinked layers produce).
A configuration whose bound exceeds `MAX_ALLOW` is reported as inconclusive (never as a witness).
"""
from __future__ import annotations

import math
import random

import equinox as eqx
import jax
import jax.numpy as jnp
import jax.random as jr
import numpy as np

import flowjax.bijections as B
from flowjax import flows
from flowjax.distributions import Normal, StandardNormal, Transformed
from flowjax.wrappers import NonTrainable

import fj
import vlib
from props import c01, c03

ID = "C04"
GEN = ["Dist", "Leaves", "Combinators", "Planar", "Params", "Misc", "Bnaf", "BnafGen"]
RULE = c03.RULE + (" [C04 re-runs C03's correspondence: the generated Transformed/leaf/Chain definitions its theorems are about are tied there; "
                   "the quadrature/KS oracle (search) runs on the real code when a tie breaks]")
TRUSTED = c03.TRUSTED + [
    "Mathlib's change-of-variables theorems (MeasureTheory.integral_image_eq_integral_abs_det_fderiv_smul and the 1-D variants)",
    "Proofs/MassFlow.lean layer predicates InvJac/FwdJac (1-D) and InvJacN/FwdJacN (d-D, finitely many measurable pieces) are hypotheses of the generic stack "
    "theorems; they are DISCHARGED in Lean for Affine/Scale/Loc/LeakyTanh/spline (1-D) and, in d dimensions, for affine Coupling, affine MaskedAutoregressive, "
    "Planar (tanh, leaky relu; fixed or condition-dependent parameters), BlockAutoregressiveNetwork, Flip and Permute, each in either orientation",
    "hand models the d-dimensional theorems are about: Model/Masks.lean + Model/NetInverse.lean (Coupling, MAF, BNAF forward / inverse / log-dets; tie: netinv.corr_net, "
    "re-run here), Model/BnafLd.lean (BNAF transform_and_log_det; tie: bnafld.corr_bnafld, re-run here), Model/Perm.lean (Permute) and the generated Flip "
    "(tie: corr_permutations here), Planar.getPlanar (tie: planar_tri.corr_planar)",
]
ASSUMPTIONS = [
    "PARTIAL: PRNG statistics (that jax.random.normal draws from the normal density) and IEEE rounding are outside the theorems",
    "BlockAutoregressiveNetwork's sampling direction uses the numerical inverter and Planar(tanh) implements no inverse: 'samples follow the density' is proved "
    "for the exact inverse (C10's tolerance bounds the inverter's distance from it); normalisation of the Invert(...) orientation involves the forward methods only",
    "MAF / Coupling: the conditioner's activation is assumed differentiable (tanh, softplus, gelu, ...); with the default relu the layer is differentiable off "
    "finitely many hyperplane preimages (a null set) — outside the theorems, covered by the quadrature oracle only",
    "only the Affine transformer is discharged for Coupling / MAF in d dimensions (spline transformers: 1-D theorems + oracle)",
    "block_neural_autoregressive_flow / triangular_spline_flow factories cannot be constructed in this environment; BlockAutoregressiveNetwork is hand-built instead",
]

TOL1, TOL2 = 1e-4, 5e-3
MAX_ALLOW1, MAX_ALLOW2 = 5e-3, 5e-2
KS_N = {"quick": 4000, "thorough": 100_000}


def ks_dkw(n):
    """DKW: P(sup|F_n - F| > eps) <= 2 exp(-2 n eps^2); false-alarm probability 1e-9"""
    return math.sqrt(math.log(2 / 1e-9) / (2 * n))


def corr_permutations(c, tier, rng):
    """Flip (generated) and Permute (Model/Perm.lean) on vectors, all four methods; the log-det both return is 0 (what PermMass.permuteBij / flipBij record)"""
    import itertools
    from vlib import fs2b, ints
    lines, wants, infos = [], [], []
    perms = [p for size in (1, 2, 3, 4) for p in itertools.permutations(range(size))]
    for _ in range(12 if tier == "quick" else 120):
        p = list(range(rng.choice([5, 6, 8, 12]))); rng.shuffle(p)
        perms.append(tuple(p))
    for p in perms:
        obj = B.Permute(np.asarray(p))
        xs = [rng.uniform(-3, 3) for _ in p]
        for d, m in (("f", "t"), ("i", "i")):
            lines.append(f"permute {d} {ints(p)} {fs2b(xs)}"); wants.append(c01.impl_line(obj, m, np.asarray(xs)))
            infos.append(dict(perm=p, method=m))
            c.case(("perm", p, m), list(p) != sorted(p))
        for m, f in (("tl", obj.transform_and_log_det), ("il", obj.inverse_and_log_det)):
            ld = float(f(jnp.asarray(xs))[1])
            c.case(("perm-ld", p, m), list(p) != sorted(p))
            if ld != 0.0:
                c.mismatch("permute-logdet-not-zero", perm=list(p), method=m, impl=ld)
        c.count("permute")
    for n in (1, 2, 3, 5):
        xs = [rng.uniform(-3, 3) for _ in range(n)]
        obj = B.Flip((n,))
        for m in fj.METHODS:
            lines.append(f"flip {m} {fs2b(xs)}"); wants.append(c01.impl_line(obj, m, np.asarray(xs)))
            infos.append(dict(flip=n, method=m))
            c.case(("flip", n, m, tuple(xs)), n > 1)
        c.count("flip")
    outs = vlib.run_model(lines)
    for line, got, want, info in zip(lines, outs, wants, infos):
        c01.compare(c, "permutation-layers-vs-impl", line, got, want, info)


def corr(c, tier, rng):
    c03.corr(c, tier, rng)
    # Planar layers (generated kernels incl. the invertibility constraint get_act_scale, get_planar for conditional layers) — the objects of
    # section 10 of Props/C04.lean
    from props import planar_tri
    planar_tri.corr_planar(c, tier, rng)
    # density path (transform_and_log_det / inverse_and_log_det) and sampling path (transform / inverse) of the network bijections are the same function
    from props import oracles
    oracles.corr_method_agreement(c, tier, rng, nested=False)
    # the hand models sections 8, 9, 11, 12 of Props/C04.lean are about: Coupling / MAF / BNAF forward, inverse and log-dets (Model/Masks, Model/NetInverse),
    # BNAF's own log-det computation (Model/BnafLd), Permute (Model/Perm) and the generated Flip
    from props import netinv, bnafld
    netinv.corr_net(c, tier, rng)
    bnafld.corr_bnafld(c, tier, rng)
    corr_permutations(c, tier, rng)


# ------------------------------------------------------------------ grids
def graded_axis(core, n_core, ratio, rmax=1e6):
    """uniform core [-core, core] with n_core intervals, then geometric growth to +-rmax"""
    h = 2 * core / n_core
    xs = -core + h * np.arange(n_core + 1)
    tail = []
    x, step = xs[-1], h
    while x < rmax:
        step = step * ratio
        x = x + step
        tail.append(x)
    tail = np.asarray(tail)
    return np.concatenate([-tail[::-1], xs, tail])


def density_fn(dist, cond, scalar=False, chunk=250_000):
    f = eqx.filter_jit(lambda p: dist.log_prob(p, cond))

    def fun(pts):
        pts = np.asarray(pts, float)
        out = []
        for i in range(0, len(pts), chunk):
            blk = pts[i:i + chunk]
            n = len(blk)
            # pad to a few fixed sizes so that jit does not recompile for every refinement round
            size = chunk if n > chunk // 8 else (chunk // 8 if n > chunk // 64 else chunk // 64)
            pad = np.zeros((size,) + blk.shape[1:]); pad[:n] = blk
            out.append(np.asarray(f(jnp.asarray(pad)))[:n])
        lp = np.concatenate(out) if out else np.zeros(0)
        lp = np.where(np.isnan(lp), -np.inf, lp)
        return np.exp(lp)
    return fun


def adaptive_1d(fun, nodes, target, max_rounds, max_evals):
    """adaptive trapezoid: every interval carries (f(a), f(mid), f(b)); its error indicator is
    |one-panel - two-panel| trapezoid; intervals above their share of `target` are bisected.
    Returns (integral, allowance = sum of indicators, sorted nodes, values, evaluations)."""
    a, b = nodes[:-1].copy(), nodes[1:].copy()
    fn = fun(nodes)
    fa, fb = fn[:-1].copy(), fn[1:].copy()
    fm = fun((a + b) / 2)
    evals = len(nodes) + len(a)
    for rnd in range(max_rounds + 1):
        w = b - a
        i1 = (fa + fb) / 2 * w
        i2 = (fa + 2 * fm + fb) / 4 * w
        err = np.abs(i1 - i2)
        if rnd == max_rounds or err.sum() <= target or evals >= max_evals:
            break
        sel = np.nonzero(err > target / (2 * len(err)))[0]
        if len(sel) == 0:
            break
        budget = max(1, (max_evals - evals) // 2)
        if len(sel) > budget:
            sel = sel[np.argsort(-err[sel])[:budget]]
        m = (a[sel] + b[sel]) / 2
        fl = fun((a[sel] + m) / 2)
        fr = fun((m + b[sel]) / 2)
        evals += 2 * len(sel)
        keep = np.ones(len(a), bool); keep[sel] = False
        a = np.concatenate([a[keep], a[sel], m]); b = np.concatenate([b[keep], m, b[sel]])
        fa, fb = np.concatenate([fa[keep], fa[sel], fm[sel]]), np.concatenate([fb[keep], fm[sel], fb[sel]])
        fm = np.concatenate([fm[keep], fl, fr])
    order = np.argsort(a)
    a, b, fa, fm, fb = a[order], b[order], fa[order], fm[order], fb[order]
    xs = np.empty(2 * len(a) + 1); fs = np.empty(2 * len(a) + 1)
    xs[0:-1:2], xs[1::2], xs[-1] = a, (a + b) / 2, b[-1]
    fs[0:-1:2], fs[1::2], fs[-1] = fa, fm, fb[-1]
    return float(i2.sum()), float(err.sum()), xs, fs, evals


def adaptive_2d(fun, nodes, target, max_rounds, max_evals):
    """adaptive tensor trapezoid on rectangles, each carrying its 3x3 lattice of density values;
    indicator |corner rule - 2x2 composite rule|.  Returns (integral, allowance, cells, evaluations)
    with cells = (x0, x1, y0, y1, mass)."""
    lat = np.empty(2 * len(nodes) - 1)
    lat[0::2], lat[1::2] = nodes, (nodes[:-1] + nodes[1:]) / 2
    X, Y = np.meshgrid(lat, lat, indexing="ij")
    F = fun(np.stack([X.ravel(), Y.ravel()], axis=1)).reshape(len(lat), len(lat))
    evals = F.size
    n = len(nodes) - 1
    ii, jj = np.meshgrid(np.arange(n), np.arange(n), indexing="ij")
    ii, jj = ii.ravel(), jj.ravel()
    x0, x1, y0, y1 = nodes[ii], nodes[ii + 1], nodes[jj], nodes[jj + 1]
    F3 = np.empty((n * n, 3, 3))
    for p in range(3):
        for q in range(3):
            F3[:, p, q] = F[2 * ii + p, 2 * jj + q]
    w3 = np.outer([1, 2, 1], [1, 2, 1]) / 16.0
    for rnd in range(max_rounds + 1):
        area = (x1 - x0) * (y1 - y0)
        i1 = (F3[:, 0, 0] + F3[:, 0, 2] + F3[:, 2, 0] + F3[:, 2, 2]) / 4 * area
        i2 = np.einsum("kpq,pq->k", F3, w3) * area
        err = np.abs(i1 - i2)
        if rnd == max_rounds or err.sum() <= target or evals >= max_evals:
            break
        sel = np.nonzero(err > target / (2 * len(err)))[0]
        if len(sel) == 0:
            break
        budget = max(1, (max_evals - evals) // 16)
        if len(sel) > budget:
            sel = sel[np.argsort(-err[sel])[:budget]]
        k = len(sel)
        gx = x0[sel, None] + (x1[sel] - x0[sel])[:, None] * np.arange(5) / 4
        gy = y0[sel, None] + (y1[sel] - y0[sel])[:, None] * np.arange(5) / 4
        F5 = np.empty((k, 5, 5))
        F5[:, 0::2, 0::2] = F3[sel]
        mask = np.ones((5, 5), bool); mask[0::2, 0::2] = False
        pi, qi = np.nonzero(mask)
        pts = np.stack([gx[:, pi].ravel(), gy[:, qi].ravel()], axis=1)
        F5[:, pi, qi] = fun(pts).reshape(k, len(pi))
        evals += len(pts)
        keep = np.ones(len(x0), bool); keep[sel] = False
        nx0, nx1, ny0, ny1, nF = [x0[keep]], [x1[keep]], [y0[keep]], [y1[keep]], [F3[keep]]
        for p in range(2):
            for q in range(2):
                nx0.append(gx[:, 2 * p]); nx1.append(gx[:, 2 * p + 2])
                ny0.append(gy[:, 2 * q]); ny1.append(gy[:, 2 * q + 2])
                nF.append(F5[:, 2 * p:2 * p + 3, 2 * q:2 * q + 3])
        x0, x1, y0, y1, F3 = map(np.concatenate, (nx0, nx1, ny0, ny1, nF))
    return float(i2.sum()), float(err.sum()), (x0, x1, y0, y1, i2), evals


def marginal_cdf(lo, hi, mass):
    """piecewise-linear CDF of the marginal obtained by spreading each cell's mass uniformly over [lo, hi]"""
    pts = np.concatenate([lo, hi])
    dens = np.concatenate([mass / (hi - lo), -mass / (hi - lo)])
    order = np.argsort(pts, kind="stable")
    pts, dens = pts[order], dens[order]
    slope = np.cumsum(dens)
    cdf = np.concatenate([[0.0], np.cumsum(slope[:-1] * np.diff(pts))])
    return pts, cdf


def ks_from_cdf(samples, x, cdf):
    s = np.sort(np.asarray(samples, float).ravel())
    n = len(s)
    F = np.interp(s, x, cdf)
    return float(max(np.max(np.arange(1, n + 1) / n - F), np.max(F - np.arange(0, n) / n)))


def mass_1d(dist, cond, tier, scalar):
    nodes = graded_axis(40.0, 20_000, 1.004)  # with the mid-points: 40k intervals on [-40,40]
    fun1 = density_fn(dist, cond)
    fun = (lambda p: fun1(p)) if scalar else (lambda p: fun1(np.asarray(p)[:, None]))
    quick = tier == "quick"
    total, allow, xs, fs, evals = adaptive_1d(fun, nodes, TOL1 / 4, 14 if quick else 22, 400_000 if quick else 3_000_000)
    edge = float(max(fs[0], fs[-1]) * abs(xs[-1]))
    return total, allow, edge, xs, fs, evals


def mass_2d(dist, cond, tier):
    quick = tier == "quick"
    nodes = graded_axis(12.0, 200 if quick else 400, 1.12 if quick else 1.06)  # with mid-points: 400^2 / 800^2 cells on [-12,12]^2
    fun = density_fn(dist, cond)
    total, allow, cells, evals = adaptive_2d(fun, nodes, TOL2 / 4, 8 if quick else 14, 2_000_000 if quick else 40_000_000)
    x0, x1, y0, y1, m = cells
    outer = (np.abs(x0) >= nodes[-2]) | (np.abs(x1) >= nodes[-2]) | (np.abs(y0) >= nodes[-2]) | (np.abs(y1) >= nodes[-2])
    edge = float(m[outer].sum())
    return total, allow, edge, cells, evals


# ------------------------------------------------------------------ configurations
def perturb(tree, rng, scale=0.3):
    """N(0, scale) noise on every trainable inexact leaf (NonTrainable sub-trees are constants of the
    architecture, e.g. the minimum scale of the affine transformer, and are left alone)."""
    is_nt = lambda l: isinstance(l, NonTrainable)
    params, static = eqx.partition(tree, eqx.is_inexact_array, is_leaf=is_nt)
    leaves, treedef = jax.tree_util.tree_flatten(params)
    new = []
    for l in leaves:
        noise = np.asarray([rng.gauss(0, scale) for _ in range(int(np.prod(l.shape)) or 1)]).reshape(l.shape)
        new.append(l + jnp.asarray(noise, l.dtype))
    return eqx.combine(jax.tree_util.tree_unflatten(treedef, new), static, is_leaf=is_nt)


def factory_configs(rng, tier):
    """(description, builder(key, cond_dim, invert)) for d = 1, 2"""
    out = []
    for d in (1, 2):
        base = lambda d=d: StandardNormal((d,))
        spl = lambda: B.RationalQuadraticSpline(knots=4, interval=3)
        if d >= 2:
            out.append((f"coupling_flow[Affine]|d={d}", d, lambda k, cd, inv, base=base: flows.coupling_flow(
                k, base_dist=base(), cond_dim=cd, flow_layers=2, nn_width=8, invert=inv)))
            out.append((f"coupling_flow[RQS]|d={d}", d, lambda k, cd, inv, base=base: flows.coupling_flow(
                k, base_dist=base(), cond_dim=cd, flow_layers=2, nn_width=8, invert=inv, transformer=spl())))
        out.append((f"masked_autoregressive_flow[Affine]|d={d}", d, lambda k, cd, inv, base=base: flows.masked_autoregressive_flow(
            k, base_dist=base(), cond_dim=cd, flow_layers=2, nn_width=8, invert=inv)))
        out.append((f"masked_autoregressive_flow[RQS]|d={d}", d, lambda k, cd, inv, base=base: flows.masked_autoregressive_flow(
            k, base_dist=base(), cond_dim=cd, flow_layers=2, nn_width=8, invert=inv, transformer=spl())))
        out.append((f"planar_flow[negative_slope=0.1]|d={d}", d, lambda k, cd, inv, base=base: flows.planar_flow(
            k, base_dist=base(), cond_dim=cd, flow_layers=2, invert=inv, negative_slope=0.1,
            **({"width_size": 8, "depth": 1} if cd else {}))))
        out.append((f"Invert(BlockAutoregressiveNetwork)|d={d}", d, lambda k, cd, inv, d=d: Transformed(
            StandardNormal((d,)),
            (B.Invert if inv else (lambda b: b))(B.BlockAutoregressiveNetwork(k, dim=d, cond_dim=cd, depth=1, block_dim=2)))))
    return out


def hand_1d(rng, i):
    """hand-built scalar / shape-(1,) flows over Normal or StandardNormal; returns (desc, dist, cond_used, scalar)"""
    kind = i % 6
    m = rng.choice([0.5, 1.0, 3.0])
    spline = fj.rqs(rng, rng.choice([2, 4, 6]), rng.choice([2.0, 3.0, (-1.0, 3.0)]), perturb=rng.choice([1.0, 2.0]))
    aff = fj.affine(rng.uniform(-2, 2), rng.choice([-1, 1]) * math.exp(rng.uniform(-1, 1)))
    leaky = B.LeakyTanh(m)
    base = Normal(rng.uniform(-1, 1), math.exp(rng.uniform(-0.7, 0.7))) if rng.random() < 0.5 else StandardNormal()
    cond = None
    if kind == 0:
        bij, desc = B.Chain([leaky, aff]), f"Chain[LeakyTanh({m}),Affine]"
    elif kind == 1:
        bij, desc = B.Chain([aff, spline]), "Chain[Affine,RQS]"
    elif kind == 2:
        bij, desc = B.Invert(B.Chain([spline, leaky, aff])), f"Invert(Chain[RQS,LeakyTanh({m}),Affine])"
    elif kind == 3:
        w, b0 = rng.uniform(-2, 2), rng.uniform(-1, 1)
        ac = B.AdditiveCondition(lambda c, w=w, b0=b0: jnp.tanh(w * c + b0), (), ())
        bij, desc = B.Chain([leaky, ac, spline]), f"Chain[LeakyTanh({m}),AdditiveCondition,RQS]"
        cond = "scalar"
    elif kind == 4:
        # shape (1,): Vmap of the scalar spline, Reshape of a scalar chain
        base = StandardNormal((1,))
        bij = B.Chain([B.Vmap(spline, axis_size=1), B.Reshape(B.Chain([leaky, aff]), (1,))])
        desc = f"Chain[Vmap(RQS,1),Reshape(Chain[LeakyTanh({m}),Affine],(1,))]"
    else:
        bij, desc = B.Invert(B.Chain([aff, B.Invert(spline), B.Invert(leaky)])), f"Invert(Chain[Affine,Invert(RQS),Invert(LeakyTanh({m}))])"
    return desc, Transformed(base, bij), cond, kind != 4


def check_1d(desc, dist, cond, scalar, tier, seed, do_ks=True, ks_extra=0.0):
    wit, info = [], {}
    total, allow, edge, x, f, evals = mass_1d(dist, cond, tier, scalar)
    info.update(mass=total, allow=allow, edge=edge, evals=evals)
    if not np.isfinite(total) or allow > MAX_ALLOW1 or edge > 1e-6:
        info["inconclusive"] = True
        return wit, info
    if abs(total - 1) > TOL1 + allow:
        wit.append(dict(key=f"{desc}|mass", desc=desc, law="integral of exp(log_prob) over the sample space = 1",
                        got=total, tolerance=TOL1 + allow))
    if do_ks:
        n = KS_N[tier]
        s = np.asarray(dist.sample(jr.PRNGKey(seed), (n,), condition=cond))
        cdf = np.concatenate([[0.0], np.cumsum((f[1:] + f[:-1]) / 2 * np.diff(x))])
        D = ks_from_cdf(s, x, cdf)
        thr = ks_dkw(n) + abs(total - 1) + allow + ks_extra
        info.update(ks=D, ks_thr=thr)
        if not (D <= thr):
            wit.append(dict(key=f"{desc}|ks", desc=desc, law="samples follow exp(log_prob) (Kolmogorov-Smirnov, DKW bound, false alarm < 1e-9)",
                            got=D, tolerance=thr))
    return wit, info


def check_2d(desc, dist, cond, tier, seed, do_ks=True):
    wit, info = [], {}
    total, allow, edge, cells, evals = mass_2d(dist, cond, tier)
    info.update(mass=total, allow=allow, edge=edge, evals=evals)
    if not np.isfinite(total) or allow > MAX_ALLOW2 or edge > 1e-5:
        info["inconclusive"] = True
        return wit, info
    if abs(total - 1) > TOL2 + allow:
        wit.append(dict(key=f"{desc}|mass", desc=desc, law="integral of exp(log_prob) over the sample space = 1",
                        got=total, tolerance=TOL2 + allow))
    if not do_ks:
        return wit, info
    # marginal KS for both coordinates (marginal densities by quadrature over the other coordinate)
    n = KS_N[tier]
    s = np.asarray(dist.sample(jr.PRNGKey(seed), (n,), condition=cond))
    x0, x1, y0, y1, m = cells
    for ax in (0, 1):
        D = ks_from_cdf(s[:, ax], *marginal_cdf(*((x0, x1) if ax == 0 else (y0, y1)), m))
        thr = ks_dkw(n) + abs(total - 1) + 2 * allow + 2e-3
        info[f"ks{ax}"] = D
        if not (D <= thr):
            wit.append(dict(key=f"{desc}|ks-marginal{ax}", desc=desc, law="samples follow exp(log_prob) (marginal Kolmogorov-Smirnov)",
                            got=D, tolerance=thr))
    return wit, info


def configurations(tier, rng):
    """yields (desc, kind, builder) — builder() -> (dist, cond, scalar); deterministic given rng"""
    for name, d, mk in factory_configs(rng, tier):
        for invert in (True, False):
            if "BlockAutoregressive" in name and not invert and d == 2 and tier == "quick":
                continue  # log_prob through the numerical inverter on a 2-D grid: thorough tier only
            for cd in (None, 2):
                seeds = (rng.randrange(1000), [rng.gauss(0, 1) for _ in range(4)], rng.randrange(2 ** 30))
                n_cond = (2 if (d == 1 or tier != "quick") else 1) if cd else 1  # quick: 2 conditions in 1-D, 1 in 2-D
                for ci in range(n_cond):
                    def build(mk=mk, invert=invert, cd=cd, seeds=seeds, ci=ci):
                        fl = perturb(mk(jr.PRNGKey(seeds[0]), cd, invert), random.Random(seeds[2]))
                        cond = jnp.asarray(seeds[1][2 * ci:2 * ci + 2]) if cd else None
                        return fl, cond, False
                    yield f"{name}|invert={invert}|cond={cd}#{ci}", d, build
    # conditional block autoregressive networks of depth 2 and 3 (the condition enters after the first layer only), both orientations
    for depth in (2, 3) if tier != "quick" else (2,):
        for inv in (True, False):
            s = rng.randrange(2 ** 30)

            def buildb(s=s, depth=depth, inv=inv):
                bn = perturb(B.BlockAutoregressiveNetwork(jr.PRNGKey(s % 1000), dim=1, cond_dim=1, depth=depth, block_dim=3), random.Random(s))
                return Transformed(StandardNormal((1,)), B.Invert(bn) if inv else bn), jnp.asarray([random.Random(s + 1).uniform(0.5, 2.0)]), False
            yield f"hand:BNAF(cond_dim=1,depth={depth})|invert={inv}", 1, buildb
    # planar layers with weights well away from the 0.01·N(0,1) initialisation (|w| up to 3): the invertibility constraint matters here
    for i in range(4 if tier == "quick" else 16):
        s = rng.randrange(2 ** 30)

        def buildp(s=s):
            r = random.Random(s)
            w = r.choice([-1, 1]) * r.uniform(1.5, 3.0)
            pl = eqx.tree_at(lambda p: p.params, B.Planar(jr.PRNGKey(0), dim=1, negative_slope=r.choice([0.1, 0.5, 1.0])),
                             jnp.asarray([w, r.uniform(-1, 1), r.uniform(-0.5, 0.5)]))
            return Transformed(StandardNormal((1,)), pl if r.random() < 0.5 else B.Invert(pl)), None, False
        yield f"hand:planar-large-w#{i}", 1, buildp
    n_hand = 12 if tier == "quick" else 60
    for i in range(n_hand):
        s = rng.randrange(2 ** 30)

        def build(i=i, s=s):
            r = random.Random(s)
            desc, dist, cond, scalar = hand_1d(r, i)
            return dist, (None if cond is None else jnp.asarray(r.uniform(-2, 2))), scalar
        desc = hand_1d(random.Random(s), i)[0]
        if hand_1d(random.Random(s), i)[2]:
            for ci in range(2):
                def build2(i=i, s=s, ci=ci):
                    r = random.Random(s)
                    desc, dist, cond, scalar = hand_1d(r, i)
                    return dist, jnp.asarray([-1.3, 0.8][ci]), scalar
                yield f"hand:{desc}#{i}|cond#{ci}", 1, build2
        else:
            yield f"hand:{desc}#{i}", 1, build
    # planar_flow with the default tanh activation, the orientation the factory builds (invert=True: log_prob uses the forward methods only;
    # the library implements no inverse, so only the mass is checked) — Props/C04.lean flowNd_planar_tanh_normalised.  Appended last so that the
    # random stream of every earlier configuration is unchanged.
    for d in (1, 2):
        for cd in (None, 2):
            s = rng.randrange(2 ** 30)

            def buildt(d=d, cd=cd, s=s):
                fl = flows.planar_flow(jr.PRNGKey(s % 1000), base_dist=StandardNormal((d,)), cond_dim=cd, flow_layers=2, invert=True,
                                       **({"width_size": 8, "depth": 1} if cd else {}))
                fl = perturb(fl, random.Random(s), scale=1.0)
                r = random.Random(s + 1)
                return fl, (jnp.asarray([r.uniform(-2, 2), r.uniform(-2, 2)]) if cd else None), False
            yield f"planar_flow[tanh]|d={d}|invert=True|cond={cd}|mass-only", d, buildt
    for i in range(2 if tier == "quick" else 8):
        s = rng.randrange(2 ** 30)

        def buildh(s=s):
            r = random.Random(s)
            w = [r.choice([-1, 1]) * r.uniform(1.5, 3.0), r.uniform(-3, 3)]
            u = [r.uniform(-3, 3), r.uniform(-3, 3)]
            pl = eqx.tree_at(lambda p: p.params, B.Planar(jr.PRNGKey(0), dim=2), jnp.asarray(w + u + [r.uniform(-1, 1)]))
            return Transformed(StandardNormal((2,)), B.Invert(pl)), None, False
        yield f"hand:planar-tanh-large-w#{i}|mass-only", 2, buildh


def evaluate(desc, d, build, tier, seed=0):
    dist, cond, scalar = build()
    bnaf = "BlockAutoregressive" in desc
    do_ks = "mass-only" not in desc  # Planar(tanh) implements no inverse: `sample` of Invert(Planar(tanh)) raises NotImplementedError by design
    if d == 1:
        return check_1d(desc, dist, cond, scalar, tier, seed, do_ks=do_ks, ks_extra=1e-3 if bnaf else 0.0)
    return check_2d(desc, dist, cond, tier, seed, do_ks=do_ks)


def search(hints, tier, rng, verbose=False):
    wit = []
    stats = dict(n=0, inconclusive=0)
    ms = rng.randrange(2 ** 62)
    for desc, d, build in configurations(tier, random.Random(ms)):
        try:
            w, info = evaluate(desc, d, build, tier)
        except Exception as ex:  # a constructible flow whose log_prob/sample raises is itself a finding
            w, info = [dict(key=f"{desc}|exception", desc=desc, exc=repr(ex)[:300])], {}
        stats["n"] += 1
        stats["inconclusive"] += bool(info.get("inconclusive"))
        if verbose:
            print(desc, {k: (round(v, 6) if isinstance(v, float) else v) for k, v in info.items()}, "WITNESS" if w else "", flush=True)
        for x in w:
            x.update(tier=tier, master_seed=ms)
        wit += w
        if len(wit) >= 5:
            break
    if verbose:
        print(stats)
    return wit[:5]


def replay(w):
    """rebuild the configuration named by the witness key and re-evaluate it on the real code"""
    tier = w.get("tier", "quick")
    desc0 = w["key"].rsplit("|", 1)[0]
    for desc, d, build in configurations(tier, random.Random(w["master_seed"])):
        if desc == desc0:
            try:
                ws, _ = evaluate(desc, d, build, tier)
            except Exception:
                return w["key"].endswith("|exception")
            return any(x["key"] == w["key"] for x in ws)
    return False
