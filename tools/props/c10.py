"""C10 — the bisection inverter finds the root of any increasing function.

Tie to the code:
  * every loop condition / body / prologue / epilogue of flowjax/bisection_search.py is REGENERATED from
    /repo (Gen/Bisection.lean: adaptInit, adaptCond, adaptBody, adaptExit, bisCond, bisBody, bisExit) and the
    theorems of Props/C10.lean are about those generated definitions;
  * the WHOLE functions (argument handling, guards, the call of the adaptation, both while_loops with their initial states, the scan
    with its closures, AutoregressiveBisectionInverter.__call__ / __check_init__) are ALSO regenerated (Gen/BisectionGen.lean, py2meth,
    world Model/BisectWorld.lean), proved equal to the hand model, and run HERE beside it (ops gbis / gar / ginv / garcheck): bit for bit
    against the hand model at Rat and Float, and against the real code in the same classes as the hand model;
  * the JAX combinators (lax.while_loop as fuel iteration, lax.scan with carry (y, i), the glue of
    _bisection_search / _autoregressive_bisection_search, the ValueError guards) are hand-modelled in
    Model/Bisection.lean and validated HERE: the model is run at exact `Rat` and at `Float` and compared with
    the real `_adapt_interval_to_include_root`, `_bisection_search`, `_autoregressive_bisection_search` and
    `AutoregressiveBisectionInverter` — bit-for-bit on the root, both iteration counts, the adapted bracket and
    (under jax.disable_jit(), through a recording callback) the whole sequence of evaluation points.

Exactness classes of a case (recorded in the distribution):
  exact   the Rat run and the Float run of the MODEL coincide on every printed quantity (the float run is
          rounding-free in effect): the real code must agree bit-for-bit with both;
  float   rounding occurs (e.g. tol below the float resolution at the root's magnitude, non-dyadic family):
          the real code must agree bit-for-bit with the Float model when run op-by-op (disable_jit, dyadic or
          polynomial family), otherwise on the root within the algorithm's own error bound.
"""
from __future__ import annotations

import math
from typing import ClassVar
from fractions import Fraction as Fr

import jax
import jax.numpy as jnp
import numpy as np

from flowjax.bisection_search import (
    AutoregressiveBisectionInverter,
    _adapt_interval_to_include_root,
    _autoregressive_bisection_search,
    _bisection_search,
)
from flowjax.bijections import AbstractBijection

import vlib
from vlib import f2b, b2f

ID = "C10"
GEN = ["Bisection", "BisectionGen"]
RULE = ("scalar searches: function family (lin a·x+b, pw kinked piecewise-linear, cubic, sinh, tanh-saturating) × "
        "initial bracket × root placement (inside, exactly on either end, on the first midpoint, on a later midpoint, "
        "just outside either end, exactly on an expansion end, ~1e6 away on either side) × tol 1e-2..1e-9 (and dyadic) × "
        "max_iter (0,1,2,5,30,200) × {disable_jit with recorded evaluation points, jitted}; autoregressive searches: "
        "dimension 1–6, own-coordinate lin/pw functions, strictly-lower-triangular linear and |·| couplings, preimages "
        "inside/outside/far from the bracket, through _autoregressive_bisection_search and through "
        "AutoregressiveBisectionInverter on a custom triangular bijection, Affine and TriangularAffine; guards "
        "(tol<=0, max_iter<0, lower>=upper). A case is non-trivial when the bracket had to be adapted, an exact hit "
        "occurred, max_iter cut the loop, the family is not linear, or the dimension is >= 2; distinct = distinct "
        "(function, bracket, tol, max_iter, mode) tuples")
TRUSTED = [
    "Lean 4.33 kernel; Mathlib v4.33; axioms propext, Classical.choice, Quot.sound",
    "py2lean translator + typing sheet tools/py2lean/targets_bisect.py (validated by this correspondence)",
    "py2meth translator + typing sheet tools/py2lean/targets_bisectgen.py: the WHOLE functions _adapt_interval_to_include_root, _bisection_search, "
    "_autoregressive_bisection_search, AutoregressiveBisectionInverter.__call__/__check_init__ regenerated as Gen/BisectionGen.lean and proved equal to "
    "Model/Bisection.lean (Proofs/BisectionGen.lean); trusted: Model/BisectWorld.lean (lax.while_loop = whileFuel with explicit fuel, lax.scan = left fold "
    "over range(length), jnp.full/.at[].set/indexing) — the generated definitions are run here beside the hand model (ops gbis/gar/ginv/garcheck)",
    "Prelude/Jnp.lean specs of where/sign/logical_and/getItem (validated by this correspondence)",
    "Model/Bisection.lean: lax.while_loop as fuel-indexed iteration, lax.scan as a recursion on the carry (y, i), glue of "
    "_bisection_search/_autoregressive_bisection_search, ValueError guards (hand-written, validated bit-for-bit here)",
    "theorems are over ℝ: float64 runs are compared exactly where rounding-free and otherwise measured; float resolution at "
    "the root's magnitude is outside the theorems (the property's own clause)",
]
ASSUMPTIONS = [
    "a root exists (the theorems assume f r = 0; continuity is what guarantees it for the property's functions); in floats, a "
    "function with no representable sign change makes the un-bounded adaptation loop run forever — outside the property",
    "autoregressive recovery: exact for an exact scalar solver (autoregressive_exact), per coordinate given exact earlier "
    "coordinates (autoregressive_coordinate), and |out_i - x_i| <= eps*(1+L/m)^i for the real bisection solver under slope >= m > 0, "
    "continuity and an l1-Lipschitz constant L in the earlier coordinates (autoregressive_bisection_error_bound); maps without "
    "such constants are only measured by the oracle",
    "float64 overflow: for |root| above ~2^1023 (float32: ~2^127) the midpoint (lower+upper)/2 overflows and the real code returns "
    "inf (observed, e.g. f(x)=x-8.9e307 on [-10,10]); outside the theorems over R and outside the harness's input family",
]

FUEL = 400
EPS = 2.0 ** -52


# ------------------------------------------------------------------ function families
def frs(x):
    """exact Fraction of a float / Fraction / int"""
    return x if isinstance(x, Fr) else Fr(x)


def rtok(x):
    x = frs(x)
    return f"{x.numerator}/{x.denominator}"


def is_f64(x: Fr) -> bool:
    try:
        return Fr(float(x)) == x
    except OverflowError:
        return False


def py_fn(fam, coef):
    """the real-code side: a jnp function with the same operation order as Drv.FnE.eval"""
    c = [float(v) for v in coef]
    if fam == "lin":
        a, b = c
        return lambda x: a * x + b
    if fam == "pw":
        x0, a1, a2, cc = c
        return lambda x: jnp.where(x < x0, a1 * (x - x0) + cc, a2 * (x - x0) + cc)
    if fam == "cubic":
        a, b, cc = c
        return lambda x: a * (x * x * x) + b * x + cc
    if fam == "sinh":
        a, b = c
        return lambda x: a * jnp.sinh(x) + b
    if fam == "tanh":
        a, b = c
        return lambda x: a * jnp.tanh(x) + b
    raise ValueError(fam)


def fn_tokens(fam, coef, mode):
    return [fam] + [(rtok(v) if mode == "R" else f2b(float(v))) for v in coef]


DYADIC_FAMS = ("lin", "pw")          # exactly representable, run at Rat and Float
POLY_FAMS = ("lin", "pw", "cubic")   # op-by-op float run is reproducible bit-for-bit


def make_fn(rng, fam, root, nondyadic=False):
    """(coef, true_root) with the requested root (exact for lin/pw unless `nondyadic`: then the slope is a
    non-dyadic decimal, the constant is rounded to float64 and the float run is NOT rounding-free)"""
    root = frs(root)
    if fam == "lin":
        a = Fr(rng.choice([1, 1, 2, 3, 5, 1, 3, 7]), rng.choice([1, 2, 4, 8]))
        if nondyadic:
            a = Fr(rng.choice([0.1, 0.3, 1.7, 2.9]))
            b = Fr(float(-a * root))
            return [a, b], -b / a
        return [a, -a * root], root
    if fam == "pw":
        a1 = Fr(rng.choice([1, 2, 3, 1]), rng.choice([1, 2, 4]))
        a2 = Fr(rng.choice([1, 3, 5, 8]), rng.choice([1, 2, 16]))
        x0 = root + Fr(rng.choice([-3, -1, 0, 1, 2, 5]), rng.choice([1, 2, 4]))
        # f(x) = c + slope(x)·(x − x0); root < x0 uses a1, else a2
        c = -(a1 if root < x0 else a2) * (root - x0)
        return [x0, a1, a2, c], root
    if fam == "cubic":
        a = Fr(rng.choice([1, 1, 2, 3]), rng.choice([1, 4, 16]))
        b = Fr(rng.choice([1, 2, 1]), rng.choice([1, 2]))
        c = -(a * root ** 3 + b * root)
        return [a, b, c], root
    if fam == "sinh":
        a = rng.choice([0.5, 1.0, 2.0, 0.3])
        r = float(root)
        return [a, -a * math.sinh(r)], Fr(r)
    if fam == "tanh":
        a = rng.choice([1.0, 2.0, 0.7])
        r = float(root)
        return [a, -a * math.tanh(r)], Fr(r)
    raise ValueError(fam)


BRACKETS = [(-10, 10), (-1, 1), (Fr(1, 2), 3), (-8, -6), (100, 228), (0, Fr(1, 8)), (-3, 5), (Fr(-5, 4), Fr(-1, 4))]
TOLS = [1e-2, 1e-3, 1e-5, 1e-7, 1e-9, 2.0 ** -10, 2.0 ** -20]
MAXITERS = [0, 1, 2, 5, 30, 200, 200, 200]
PLACEMENTS = ["inside", "inside", "lower_end", "upper_end", "mid0", "midk", "just_above", "just_below",
              "expand_hit_up", "expand_hit_down", "far_up", "far_down", "outside_up", "outside_down"]


def place_root(rng, lo, hi, how):
    lo, hi = frs(lo), frs(hi)
    w = hi - lo
    if how == "inside":
        return lo + w * Fr(rng.randrange(1, 2 ** 12), 2 ** 12)
    if how == "lower_end":
        return lo
    if how == "upper_end":
        return hi
    if how == "mid0":
        return (lo + hi) / 2
    if how == "midk":
        k = rng.randrange(2, 9)
        return lo + w * Fr(2 * rng.randrange(0, 2 ** (k - 1)) + 1, 2 ** k)
    if how == "just_above":
        return hi + w * Fr(1, 2 ** rng.choice([3, 10, 20]))
    if how == "just_below":
        return lo - w * Fr(1, 2 ** rng.choice([3, 10, 20]))
    if how == "expand_hit_up":
        return hi + w * (2 ** rng.randrange(1, 6) - 1)
    if how == "expand_hit_down":
        return lo - w * (2 ** rng.randrange(1, 6) - 1)
    if how == "far_up":
        return Fr(10 ** 6) + Fr(rng.randrange(0, 2 ** 8), 2 ** 4)
    if how == "far_down":
        return -Fr(10 ** 6) - Fr(rng.randrange(0, 2 ** 8), 2 ** 4)
    if how == "outside_up":
        return hi + w * Fr(rng.randrange(1, 2 ** 10), 2 ** 4)
    if how == "outside_down":
        return lo - w * Fr(rng.randrange(1, 2 ** 10), 2 ** 4)
    raise ValueError(how)


def adapt_iterations_formula(root: Fr, lo: Fr, hi: Fr) -> int:
    """N = clog2(ceil(d/(hi-lo)) + 1) of the theorems (exact arithmetic)"""
    d = max(lo - root, root - hi)
    u = max(0, math.ceil(d / (hi - lo)))
    n = 0
    while 2 ** n < u + 1:
        n += 1
    return n


# ------------------------------------------------------------------ real-code runners
def real_scalar(fam, coef, lower, upper, tol, mi, jit, as_array=True):
    """returns dict(root, ai, it, lo0, hi0, ai0, adapt_pts, search_pts) from the real functions"""
    f = py_fn(fam, coef)
    lo_arg = jnp.asarray(float(lower)) if as_array else float(lower)
    hi_arg = jnp.asarray(float(upper)) if as_array else float(upper)
    if jit:
        lo0, hi0, ai0 = _adapt_interval_to_include_root(f, lower=lo_arg, upper=hi_arg)
        root, ai, it = _bisection_search(f, lower=lo_arg, upper=hi_arg, tol=tol, max_iter=mi)
        return dict(root=float(root), ai=int(ai), it=int(it), lo0=float(lo0), hi0=float(hi0), ai0=int(ai0),
                    adapt_pts=None, search_pts=None)
    pts = []

    def func(x):
        pts.append(float(x))
        return f(x)

    with jax.disable_jit():
        lo0, hi0, ai0 = _adapt_interval_to_include_root(func, lower=lo_arg, upper=hi_arg)
        apts = list(pts)
        pts.clear()
        root, ai, it = _bisection_search(func, lower=lo_arg, upper=hi_arg, tol=tol, max_iter=mi)
    return dict(root=float(root), ai=int(ai), it=int(it), lo0=float(lo0), hi0=float(hi0), ai0=int(ai0),
                adapt_pts=apts, search_pts=list(pts))


def parse_bis(out, mode):
    """model `bis` line -> dict or a status string"""
    t = out.split(" ")
    if t[0] != "ok":
        return out
    if mode == "R":
        num = lambda s: Fr(s)
        lst = lambda s: [] if s == "-" else [Fr(v) for v in s.split(",")]
    else:
        num = lambda s: b2f(s)
        lst = lambda s: [] if s == "-" else [b2f(v) for v in s.split(",")]
    return dict(root=num(t[1]), ai=int(t[2]), it=int(t[3]), lo0=num(t[4]), hi0=num(t[5]), lo1=num(t[6]), hi1=num(t[7]),
                adapt_pts=lst(t[8]), bis_pts=lst(t[9]))


def same_float(a: float, b: float) -> bool:
    if math.isnan(a) or math.isnan(b):
        return math.isnan(a) and math.isnan(b)
    return a == b


def rat_equals_float(r: dict, f: dict) -> bool:
    """does the Rat run coincide with the Float run on every printed quantity?"""
    try:
        if (r["ai"], r["it"]) != (f["ai"], f["it"]):
            return False
        for k in ("root", "lo0", "hi0", "lo1", "hi1"):
            if not math.isfinite(f[k]) or Fr(f[k]) != r[k]:
                return False
        for k in ("adapt_pts", "bis_pts"):
            if len(r[k]) != len(f[k]) or any((not math.isfinite(y)) or Fr(y) != x for x, y in zip(r[k], f[k])):
                return False
        return True
    except (OverflowError, ValueError):
        return False


def err_bound(tol, w, mi):
    return max(tol, w / 2.0 ** (mi + 1))


# ------------------------------------------------------------------ scalar correspondence
def scalar_cases(rng, n_dyadic, n_other):
    cases = []
    for k in range(n_dyadic):
        fam = rng.choice(["lin", "lin", "pw"])
        lo, hi = rng.choice(BRACKETS)
        how = PLACEMENTS[k % len(PLACEMENTS)] if k < 4 * len(PLACEMENTS) else rng.choice(PLACEMENTS)
        root = place_root(rng, lo, hi, how)
        coef, root = make_fn(rng, fam, root, nondyadic=(k % 10 == 9))
        tol = TOLS[(k // 3) % len(TOLS)] if k < 60 else rng.choice(TOLS)
        mi = MAXITERS[(k // 2) % len(MAXITERS)] if k < 60 else rng.choice(MAXITERS)
        cases.append(dict(fam=fam, coef=coef, root=root, lower=frs(lo), upper=frs(hi), tol=tol, mi=mi, how=how))
    for k in range(n_other):
        fam = ["cubic", "sinh", "tanh", "cubic"][k % 4]
        lo, hi = rng.choice(BRACKETS[:4] + [(-10, 10)])
        if fam == "tanh":
            how = rng.choice(["inside", "just_above", "just_below", "mid0", "outside_up"])
            root = max(Fr(-6), min(Fr(6), place_root(rng, lo, hi, how)))  # a·tanh saturates: keep a float sign change
        elif fam == "sinh":
            how = rng.choice(["inside", "just_above", "just_below", "outside_up", "outside_down", "lower_end"])
            root = max(Fr(-300), min(Fr(300), place_root(rng, lo, hi, how)))
        else:
            how = rng.choice(PLACEMENTS)
            root = place_root(rng, lo, hi, how)
        coef, root = make_fn(rng, fam, root)
        cases.append(dict(fam=fam, coef=coef, root=root, lower=frs(lo), upper=frs(hi), tol=rng.choice(TOLS),
                          mi=rng.choice([0, 3, 30, 200, 200]), how=how))
    return cases


def bis_line(case, mode):
    if mode == "R":
        num = rtok
    else:
        num = lambda v: f2b(float(v))
    return " ".join(["bis", mode, num(case["lower"]), num(case["upper"]), num(Fr(case["tol"])), str(case["mi"]), str(FUEL)]
                    + fn_tokens(case["fam"], case["coef"], mode))


def gen_line(line):
    """the same op on the GENERATED whole functions (`bis` -> `gbis`, `ar` -> `gar`, `archeck` -> `garcheck`)"""
    return "g" + line


def check_gen_scalar(c, info, real, bitwise, jit, out_model, out_gen, mode):
    """generated `_bisection_search` / `_adapt_interval_to_include_root` beside the hand model (bit for bit: root, both counts, adapted
    bracket) and, in the bitwise classes, against the real code"""
    if out_gen is None:
        return
    c.count(f"generated:scalar:{mode}")
    mt, gt = out_model.split(" "), out_gen.split(" ")
    if mt[0] != "ok" or gt[0] != "ok":
        if mt[0] != gt[0]:
            c.mismatch("generated-vs-model-scalar", mode=mode, model=out_model[:120], generated=out_gen[:120], **info)
        return
    if mt[1:6] != gt[1:6] or gt[2] != gt[6]:
        c.mismatch("generated-vs-model-scalar", mode=mode, model=mt[1:6], generated=gt[1:7], **info)
    if mode == "F" and bitwise:
        ok = (same_float(real["root"], b2f(gt[1])) and real["ai"] == int(gt[2]) and real["it"] == int(gt[3])
              and same_float(real["lo0"], b2f(gt[4])) and same_float(real["hi0"], b2f(gt[5])) and real["ai0"] == int(gt[6]))
        if not ok:
            c.mismatch("generated-vs-impl-scalar-bitwise", generated=[b2f(gt[1]), gt[2], gt[3], b2f(gt[4]), b2f(gt[5]), gt[6]],
                       impl=dict(root=real["root"], ai=real["ai"], it=real["it"], lo0=real["lo0"], hi0=real["hi0"], ai0=real["ai0"]), **info)


def check_scalar(c, case, jit, outR, outF, goutR=None, goutF=None):
    fam, tol, mi = case["fam"], case["tol"], case["mi"]
    info = dict(fam=fam, coef=[str(v) for v in case["coef"]], lower=str(case["lower"]), upper=str(case["upper"]), tol=tol,
                max_iter=mi, placement=case["how"], jit=jit)
    real = real_scalar(fam, case["coef"], case["lower"], case["upper"], tol, mi, jit, as_array=case.get("as_array", True))
    mF = parse_bis(outF, "F")
    if isinstance(mF, str):
        c.mismatch("model-did-not-return", model=mF, impl=real, **info)
        return
    mR = parse_bis(outR, "R") if outR is not None else None
    if isinstance(mR, str):
        c.mismatch("model-did-not-return", model=mR, impl=real, **info)
        return
    exact = mR is not None and rat_equals_float(mR, mF)
    cls = "exact" if exact else "float"
    c.count(f"scalar:{cls}:{'jit' if jit else 'nojit'}")
    c.count("placement:" + case["how"])
    c.count("family:" + fam)
    nontrivial = real["ai"] > 0 or fam != "lin" or real["it"] == mi or (mF["lo1"] == mF["hi1"])
    sig = (fam, tuple(str(v) for v in case["coef"]), str(case["lower"]), str(case["upper"]), tol, mi, jit)
    sample = None
    if real["ai"] > 0 and not jit and real["it"] > 2:
        sample = dict(op=bis_line(case, "R")[:160], model_R=outR[:200] if outR else None,
                      impl=dict(root=real["root"], adapt_iterations=real["ai"], iterations=real["it"],
                                bracket=[real["lo0"], real["hi0"]], eval_points=(real["search_pts"] or [])[:12]))
    c.case(sig, nontrivial, sample=sample)
    # the two real entry points agree with each other
    if real["ai0"] != real["ai"]:
        c.mismatch("adapt-iterations-differ-between-entry-points", impl=real, **info)
    bitwise = exact or (not jit and fam in POLY_FAMS)
    check_gen_scalar(c, info, real, bitwise, jit, outF, goutF, "F")
    if outR is not None:
        check_gen_scalar(c, info, real, False, jit, outR, goutR, "R")
    if bitwise:
        ok = (same_float(real["root"], mF["root"]) and real["ai"] == mF["ai"] and real["it"] == mF["it"]
              and same_float(real["lo0"], mF["lo0"]) and same_float(real["hi0"], mF["hi0"]))
        if ok and not jit:
            ok = (len(real["adapt_pts"]) == len(mF["adapt_pts"]) and all(same_float(a, b) for a, b in zip(real["adapt_pts"], mF["adapt_pts"]))
                  and len(real["search_pts"]) == len(mF["adapt_pts"]) + len(mF["bis_pts"])
                  and all(same_float(a, b) for a, b in zip(real["search_pts"], mF["adapt_pts"] + mF["bis_pts"])))
        if not ok:
            c.mismatch("bisection-model-vs-impl-bitwise", exact_class=exact,
                       model=dict(root=mF["root"], ai=mF["ai"], it=mF["it"], lo0=mF["lo0"], hi0=mF["hi0"],
                                  adapt_pts=mF["adapt_pts"][:20], bis_pts=mF["bis_pts"][:20]),
                       impl=dict(root=real["root"], ai=real["ai"], it=real["it"], lo0=real["lo0"], hi0=real["hi0"],
                                 adapt_pts=(real["adapt_pts"] or [])[:20], search_pts=(real["search_pts"] or [])[:40]), **info)
    else:
        # both runs are within the algorithm's bound of the root w.r.t. their own adapted bracket (an exact hit of an
        # end may be seen by one libm and not by the other)
        w = max(abs(mF["hi0"] - mF["lo0"]), abs(real["hi0"] - real["lo0"]))
        mag = max(abs(mF["hi0"]), abs(mF["lo0"]), abs(real["hi0"]), abs(real["lo0"]), 1.0)
        slack = 2 * err_bound(tol, w, mi) + 64 * EPS * mag
        if not (math.isfinite(real["root"]) and abs(real["root"] - mF["root"]) <= slack):
            c.mismatch("bisection-model-vs-impl-root", model=mF["root"], impl=real["root"], slack=slack, **info)
    if exact:
        # the exact-arithmetic iteration count of the theorems
        n = adapt_iterations_formula(case["root"], case["lower"], case["upper"])
        if n != real["ai"]:
            c.mismatch("adapt-iterations-vs-theorem-bound", formula=n, impl=real["ai"], **info)
        wR = mR["hi0"] - mR["lo0"]
        if abs(mR["root"] - case["root"]) > max(Fr(tol), wR / 2 ** (mi + 1)):
            c.mismatch("model-violates-bisect_result", model=str(mR["root"]), root=str(case["root"]), **info)


def corr(c, tier, rng):
    quick = tier == "quick"
    cases = scalar_cases(rng, 150 if quick else 1500, 36 if quick else 300)
    # python scalars instead of arrays for the bounds in a few cases
    for i, cs in enumerate(cases):
        cs["as_array"] = (i % 7 != 3)
    jit_idx = set(range(0, len(cases), 8 if quick else 5))
    lines, slots, gslots = [], [], []
    for i, cs in enumerate(cases):
        r = gr = None
        if cs["fam"] in DYADIC_FAMS or cs["fam"] == "cubic":
            r = len(lines)
            lines.append(bis_line(cs, "R"))
            gr = len(lines)
            lines.append(gen_line(bis_line(cs, "R")))
        f = len(lines)
        lines.append(bis_line(cs, "F"))
        gf = len(lines)
        lines.append(gen_line(bis_line(cs, "F")))
        slots.append((r, f))
        gslots.append((gr, gf))
    ar_cases = ar_make_cases(rng, 18 if quick else 200, max_inverter_dim=3 if quick else 6)
    ar_slots = []
    for ac in ar_cases:
        r = len(lines)
        lines.append(ar_line(ac, "R"))
        f = len(lines)
        lines.append(ar_line(ac, "F"))
        gr = len(lines)
        lines.append(gen_line(ar_line(ac, "R")))
        gf = len(lines)
        lines.append(gen_line(ar_line(ac, "F")))
        ir = len(lines)
        lines.append(ginv_line(ac, "R"))
        jf = len(lines)
        lines.append(ginv_line(ac, "F"))
        ar_slots.append((r, f, gr, gf, ir, jf))
    lib_cases = lib_make_cases(rng, 6 if quick else 40)
    lib_slots = []
    for lc in lib_cases:
        lib_slots.append(len(lines))
        lines.append(lib_line(lc))
    guard_cases = guard_make_cases(rng)
    g_slots = []
    for g in guard_cases:
        g_slots.append(len(lines))
        lines.append(g["line"])
        lines.append(gen_line(g["line"]))
    outs = vlib.run_model(lines, timeout=1200)
    for i, (cs, (r, f), (gr, gf)) in enumerate(zip(cases, slots, gslots)):
        check_scalar(c, cs, i in jit_idx, outs[r] if r is not None else None, outs[f], outs[gr] if gr is not None else None, outs[gf])
    for k, (ac, (r, f, gr, gf, ir, jf)) in enumerate(zip(ar_cases, ar_slots)):
        check_ar(c, ac, outs[r], outs[f], jit=((k // 4) % 3 == 1 and (not quick or ac["n"] <= 4)),
                 gen=dict(R=outs[gr], F=outs[gf], invR=outs[ir], invF=outs[jf]))
    for lc, sl in zip(lib_cases, lib_slots):
        check_lib(c, lc, outs[sl])
    for g, s in zip(guard_cases, g_slots):
        check_guard(c, g, outs[s], outs[s + 1])
    c.notes.append("exact class = Rat model and Float model coincide on root, counts, brackets and all evaluation points; "
                   "in that class the real float64 run is compared bit-for-bit with the exact-arithmetic (Rat) instance the theorems speak about")


# ------------------------------------------------------------------ autoregressive correspondence
class TriMap(AbstractBijection):
    """A triangular map as a user-defined bijection (public extension point): only `transform` and `shape` are
    used by AutoregressiveBisectionInverter."""
    fn: object
    shape: tuple
    cond_shape: ClassVar[None] = None

    def __init__(self, fn, n):
        self.fn = fn
        self.shape = (n,)

    def transform(self, x, condition=None):
        return self.fn(x)

    def transform_and_log_det(self, x, condition=None):
        return self.fn(x), jnp.zeros(())

    def inverse(self, y, condition=None):
        raise NotImplementedError

    def inverse_and_log_det(self, y, condition=None):
        raise NotImplementedError


def ar_py_fn(n, fams, coefs, L, M):
    """the real-code side of Drv.arFn, vectorised over the output index i: the own-coordinate functions are evaluated as
    one `pw` (lin a b = pw 0 a a b: a·(x−0)+b is the same float as a·x+b) and the couplings are accumulated left to right in j
    exactly like the model (entries with j >= i are +0.0, which leaves every float unchanged)."""
    assert all(fm in ("lin", "pw") for fm in fams)
    P = [([0.0, float(cf[0]), float(cf[0]), float(cf[1])] if fm == "lin" else [float(v) for v in cf]) for fm, cf in zip(fams, coefs)]
    x0, a1, a2, cc = (jnp.asarray([p[k] for p in P]) for k in range(4))
    Lc = [jnp.asarray([float(L[i][j]) if j < i else 0.0 for i in range(n)]) for j in range(n)]
    Mc = [jnp.asarray([float(M[i][j]) if j < i else 0.0 for i in range(n)]) for j in range(n)]
    used = [j for j in range(n) if any(L[i][j] != 0 or M[i][j] != 0 for i in range(j + 1, n))]

    def fn(x):
        acc = jnp.where(x < x0, a1 * (x - x0) + cc, a2 * (x - x0) + cc)
        for j in used:
            acc = acc + (Lc[j] * x[j] + Mc[j] * jnp.abs(x[j]))
        return acc
    return fn


def ar_exact_eval(n, fams, coefs, L, M, xs):
    """exact value of the map at a Fraction vector (lin/pw only)"""
    out = []
    for i in range(n):
        cf = coefs[i]
        if fams[i] == "lin":
            v = cf[0] * xs[i] + cf[1]
        else:
            x0, a1, a2, cc = cf
            v = (a1 if xs[i] < x0 else a2) * (xs[i] - x0) + cc
        for j in range(i):
            v += L[i][j] * xs[j] + M[i][j] * abs(xs[j])
        out.append(v)
    return out


def ar_make_cases(rng, count, max_inverter_dim=6):
    cases = []
    for k in range(count):
        n = 1 + (k % 6)
        lo, hi = rng.choice(BRACKETS[:4] + [(-10, 10), (-10, 10)])
        style = ["inside", "mixed", "exact", "far"][k % 4]
        xs, fams, coefs = [], [], []
        L = [[Fr(0)] * n for _ in range(n)]
        M = [[Fr(0)] * n for _ in range(n)]
        for i in range(n):
            how = {"inside": "inside", "mixed": rng.choice(PLACEMENTS), "exact": rng.choice(["mid0", "midk", "lower_end", "upper_end", "expand_hit_up"]),
                   "far": rng.choice(["far_up", "far_down", "outside_up", "inside"])}[style]
            xs.append(place_root(rng, lo, hi, how))
            for j in range(i):
                if rng.random() < 0.75:
                    L[i][j] = Fr(rng.choice([-2, -1, 1, 1, 3]), rng.choice([1, 2, 4]))
                if rng.random() < 0.4:
                    M[i][j] = Fr(rng.choice([-1, 1, 1]), rng.choice([1, 2, 8]))
        nondy = (k % 8 == 5)
        if nondy:
            for i in range(1, n):
                L[i][0] = Fr(0.7)
        for i in range(n):
            fam = rng.choice(["lin", "lin", "pw"])
            cf, _ = make_fn(rng, fam, xs[i], nondyadic=nondy)
            fams.append(fam)
            coefs.append(cf)
        # shift the own-coordinate constant so that the map vanishes at xs (exactly, unless non-dyadic: then it is
        # rounded to float64 and the case lands in the `float` class)
        val = ar_exact_eval(n, fams, coefs, L, M, xs)
        for i in range(n):
            coefs[i][-1] = coefs[i][-1] - val[i]
            if nondy:
                coefs[i][-1] = Fr(float(coefs[i][-1]))
        assert nondy or all(v == 0 for v in ar_exact_eval(n, fams, coefs, L, M, xs))
        tol = rng.choice([1e-2, 1e-3, 1e-5, 1e-7, 2.0 ** -12]) if style != "far" else rng.choice([1e-2, 1e-3, 2.0 ** -8, 1e-9])
        mi = rng.choice([200, 200, 200, 30, 3, 0])
        via = ["search", "inverter", "search", "inverter_y"][k % 4]
        if n > max_inverter_dim:
            via = "search"   # the user-bijection wrapper is slow op-by-op in high dimension: keep the quick tier quick
        cases.append(dict(n=n, fams=fams, coefs=coefs, L=L, M=M, xs=xs, lower=frs(lo), upper=frs(hi), tol=tol, mi=mi, via=via, style=style, nondyadic=nondy,
                          intb=(k % 3 == 1)))
    return cases


def ar_line(ac, mode):
    num = rtok if mode == "R" else (lambda v: f2b(float(v)))
    toks = ["ar", mode, num(ac["lower"]), num(ac["upper"]), num(Fr(ac["tol"])), str(ac["mi"]), str(FUEL), str(ac["n"])]
    for fm, cf in zip(ac["fams"], ac["coefs"]):
        toks += fn_tokens(fm, cf, mode)
    toks.append(",".join(num(v) for row in ac["L"] for v in row))
    toks.append(",".join(num(v) for row in ac["M"] for v in row))
    return " ".join(toks)


def inverter_offset(ac):
    """(coefs of the bijection's transform, y): via `inverter_y` the transform is map + y0 (dyadic y0) inverted at y = y0, otherwise the map at y = 0"""
    n = ac["n"]
    if ac["via"] == "inverter_y":
        y0 = [Fr(i + 1, 2) for i in range(n)]
        coefs = [list(cf) for cf in ac["coefs"]]
        for i in range(n):
            coefs[i][-1] = coefs[i][-1] + y0[i]
        return coefs, y0
    return [list(cf) for cf in ac["coefs"]], [Fr(0)] * n


def ginv_line(ac, mode):
    """generated `AutoregressiveBisectionInverter.__check_init__` + `.__call__(bijection, y)`: `fn(x) = bijection.transform(x, None) - y` is
    evaluated by the GENERATED closure (one more float subtraction per evaluation, exactly as in the real `__call__`)"""
    num = rtok if mode == "R" else (lambda v: f2b(float(v)))
    coefs, y = inverter_offset(ac)
    toks = ["ginv", mode, num(ac["lower"]), num(ac["upper"]), num(Fr(ac["tol"])), str(ac["mi"]), str(FUEL), str(ac["n"])]
    for fm, cf in zip(ac["fams"], coefs):
        toks += fn_tokens(fm, cf, mode)
    toks.append(",".join(num(v) for row in ac["L"] for v in row))
    toks.append(",".join(num(v) for row in ac["M"] for v in row))
    toks.append(",".join(num(v) for v in y))
    return " ".join(toks)


def parse_ar(out, mode):
    t = out.split(" ")
    if t[0] != "ok":
        return out
    roots = [Fr(v) for v in t[1].split(",")] if mode == "R" else [b2f(v) for v in t[1].split(",")]
    return dict(roots=roots, ai=[int(v) for v in t[2].split(",")], it=[int(v) for v in t[3].split(",")])


def real_ar(ac, jit):
    n = ac["n"]
    lower, upper = jnp.asarray(float(ac["lower"])), jnp.asarray(float(ac["upper"]))
    intb = bool(ac.get("intb")) and float(ac["lower"]).is_integer() and float(ac["upper"]).is_integer()
    if intb:   # integer-typed interval ends (as in the library's own test): results must not depend on the dtype of the bounds
        lower, upper = jnp.asarray(int(ac["lower"])), jnp.asarray(int(ac["upper"]))
    via = ac["via"]
    if via == "inverter_y":
        # transform = map + y0 with a dyadic offset y0, inverted at y = y0  (fn = transform − y vanishes at xs)
        y0 = [Fr(i + 1, 2) for i in range(n)]
        coefs = [list(cf) for cf in ac["coefs"]]
        for i in range(n):
            coefs[i][-1] = coefs[i][-1] + y0[i]
        fn = ar_py_fn(n, ac["fams"], coefs, ac["L"], ac["M"])
        yv = jnp.asarray([float(v) for v in y0])
    else:
        fn = ar_py_fn(n, ac["fams"], ac["coefs"], ac["L"], ac["M"])
        yv = jnp.zeros(n)

    def run():
        if via == "search":
            return _autoregressive_bisection_search(fn, lower=lower, upper=upper, tol=ac["tol"], length=n, max_iter=ac["mi"])
        inv = AutoregressiveBisectionInverter(lower=int(ac["lower"]) if intb else float(ac["lower"]), upper=int(ac["upper"]) if intb else float(ac["upper"]),
                                              tol=ac["tol"], max_iter=ac["mi"])
        return inv(TriMap(fn, n), yv)

    if jit:
        res = run()
    else:
        with jax.disable_jit():
            res = run()
    # per-coordinate counts: the scan body re-enacted with the real scalar search on the real carry
    counts = []
    f0 = ar_py_fn(n, ac["fams"], ac["coefs"], ac["L"], ac["M"])
    with jax.disable_jit():
        y = jnp.full(n, (upper + lower) / 2)
        for i in range(n):
            root, ai, it = _bisection_search(lambda x, y=y, i=i: f0(y.at[i].set(x))[i], lower=lower, upper=upper, tol=ac["tol"], max_iter=ac["mi"])
            counts.append((int(ai), int(it)))
            y = y.at[i].set(root)
    return [float(v) for v in np.asarray(res)], counts, [float(v) for v in np.asarray(y)]


def check_gen_ar(c, ac, info, gen, outR, outF, roots, exact, jit):
    """generated `_autoregressive_bisection_search` (op `gar`) and generated `__call__` (op `ginv`) beside the hand model and the real code"""
    for mode, out in (("R", outR), ("F", outF)):
        c.count(f"generated:ar:{mode}")
        if gen[mode].split(" ")[:2] != out.split(" ")[:2]:
            c.mismatch("generated-vs-model-autoregressive", mode=mode, model=out[:160], generated=gen[mode][:160], **info)
    # `__call__`: in exact arithmetic (map + y0) - y0 is the map, so the Rat run must reproduce the hand model's roots
    c.count("generated:inverter-call:" + ac["via"])
    if gen["invR"].split(" ")[:2] != outR.split(" ")[:2]:
        c.mismatch("generated-inverter-call-vs-model", mode="R", model=outR[:160], generated=gen["invR"][:160], **info)
    if not gen["invF"].startswith("ok "):
        c.mismatch("generated-inverter-call-did-not-return", generated=gen["invF"][:100], **info)
        return
    gF = dict(roots=[b2f(v) for v in gen["invF"].split(" ")[1].split(",")])
    if ac["via"] in ("inverter", "inverter_y") and (exact or not jit):
        # the real AutoregressiveBisectionInverter.__call__ on the same bijection and y: bit for bit (the y-offset subtraction included)
        if not (len(roots) == len(gF["roots"]) and all(same_float(a, b) for a, b in zip(roots, gF["roots"]))):
            c.mismatch("generated-inverter-call-vs-impl-bitwise", exact_class=exact, generated=gF["roots"], impl=roots, **info)


def check_ar(c, ac, outR, outF, jit, gen=None):
    info = dict(n=ac["n"], fams=ac["fams"], coefs=[[str(v) for v in cf] for cf in ac["coefs"]], L=[[str(v) for v in r] for r in ac["L"]],
                M=[[str(v) for v in r] for r in ac["M"]], xs=[str(v) for v in ac["xs"]], lower=str(ac["lower"]), upper=str(ac["upper"]),
                tol=ac["tol"], max_iter=ac["mi"], via=ac["via"], jit=jit)
    roots, counts, reenact = real_ar(ac, jit)
    mR, mF = parse_ar(outR, "R"), parse_ar(outF, "F")
    if isinstance(mR, str) or isinstance(mF, str):
        c.mismatch("model-did-not-return", model=[outR[:100], outF[:100]], impl=roots, **info)
        return
    exact = (mR["ai"], mR["it"]) == (mF["ai"], mF["it"]) and all(math.isfinite(f) and Fr(f) == r for r, f in zip(mR["roots"], mF["roots"]))
    c.count(f"ar:{'exact' if exact else 'float'}:{ac['via']}:{'jit' if jit else 'nojit'}")
    c.count(f"ar:dim={ac['n']}")
    sig = ("ar", ac["n"], tuple(ac["fams"]), tuple(str(v) for cf in ac["coefs"] for v in cf), tuple(str(v) for r in ac["L"] for v in r),
           tuple(str(v) for r in ac["M"] for v in r), str(ac["lower"]), str(ac["upper"]), ac["tol"], ac["mi"], ac["via"], jit)
    c.case(sig, True, sample=dict(op=ar_line(ac, "R")[:200], model=outR[:200], impl=roots) if ac["n"] == 3 and ac["via"] == "search" else None)
    if gen is not None:
        check_gen_ar(c, ac, info, gen, outR, outF, roots, exact, jit)
    plain = ac["via"] != "inverter_y"   # the y-offset variant adds one more float op per evaluation
    if exact or (not jit and plain):
        if not (len(roots) == len(mF["roots"]) and all(same_float(a, b) for a, b in zip(roots, mF["roots"]))):
            c.mismatch("autoregressive-model-vs-impl-bitwise", exact_class=exact, model=mF["roots"], impl=roots, **info)
        if not all(same_float(a, b) for a, b in zip(reenact, mF["roots"])) or counts != list(zip(mF["ai"], mF["it"])):
            c.mismatch("autoregressive-scan-reenactment", model=[mF["roots"], mF["ai"], mF["it"]], impl=[reenact, counts], **info)
    else:
        for i, (a, b) in enumerate(zip(roots, mF["roots"])):
            slack = 4 * (ac["tol"] + 64 * EPS * max(1.0, abs(b))) * 8 ** i + 1e-300
            if ac["mi"] >= 200 and not (abs(a - b) <= slack):
                c.mismatch("autoregressive-model-vs-impl-root", coord=i, model=b, impl=a, slack=slack, **info)
    if exact and ac["mi"] >= 200 and not ac.get("nondyadic"):
        # the Rat model recovers the known preimage up to the propagated tolerance (sanity of the model instance itself)
        q = max([sum(abs(l) + abs(m) for l, m in zip(ac["L"][i], ac["M"][i])) for i in range(ac["n"])] + [Fr(0)])
        mslope = min(min(cf[0], cf[0]) if fm == "lin" else min(cf[1], cf[2]) for fm, cf in zip(ac["fams"], ac["coefs"]))
        for i, (r, x) in enumerate(zip(mR["roots"], ac["xs"])):
            if abs(r - x) > Fr(ac["tol"]) * (1 + q / mslope) ** i:
                c.mismatch("model-violates-error-bound", coord=i, model=str(r), preimage=str(x), **info)


# ------------------------------------------------------------------ real library bijections through the inverter
def lib_make_cases(rng, count):
    """Affine (no coupling) and TriangularAffine (lower-triangular coupling) from flowjax.bijections, inverted by
    AutoregressiveBisectionInverter; the model gets the unwrapped matrix as `lin` own functions + linear couplings."""
    from flowjax.bijections import Affine, TriangularAffine
    from flowjax.wrappers import unwrap
    cases = []
    for k in range(count):
        n = 1 + rng.randrange(4)
        loc = [rng.uniform(-3, 3) for _ in range(n)]
        if k % 2 == 0:
            scale = [math.exp(rng.uniform(-1.5, 1.5)) for _ in range(n)]
            bij = Affine(jnp.asarray(loc), jnp.asarray(scale))
            ub = unwrap(bij)
            A = np.diag(np.asarray(ub.scale, float).reshape(n))
            kind = "Affine"
        else:
            arr = np.asarray([[rng.uniform(-1, 1) for _ in range(n)] for _ in range(n)]) + np.eye(n) * rng.uniform(0.5, 2)
            for i in range(n):
                arr[i, i] = abs(arr[i, i]) + 0.2
            bij = TriangularAffine(jnp.asarray(loc), jnp.asarray(arr))
            A = np.asarray(unwrap(bij).triangular, float)
            kind = "TriangularAffine"
        y = [rng.uniform(-4, 4) for _ in range(n)]
        cases.append(dict(kind=kind, bij=bij, n=n, A=A, loc=[float(v) for v in np.asarray(unwrap(bij).loc).reshape(n)], y=y,
                          lower=-10.0, upper=10.0, tol=rng.choice([1e-3, 1e-5, 1e-7]), mi=200))
    return cases


def lib_line(lc):
    n, A = lc["n"], lc["A"]
    toks = ["ar", "F", f2b(lc["lower"]), f2b(lc["upper"]), f2b(lc["tol"]), str(lc["mi"]), str(FUEL), str(n)]
    for i in range(n):
        toks += ["lin", f2b(A[i, i]), f2b(lc["loc"][i] - lc["y"][i])]
    toks.append(",".join(f2b(A[i, j] if j < i else 0.0) for i in range(n) for j in range(n)))
    toks.append(",".join(f2b(0.0) for _ in range(n * n)))
    return " ".join(toks)


def check_lib(c, lc, out):
    inv = AutoregressiveBisectionInverter(lower=lc["lower"], upper=lc["upper"], tol=lc["tol"], max_iter=lc["mi"])
    got = [float(v) for v in np.asarray(inv(lc["bij"], jnp.asarray(lc["y"])))]
    want = [float(v) for v in np.asarray(lc["bij"].inverse(jnp.asarray(lc["y"])))]
    m = parse_ar(out, "F")
    info = dict(kind=lc["kind"], n=lc["n"], A=lc["A"].tolist(), loc=lc["loc"], y=lc["y"], tol=lc["tol"])
    c.case(("lib", lc["kind"], lc["n"], tuple(lc["y"]), lc["tol"]), True)
    c.count("lib:" + lc["kind"])
    if isinstance(m, str):
        c.mismatch("model-did-not-return", model=out[:100], impl=got, **info)
        return
    A = lc["A"]
    q = max([sum(abs(A[i, j]) for j in range(i)) for i in range(lc["n"])] + [0.0]) / min(abs(A[i, i]) for i in range(lc["n"]))
    for i, (a, b, w) in enumerate(zip(got, m["roots"], want)):
        slack = 2 * (lc["tol"] + 1e-12) * (1 + q) ** i
        if not (abs(a - b) <= slack and abs(a - w) <= slack):
            c.mismatch("library-bijection-inverter-vs-model", coord=i, model=b, impl=a, analytic_inverse=w, slack=slack, **info)


# ------------------------------------------------------------------ guards
def guard_make_cases(rng):
    gs = []
    for tol, mi in [(0.0, 5), (-1e-3, 5), (1e-3, -1), (1e-3, 0), (2.0 ** -5, 3), (-1.0, -2)]:
        line = " ".join(["bis", "F", f2b(-10.0), f2b(10.0), f2b(tol), str(mi), str(FUEL), "lin", f2b(1.0), f2b(-0.5)])
        gs.append(dict(kind="search", tol=tol, mi=mi, line=line))
    for lo, hi, tol, mi in [(-10.0, 10.0, 1e-7, 200), (1.0, 1.0, 1e-7, 200), (2.0, 1.0, 1e-7, 200), (-1.0, 1.0, 0.0, 10),
                            (-1.0, 1.0, -1.0, 10), (-1.0, 1.0, 1e-3, -1), (-1.0, 1.0, 1e-3, 0)]:
        line = " ".join(["archeck", "F", f2b(lo), f2b(hi), f2b(tol), str(mi)])
        gs.append(dict(kind="inverter", lower=lo, upper=hi, tol=tol, mi=mi, line=line))
    return gs


def check_guard(c, g, out, gout=None):
    if g["kind"] == "search":
        try:
            _bisection_search(lambda x: 1.0 * x + -0.5, lower=jnp.asarray(-10.0), upper=jnp.asarray(10.0), tol=g["tol"], max_iter=g["mi"])
            raised = False
        except ValueError:
            raised = True
        model_raises = out == "valueerror"
    else:
        try:
            AutoregressiveBisectionInverter(lower=g["lower"], upper=g["upper"], tol=g["tol"], max_iter=g["mi"])
            raised = False
        except ValueError:
            raised = True
        model_raises = out == "0"
    c.case(("guard", g["line"]), True)
    c.count("guard:" + g["kind"])
    if gout is not None:
        gen_raises = (gout == "valueerror") if g["kind"] == "search" else (gout == "0")
        c.count("generated:guard:" + g["kind"])
        if gen_raises != raised or gen_raises != model_raises:
            c.mismatch("generated-guard-vs-impl", generated=gout, model=out, impl_raised=raised, **{k: v for k, v in g.items() if k != "line"})
    if raised != model_raises:
        c.mismatch("guard-model-vs-impl", model=out, impl_raised=raised, **{k: v for k, v in g.items() if k != "line"})


# ------------------------------------------------------------------ witness search on the real code only
def float_resolution(fam, coef, root):
    """how far from the true root the float sign of f can be wrong: eps · (sum of magnitudes in f) / slope, plus ulps of the root"""
    r = float(root)
    c = [float(v) for v in coef]
    if fam == "lin":
        terms, slope = abs(c[0] * r) + abs(c[1]), abs(c[0])
    elif fam == "pw":
        x0, a1, a2, cc = c
        s = a1 if r < x0 else a2
        terms, slope = abs(s * (r - x0)) + abs(cc) + abs(s) * (abs(r) + abs(x0)), min(a1, a2)
    elif fam == "cubic":
        terms, slope = abs(c[0] * r ** 3) * 3 + abs(c[1] * r) + abs(c[2]), 3 * c[0] * r * r + c[1]
    elif fam == "sinh":
        terms, slope = abs(c[0] * math.sinh(r)) * 4 + abs(c[1]), abs(c[0]) * math.cosh(r)
    else:
        terms, slope = abs(c[0] * math.tanh(r)) * 4 + abs(c[1]), abs(c[0]) / math.cosh(r) ** 2
    return 16 * EPS * (terms / slope + abs(r)) + 1e-300


def oracle_scalar(case, jit):
    """the property on the real code: returns a violation description or None"""
    fam, coef, tol, mi = case["fam"], case["coef"], case["tol"], case["mi"]
    try:
        real = real_scalar(fam, coef, case["lower"], case["upper"], tol, mi, jit)
    except Exception as ex:  # noqa: BLE001
        return dict(law="search does not raise on valid arguments", exc=repr(ex)[:200])
    r = float(case["root"])
    res = float_resolution(fam, coef, case["root"])
    lo0, hi0 = real["lo0"], real["hi0"]
    if not (lo0 - res <= r <= hi0 + res):
        return dict(law="adapted bracket contains the root", bracket=[lo0, hi0], root=r)
    if not (0 <= real["it"] <= mi):
        return dict(law="0 <= iterations <= max_iter", iterations=real["it"])
    # floating-point resolution AT THE ROOT'S magnitude (not the bracket's: the bracket shrinks onto the root)
    root_res = 4 * EPS * max(abs(r), 1e-300)
    bound = err_bound(tol, hi0 - lo0, mi) * (1 + 8 * EPS) + res + root_res
    if not (abs(real["root"] - r) <= bound):
        return dict(law="|root - r| <= max(tol, (hi0-lo0)/2^(max_iter+1)) + float resolution", got=real["root"], root=r, bound=bound,
                    bracket=[lo0, hi0], iterations=real["it"], adapt_iterations=real["ai"])
    return None


def oracle_ar(ac, jit):
    n = ac["n"]
    try:
        roots, _, _ = real_ar(ac, jit)
    except Exception as ex:  # noqa: BLE001
        return dict(law="autoregressive search does not raise on valid arguments", exc=repr(ex)[:200])
    if ac["mi"] < 200:
        return None
    q = float(max([sum(abs(l) + abs(m) for l, m in zip(ac["L"][i], ac["M"][i])) for i in range(n)] + [Fr(0)]))
    mslope = float(min(cf[0] if fm == "lin" else min(cf[1], cf[2]) for fm, cf in zip(ac["fams"], ac["coefs"])))
    mag = max([abs(float(v)) for v in ac["xs"]] + [abs(float(ac["lower"])), abs(float(ac["upper"])), 1.0])
    eps = ac["tol"] + 256 * EPS * mag * (1 + q / mslope) * 4
    for i in range(n):
        bound = eps * (1 + q / mslope) ** i
        if not abs(roots[i] - float(ac["xs"][i])) <= bound:
            return dict(law="autoregressive search recovers the preimage within tol·(1+L/m)^i", coord=i, got=roots, want=[float(v) for v in ac["xs"]], bound=bound)
    return None


def _enc(case):
    d = dict(case)
    for k in ("coef", "root", "lower", "upper"):
        if k in d:
            d[k] = [str(v) for v in d[k]] if isinstance(d[k], list) else str(d[k])
    return d


def _dec(d):
    c = dict(d)
    c["coef"] = [Fr(v) for v in d["coef"]]
    for k in ("root", "lower", "upper"):
        c[k] = Fr(d[k])
    return c


def _enc_ar(ac):
    d = dict(ac)
    d["coefs"] = [[str(v) for v in cf] for cf in ac["coefs"]]
    d["L"] = [[str(v) for v in r] for r in ac["L"]]
    d["M"] = [[str(v) for v in r] for r in ac["M"]]
    d["xs"] = [str(v) for v in ac["xs"]]
    d["lower"], d["upper"] = str(ac["lower"]), str(ac["upper"])
    return d


def _dec_ar(d):
    ac = dict(d)
    ac["coefs"] = [[Fr(v) for v in cf] for cf in d["coefs"]]
    ac["L"] = [[Fr(v) for v in r] for r in d["L"]]
    ac["M"] = [[Fr(v) for v in r] for r in d["M"]]
    ac["xs"] = [Fr(v) for v in d["xs"]]
    ac["lower"], ac["upper"] = Fr(d["lower"]), Fr(d["upper"])
    return ac


def bnaf_violation(seed, dim, tol):
    """BlockAutoregressiveNetwork (the motivating use): inverse(transform(x)) == x within the propagated tolerance"""
    import jax.random as jr
    from flowjax.bijections import BlockAutoregressiveNetwork
    key = jr.key(seed)
    bnaf = BlockAutoregressiveNetwork(key, dim=dim, depth=1, block_dim=3,
                                      inverter=AutoregressiveBisectionInverter(lower=-10.0, upper=10.0, tol=tol, max_iter=200))
    x = jr.normal(jr.fold_in(key, 1), (dim,)) * 2.0
    y = bnaf.transform(x)
    xb = bnaf.inverse(y)
    J = np.asarray(jax.jacobian(bnaf.transform)(x))
    # first-order propagation of a per-coordinate error tol through the triangular solve
    err = np.zeros(dim)
    for i in range(dim):
        err[i] = tol + sum(abs(J[i, j]) * err[j] for j in range(i)) / abs(J[i, i])
    resol = 1e-9 * (1 + np.abs(np.asarray(x)))
    bad = np.abs(np.asarray(xb) - np.asarray(x)) > 4 * err + resol
    if bool(np.any(bad)) or not bool(np.all(np.isfinite(np.asarray(xb)))):
        return dict(law="BNAF inverse(transform(x)) == x within propagated tol", x=np.asarray(x).tolist(), got=np.asarray(xb).tolist(), allowed=(4 * err + resol).tolist())
    return None


def f32_small_root_violation(xv, tol=1e-9):
    """float32 (x64 off), a preimage of small magnitude and a requested tolerance BELOW float32's machine epsilon: float32 resolves
    |x| ~ 1e-3 to ~1e-10, so the inverter must still reach `tol` (up to the resolution at |x|, |y|) — a floor `tol >= eps` (eps is the
    spacing at magnitude ONE) silently gives up three orders of accuracy"""
    import flowjax.bijections as B
    with jax.enable_x64(False):
        b = B.Scale(jnp.asarray([1.5], jnp.float32))
        inv = AutoregressiveBisectionInverter(lower=-1.0, upper=1.0, tol=tol, max_iter=200)
        x = jnp.asarray([xv], jnp.float32)
        y = b.transform(x)
        xb = inv(b, y, None)
        err = float(np.abs(np.asarray(xb, np.float64) - np.asarray(x, np.float64))[0])
        ulp = float(np.spacing(np.float32(max(abs(float(x[0])), abs(float(y[0]))))))
    allowed = tol + 16 * ulp
    if not err <= allowed:
        return dict(law="|root - r| <= max(tol, (hi0-lo0)/2^(max_iter+1)) + float resolution (float32, small |x|, tol below eps)", x=xv, tol=tol, err=err, allowed=allowed)
    return None


def flat_steep_cases(rng, n):
    """linear functions with very flat / very steep slopes (dyadic, exact roots), tight tolerances"""
    cases = []
    for k in range(n):
        a = Fr(1, 2 ** rng.choice([8, 10, 13, 16, 20])) if k % 2 == 0 else Fr(2 ** rng.choice([6, 10]), 1)
        lo, hi = rng.choice(BRACKETS[:4])
        root = place_root(rng, lo, hi, rng.choice(["inside", "inside", "just_above", "outside_up", "outside_down"]))
        root = frs(root)
        cases.append(dict(fam="lin", coef=[a, -a * root], root=root, lower=frs(lo), upper=frs(hi), tol=rng.choice([1e-5, 1e-7, 1e-9]),
                          mi=200, how="flat-steep"))
    # very wide initial intervals around a small root, tight tolerance: the tolerance must be met at the ROOT's resolution
    for k in range(max(4, n // 5)):
        lo, hi = rng.choice([(-10 ** 8, 10 ** 8), (-10 ** 9, 10 ** 9), (-3 * 10 ** 9, 10 ** 3), (-10 ** 6, 10 ** 12)])
        root = frs(Fr(rng.randrange(-4000, 4000), 1024))
        a = Fr(rng.choice([1, 2, 3]), rng.choice([1, 2, 4]))
        cases.append(dict(fam="lin", coef=[a, -a * root], root=root, lower=frs(lo), upper=frs(hi), tol=rng.choice([1e-9, 1e-8, 1e-10]),
                          mi=200, how="wide-interval"))
    return cases


def search(hints, tier, rng):
    wit = []
    quick = tier == "quick"
    for i, cs in enumerate(flat_steep_cases(rng, 40 if quick else 300)):
        v = oracle_scalar(cs, i % 4 == 0)
        if v:
            e = _enc(cs)
            wit.append(dict(key=f"scalar|lin-flat-steep|{'|'.join(e['coef'])}|[{e['lower']},{e['upper']}]|tol={cs['tol']}|mi={cs['mi']}",
                            kind="scalar", case=e, jit=(i % 4 == 0), **v))
            if len(wit) >= 5:
                return wit
    for i, cs in enumerate(scalar_cases(rng, 120 if quick else 1200, 40 if quick else 400)):
        jit = (i % 5 == 0)
        v = oracle_scalar(cs, jit)
        if v:
            e = _enc(cs)
            wit.append(dict(key=f"scalar|{cs['fam']}|{'|'.join(e['coef'])}|[{e['lower']},{e['upper']}]|tol={cs['tol']}|mi={cs['mi']}|jit={jit}",
                            kind="scalar", case=e, jit=jit, **v))
            if len(wit) >= 5:
                return wit
    for k, ac in enumerate(ar_make_cases(rng, 24 if quick else 200)):
        jit = (k % 3 == 0)
        v = oracle_ar(ac, jit)
        if v:
            e = _enc_ar(ac)
            wit.append(dict(key=f"ar|n={ac['n']}|{ac['via']}|xs={','.join(e['xs'])}|tol={ac['tol']}|mi={ac['mi']}|jit={jit}|{hash(str(e)) % 10**8}",
                            kind="ar", case=e, jit=jit, **v))
            if len(wit) >= 5:
                return wit
    for xv in (3e-3, 1.7e-3, -2.3e-3, 5e-4, -7.1e-4, 9.3e-3):
        try:
            v = f32_small_root_violation(xv)
        except Exception as ex:  # noqa: BLE001
            v = dict(law="inverter does not raise in float32", exc=repr(ex)[:200])
        if v:
            wit.append(dict(key=f"f32-small-root|x={xv}", kind="f32small", xv=xv, **v))
            if len(wit) >= 5:
                return wit
    for seed in range(3 if quick else 20):
        dim = 1 + seed % 4
        try:
            v = bnaf_violation(seed, dim, 1e-6)
        except Exception as ex:  # noqa: BLE001
            v = dict(law="BNAF inverse does not raise", exc=repr(ex)[:200])
        if v:
            wit.append(dict(key=f"bnaf|seed={seed}|dim={dim}", kind="bnaf", seed=seed, dim=dim, **v))
            if len(wit) >= 5:
                return wit
    return wit


def replay(w):
    if w["kind"] == "scalar":
        return oracle_scalar(_dec(w["case"]), w["jit"]) is not None
    if w["kind"] == "ar":
        return oracle_ar(_dec_ar(w["case"]), w["jit"]) is not None
    if w["kind"] == "f32small":
        try:
            return f32_small_root_violation(w["xv"]) is not None
        except Exception:  # noqa: BLE001
            return True
    if w["kind"] == "bnaf":
        try:
            return bnaf_violation(w["seed"], w["dim"], 1e-6) is not None
        except Exception:  # noqa: BLE001
            return True
    return False
