"""Correspondence for the premade-flow factories of `flowjax/flows.py` (called from c01 / c03 / c08's `corr`).

Tie to the code:
  * `_add_default_permute`, `_affine_with_min_scale`, the `make_layer` closures and the factory bodies are REGENERATED
    from /repo (Gen/Flows.lean; typing sheet tools/py2lean/targets_flows.py): the theorems of Props/C01, C03, C08
    ("premade flows" sections) are about those generated definitions;
  * what the generated text only names — `Scan` (= the generated `Chain` of the unstacked layers), `filter_vmap(make_layer)`
    (= one layer per key), `jr.split` / `jr.permutation` (a key is what it determines) and the layer models (`couplingBij`,
    `mafBij`, generated planar methods, `bnafTransform`, `TriAffine`, generated spline / LeakyTanh) — is tied HERE:
    REAL flows are built by the real factories (coupling_flow, masked_autoregressive_flow, planar_flow; conditional and
    not; invert True/False; 1-4 layers; dims 1-5; default / Affine / RationalQuadraticSpline transformers; leaky-relu and
    tanh planar), every inexact parameter is perturbed, the structure (Invert iff invert, Scan, #layers, per layer
    `[layer, Flip | Permute]` or the bare layer when dim == 1, untransformed_dim == dim // 2, the stored permutation and its
    stored inverse) is read off the real object and checked, the per-layer parameters are read off the UNSTACKED Scan
    layers and handed to the model factory (driver op `flow run`), and the model is compared with the real
    `flow.bijection.{transform, transform_and_log_det, inverse, inverse_and_log_det}`, `flow.log_prob`,
    `flow.sample(key)` and `flow.sample_and_log_prob(key)` (the model gets the real base sample).
  * `block_neural_autoregressive_flow` and `triangular_spline_flow` CANNOT be constructed in this environment
    (`WeightNormalization` created under `eqx.filter_vmap` raises: equinox 0.13.8) — recorded with `c.count`.  Their layer
    stacks are covered by building each layer exactly as the factory's `make_layer` does (outside `filter_vmap`, with the
    real `_add_default_permute`), stacking the array leaves and wrapping them in the real `Scan` (and `Invert`).
"""
from __future__ import annotations

import inspect
import math
from functools import partial

import equinox as eqx
import jax
import jax.numpy as jnp
import jax.random as jr
import numpy as np
from jax.flatten_util import ravel_pytree

import flowjax.bijections as B
from flowjax import flows
from flowjax.bisection_search import AutoregressiveBisectionInverter
from flowjax.distributions import StandardNormal, Transformed
from flowjax.wrappers import NonTrainable, WeightNormalization, unwrap

import fj
import vlib
from vlib import f2b, fs2b, b2f, b2fs, ints

GEN = ["Flows"]
TRUSTED = [
    "py2lean translator + typing sheet tools/py2lean/targets_flows.py (early returns, list literals, conditional expressions, keyword "
    "arguments declared used / ignorable, eqx.tree_at as a structure update) — validated by the flows correspondence",
    "Model/FlowsPre.lean: one-line wrappers naming what flows.py calls; `Scan` = generated Chain of the unstacked layers, "
    "`filter_vmap(make_layer)(keys)` = one layer per key, a PRNG key = what it determines (layer parameters / an arbitrary permutation) "
    "— validated on real factory-built flows by tools/props/flows.py",
    "Model/FlowsPre.lean `affineFamily` / `rqsFamily` (hand models of `get_ravelled_pytree_constructor`: leaf order loc, scale.arr / "
    "x_pos, y_pos, derivatives; `row + init`) — validated through every coupling / MAF flow evaluation",
]
ACTS = {"relu": jax.nn.relu, "tanh": jnp.tanh, "softplus": jax.nn.softplus}
TOL = dict(rtol=1e-8, atol=1e-9)
METHODS = ("t", "tl", "i", "il", "lp", "s", "slp")


# ------------------------------------------------------------------ helpers
def perturb(tree, rng, scale=0.4):
    leaves, treedef = jax.tree_util.tree_flatten(tree)
    new = []
    for l in leaves:
        if eqx.is_inexact_array(l):
            noise = np.asarray([rng.gauss(0, scale) for _ in range(int(np.prod(l.shape)))]).reshape(l.shape)
            new.append(l + jnp.asarray(noise, l.dtype))
        else:
            new.append(l)
    return jax.tree_util.tree_unflatten(treedef, new)


def tf_init(transformer):
    params, _ = eqx.partition(transformer, eqx.is_inexact_array, is_leaf=lambda leaf: isinstance(leaf, NonTrainable))
    return [float(v) for v in ravel_pytree(params)[0]]


def tf_spec(kind, rng):
    """(real transformer or None, driver tokens, description)"""
    if kind == "default":
        return None, ["AFF", fs2b(tf_init(flows._affine_with_min_scale()))], "default"
    if kind == "affine":
        t = B.Affine()
        return t, ["AFF0", fs2b(tf_init(t))], "Affine()"
    if kind == "minscale":
        ms = rng.choice([0.0, 0.05, 0.3])
        t = flows._affine_with_min_scale(ms)
        return t, ["AFFM", f2b(ms), fs2b(tf_init(t))], f"min_scale={ms}"
    if kind == "rqs":
        k = rng.choice([1, 2, 4])
        iv = rng.choice([1, 3.0, (-2.0, 3.0)])
        md, adj = rng.choice([1e-3, 0.05]), rng.choice([1e-2, 0.0, 0.1])
        t = B.RationalQuadraticSpline(knots=k, interval=iv, min_derivative=md, softmax_adjust=adj)
        lo, hi = t.interval
        return t, ["RQS", str(k), f2b(lo), f2b(hi), f2b(adj), f2b(md), fs2b(tf_init(t))], f"RQS(k={k},{iv})"
    raise AssertionError(kind)


def mlp_fields(mlp):
    out = []
    for l in mlp.layers:
        out += [fs2b(np.ravel(np.asarray(l.weight))), fs2b(np.ravel(np.asarray(l.bias)))]
    return out


def split_layer(c, layer, dim, info):
    """structure of one unstacked Scan layer as `_add_default_permute` built it -> (core bijections list, perm tokens) or None"""
    if dim == 1:
        if isinstance(layer, B.Chain) and any(isinstance(b, (B.Flip, B.Permute)) for b in layer.bijections):
            c.mismatch("flows-structure:dim==1 layer carries a permutation", **info)
            return None
        return ([layer] if not isinstance(layer, B.Chain) else list(layer.bijections)), "-"
    if not isinstance(layer, B.Chain) or len(layer.bijections) < 2:
        c.mismatch("flows-structure:layer is not Chain[..., permutation]", got=type(layer).__name__, **info)
        return None
    *core, last = layer.bijections
    if any(isinstance(b, B.Chain) for b in layer.bijections):
        c.mismatch("flows-structure:merge_chains left a nested Chain", **info)
        return None
    if dim == 2:
        if not isinstance(last, B.Flip):
            c.mismatch("flows-structure:dim==2 layer does not end in Flip", got=type(last).__name__, **info)
            return None
        return core, "-"
    if not isinstance(last, B.Permute):
        c.mismatch("flows-structure:dim>=3 layer does not end in Permute", got=type(last).__name__, **info)
        return None
    perm = [int(v) for v in np.asarray(last.permutation[0])]
    inv = [int(v) for v in np.asarray(last.inverse_permutation[0])]
    if sorted(perm) != list(range(dim)):
        c.mismatch("flows-structure:stored permutation is not a permutation of range(dim)", perm=perm, **info)
        return None
    if inv != [perm.index(j) for j in range(dim)]:
        c.mismatch("flows-structure:stored inverse permutation is not argsort(permutation)", perm=perm, inverse=inv, **info)
        return None
    return core, ints(perm)


def open_flow(c, fl, invert, n_layers, info):
    """Transformed(base, Invert(Scan) | Scan) -> the unstacked layers, or None after recording the structural mismatch"""
    if not isinstance(fl, Transformed):
        c.mismatch("flows-structure:factory does not return Transformed", got=type(fl).__name__, **info)
        return None
    b = fl.bijection
    if isinstance(b, B.Invert) != bool(invert):
        c.mismatch("flows-structure:Invert iff invert", invert=invert, got=type(b).__name__, **info)
        return None
    scan = b.bijection if invert else b
    if not isinstance(scan, B.Scan):
        c.mismatch("flows-structure:layer stack is not a Scan", got=type(scan).__name__, **info)
        return None
    layers = fj.unstack_scan(scan)
    if len(layers) != n_layers:
        c.mismatch("flows-structure:number of layers", want=n_layers, got=len(layers), **info)
        return None
    return layers


def call_real(fn):
    try:
        return fn()
    except NotImplementedError:
        return "NOTIMPL"
    except Exception as ex:
        return "EXC:" + type(ex).__name__ + ":" + str(ex)[:80]


def real_values(fl, bij, m, x, cond, key):
    """the public method `m` on the real flow -> flat list of floats / 'NOTIMPL' / 'EXC:…'"""
    if m in ("t", "tl", "i", "il"):
        return call_real(lambda: fj.call(bij, m, x, cond))
    if m == "lp":
        return call_real(lambda: [float(fl.log_prob(jnp.asarray(x), cond))])
    if m == "s":
        return call_real(lambda: [float(v) for v in np.asarray(fl.sample(key, condition=cond))])
    r = call_real(lambda: fl.sample_and_log_prob(key, condition=cond))
    if isinstance(r, str):
        return r
    return [float(v) for v in np.asarray(r[0])] + [float(r[1])]


class Batch:
    def __init__(self, c):
        self.c, self.lines, self.wants, self.infos, self.tols = c, [], [], [], []

    def add(self, line, want, info, tol=None):
        self.lines.append(line); self.wants.append(want); self.infos.append(info); self.tols.append(tol or TOL)

    def run(self, name):
        outs = vlib.run_model(self.lines)
        for line, got, want, info, tol in zip(self.lines, outs, self.wants, self.infos, self.tols):
            if isinstance(want, str):
                if want == "NOTIMPL" and got == "NOTIMPL":
                    continue
                self.c.mismatch(name, op=line[:240], model=got[:160], impl=want, **info)
                continue
            if got.startswith("ERR") or got in ("NOTIMPL",):
                self.c.mismatch(name, op=line[:240], model=got[:160], impl=want[:8], **info)
                continue
            vals = []
            for t in got.split(" "):
                vals += b2fs(t)
            if not vlib.allclose(vals, want, **tol):
                self.c.mismatch(name, op=line[:240], model=vals, impl=want, **info)


# ------------------------------------------------------------------ 1. the two helpers
def corr_helpers(c, tier, rng):
    bt = Batch(c)
    reps = 3 if tier == "quick" else 12
    # ---- _add_default_permute: which branch, which permutation, merge_chains
    for dim in range(1, 7):
        for rep in range(reps):
            key = jr.PRNGKey(rng.randrange(10 ** 6))
            inner = B.Identity((dim,)) if rep % 2 == 0 else B.Chain([B.Identity((dim,)), B.Loc(jnp.zeros(dim))])
            layer = flows._add_default_permute(inner, dim, key)
            info = dict(helper="_add_default_permute", dim=dim, inner=type(inner).__name__)
            sp = split_layer(c, layer, dim, info)
            c.case(("adp", dim, rep), True)
            c.count(f"flows:adp:dim{dim}")
            if sp is None:
                continue
            core, perm = sp
            want_core = 1 if rep % 2 == 0 else 2
            if len(core) != want_core:
                c.mismatch("flows-structure:merge_chains does not flatten [*layer, permutation]", got=len(core), want=want_core, **info)
            xs = [float(i) + 0.5 for i in range(dim)]
            want = fj.call(layer, "t", xs) + fj.call(layer, "i", xs)
            bt.add(f"flow adp {dim} {perm} {fs2b(xs)}", want, info, dict(rtol=0.0, atol=0.0))
    # ---- _affine_with_min_scale
    dflt = inspect.signature(flows._affine_with_min_scale).parameters["min_scale"].default
    for ms in [dflt, 0.0, 0.1, 0.5, 0.9]:
        a = flows._affine_with_min_scale(ms)
        sr = a.scale.bijection
        ok = (isinstance(a, B.Affine) and isinstance(sr, B.Chain) and len(sr.bijections) == 2 and isinstance(sr.bijections[0], B.SoftPlus)
              and isinstance(sr.bijections[1], B.Loc) and isinstance(sr.bijections[1].loc, NonTrainable))
        if not ok:
            c.mismatch("flows-structure:_affine_with_min_scale is not Affine with scale = BijectionReparam(·, Chain[SoftPlus, non_trainable(Loc)])",
                       min_scale=ms)
        bt.add(f"flow minscaleinit {f2b(ms)}", [float(a.scale.arr), float(unwrap(a).scale), float(dflt)], dict(helper="min_scale_init", min_scale=ms))
        c.case(("minscale-init", ms), ms != dflt)
        for raw in [0.0, 1.0, -1.0, 5.0, -5.0, 30.0, -30.0, rng.uniform(-3, 3)]:
            ar = eqx.tree_at(lambda t: t.scale.arr, a, jnp.asarray(raw))
            bt.add(f"flow minscale {f2b(ms)} {f2b(raw)}", [float(unwrap(ar).scale)], dict(helper="min_scale", min_scale=ms, raw=raw),
                   dict(rtol=1e-9, atol=1e-11))
            c.case(("minscale", ms, raw), True)
            c.count("flows:min_scale")
    bt.add("flow tfinit", tf_init(flows._affine_with_min_scale()), dict(helper="default transformer init"), dict(rtol=1e-12, atol=1e-14))
    bt.run("flows-helpers-generated-vs-impl")


# ------------------------------------------------------------------ 2. factory-built flows
def factory_configs(tier, rng):
    """(factory, dim, cond_dim, n_layers, invert, extra) — the full grid in the thorough tier, a stratified sample otherwise"""
    grid = []
    for fac in ("coupling", "maf", "planar"):
        for dim in range(1, 6):
            for cd in (None, 2):
                for nl in range(1, 5):
                    for inv in (True, False):
                        grid.append((fac, dim, cd, nl, inv))
    if tier != "quick":
        rng.shuffle(grid)
        return grid[: len(grid) // 2]       # half of the full grid (120 flows), two inputs each
    # quick: every (factory, dim), (factory, conditional?), (factory, n_layers), (factory, invert), (dim, conditional?) occurs
    rng.shuffle(grid)
    seen, out = set(), []
    for g in grid:
        ks = [("a", g[0], g[1]), ("b", g[0], g[2]), ("c", g[0], g[3]), ("d", g[0], g[4]), ("e", g[1], g[2])]
        if sum(k not in seen for k in ks) >= 2 or any(k not in seen for k in ks[:1]):
            out.append(g)
            seen.update(ks)
    return out


def build_factory_flow(fac, dim, cd, nl, inv, rng):
    key = jr.PRNGKey(rng.randrange(10 ** 6))
    base = StandardNormal((dim,))
    if fac in ("coupling", "maf"):
        kind = rng.choice(["default", "default", "affine", "minscale", "rqs", "rqs"])
        tr, tftoks, tfdesc = tf_spec(kind, rng)
        act = rng.choice(["relu", "tanh", "softplus"])
        width, depth = rng.choice([2, 3, 5]), rng.choice([0, 1, 1, 2])
        f = flows.coupling_flow if fac == "coupling" else flows.masked_autoregressive_flow
        fl = f(key, base_dist=base, transformer=tr, cond_dim=cd, flow_layers=nl, nn_width=width, nn_depth=depth,
               nn_activation=ACTS[act], invert=inv)
        return fl, dict(tf=tftoks, tfdesc=tfdesc, act=act, width=width, depth=depth, tfkind=kind)
    slope = rng.choice([None, 0.1, 0.5, 1.0, rng.uniform(0.05, 1.0)])
    kw = {}
    act, width, depth = "relu", 0, 0
    if cd is not None:
        act, width, depth = rng.choice(["relu", "tanh"]), rng.choice([2, 4]), rng.choice([0, 1, 2])
        kw = dict(width_size=width, depth=depth, activation=ACTS[act])
    fl = flows.planar_flow(key, base_dist=base, cond_dim=cd, flow_layers=nl, invert=inv, negative_slope=slope, **kw)
    return fl, dict(slope=slope, act=act, width=width, depth=depth)


def encode_factory_flow(c, fac, fl, dim, cd, nl, inv, ex, info):
    """structure check + per-layer fields; returns the op tail (after `<n>`) or None"""
    layers = open_flow(c, fl, inv, nl, info)
    if layers is None:
        return None
    toks = []
    if fac in ("coupling", "maf"):
        toks += [ex["act"], str(ex["width"]), str(ex["depth"])] + ex["tf"]
    else:
        toks += ["tanh" if ex["slope"] is None else f2b(ex["slope"])]
    for li, layer in enumerate(layers):
        sp = split_layer(c, layer, dim, dict(layer=li, **info))
        if sp is None:
            return None
        core, perm = sp
        if len(core) != 1:
            c.mismatch("flows-structure:layer is not [bijection, permutation]", got=[type(b).__name__ for b in core], layer=li, **info)
            return None
        b = core[0]
        want_cls = {"coupling": B.Coupling, "maf": B.MaskedAutoregressive, "planar": B.Planar}[fac]
        if not isinstance(b, want_cls):
            c.mismatch("flows-structure:layer class", got=type(b).__name__, want=want_cls.__name__, layer=li, **info)
            return None
        if b.shape != (dim,) or b.cond_shape != (None if cd is None else (cd,)):
            c.mismatch("flows-structure:layer shape / cond_shape", shape=b.shape, cond_shape=b.cond_shape, layer=li, **info)
            return None
        toks.append(perm)
        if fac == "coupling":
            if b.untransformed_dim != dim // 2 or b.dim != dim:
                c.mismatch("flows-structure:untransformed_dim != dim // 2", got=b.untransformed_dim, layer=li, **info)
                return None
            toks += mlp_fields(b.conditioner)
        elif fac == "maf":
            for l in b.masked_autoregressive_mlp.layers:
                toks += [fs2b(np.ravel(np.asarray(l.weight.if_true))), fs2b(np.ravel(np.asarray(l.bias)))]
        else:
            if (b.negative_slope is None) != (ex["slope"] is None) or (ex["slope"] is not None and float(b.negative_slope) != float(ex["slope"])):
                c.mismatch("flows-structure:negative_slope not passed to the layer", got=b.negative_slope, want=ex["slope"], layer=li, **info)
                return None
            if cd is None:
                toks += ["P", fs2b(np.asarray(b.params))]
            else:
                toks += ["M", ex["act"], str(ex["width"]), str(ex["depth"])] + mlp_fields(b.conditioner)
    return toks


def well_conditioned(vals):
    return isinstance(vals, list) and all(math.isfinite(v) for v in vals) and max([abs(v) for v in vals] or [0.0]) < 1e6


def corr_factories(c, tier, rng, methods=METHODS):
    bt = Batch(c)
    for ci, (fac, dim, cd, nl, inv) in enumerate(factory_configs(tier, rng)):
        info = dict(factory=fac, dim=dim, cond_dim=cd, flow_layers=nl, invert=inv)
        try:
            fl0, ex = build_factory_flow(fac, dim, cd, nl, inv, rng)
        except Exception as e:
            c.mismatch("flows-factory-constructs", exc=repr(e)[:200], **info)
            continue
        fl = perturb(fl0, rng)
        info.update({k: v for k, v in ex.items() if k in ("tfdesc", "act", "width", "depth", "slope")})
        tail = encode_factory_flow(c, fac, fl, dim, cd, nl, inv, ex, info)
        c.count(f"flows:{fac}:dim{dim}:" + ("cond" if cd else "uncond"))
        c.count(f"flows:{fac}:layers{nl}:invert={inv}")
        if fac != "planar":
            c.count(f"flows:{fac}:transformer:{ex['tfkind']}")
        else:
            c.count("flows:planar:" + ("tanh" if ex["slope"] is None else "leaky_relu"))
        if tail is None:
            continue
        bij = fl.bijection
        # planar constraint conditioning (C11 known finding: 1 + w.û rounds to 0) — skip such flows, counted
        if fac == "planar" and not planar_ok(fl, dim, cd, rng):
            c.count("flows:planar:skipped (1 + w.û ~ 0, float absorption — C11 known finding)")
            continue
        for rep in range(1 if tier == "quick" else 2):
            x = [rng.uniform(-1.5, 1.5) for _ in range(dim)]
            cond = None if cd is None else jnp.asarray([rng.uniform(-1, 1) for _ in range(cd)])
            key = jr.PRNGKey(rng.randrange(2 ** 31))
            z = [float(v) for v in np.asarray(fl.base_dist.sample(key))] if ("s" in methods or "slp" in methods) else None
            wants = {m: real_values(fl, bij, m, z if m in ("s", "slp") else x, cond, key) for m in methods}
            # conditioning of the two directions from the real log-dets (forward at x / z, inverse at x)
            lds = {}
            for m, src in (("t", "tl"), ("tl", "tl"), ("i", "il"), ("il", "il"), ("lp", "il")):
                if m in methods:
                    w = wants.get(src)
                    lds[m] = w[-1] if isinstance(w, list) else call_real(
                        lambda: float((bij.transform_and_log_det if src == "tl" else bij.inverse_and_log_det)(jnp.asarray(x), cond)[1]))
            if "slp" in methods and isinstance(wants["slp"], list):
                # forward log-det at the base sample = base log-prob(z) - returned log-prob
                lds["s"] = lds["slp"] = float(-0.5 * sum(v * v for v in z) - 0.5 * dim * math.log(2 * math.pi)) - wants["slp"][-1]
            elif "s" in methods:
                lds["s"] = lds["slp"] = call_real(lambda: float(bij.transform_and_log_det(jnp.asarray(z), cond)[1]))
            for m in methods:
                arg = z if m in ("s", "slp") else x
                want, ld = wants[m], lds.get(m)
                if isinstance(want, list):
                    if not well_conditioned(want) or (isinstance(ld, float) and not (abs(ld) <= 14.0)):
                        c.count(f"flows:{fac}:{m} ill-conditioned / overflow (|log-det| > 14 or non-finite), not compared")
                        continue
                k = 1.0 if not isinstance(ld, float) else max(1.0, math.exp(min(abs(ld), 14.0)))
                tol = dict(rtol=1e-8 * min(k, 1e3), atol=1e-9 * min(k, 1e3))
                line = (f"flow run {fac} {m} {1 if inv else 0} {dim} {-1 if cd is None else cd} {fs2b(arg)} "
                        f"{fs2b(np.asarray(cond)) if cond is not None else '-'} {nl} " + " ".join(tail))
                bt.add(line, want, dict(method=m, x=arg, rep=rep, **info), tol)
                c.case((fac, dim, cd, nl, inv, ci, rep, m), True,
                       sample={"op": line[:200], "impl": want if isinstance(want, str) else want[:4]} if ci < 2 and rep == 0 and m in ("tl", "lp") else None)
                c.count(f"flows:method:{m}")
        jax.clear_caches()   # every eager lax.scan call compiles a fresh program: a long run otherwise exhausts the memory mappings
    bt.run("flows-factory-model-vs-impl")


def planar_ok(fl, dim, cd, rng):
    """every layer's 1 + s·w·û stays away from 0 for a few conditions (otherwise the divisions are meaningless in floats)"""
    b = fl.bijection
    scan = b.bijection if isinstance(b, B.Invert) else b
    if not isinstance(scan, B.Scan):
        return True
    for layer in fj.unstack_scan(scan):
        p = layer.bijections[0] if isinstance(layer, B.Chain) else layer
        for _ in range(3):
            cond = None if cd is None else jnp.asarray([rng.uniform(-1, 1) for _ in range(cd)])
            up = p.get_planar(cond)
            w, uh = np.asarray(up.weight), np.asarray(up.get_act_scale())
            slopes = [1.0] + ([] if up.negative_slope is None else [float(up.negative_slope)])
            if min(abs(1.0 + s * float(w @ uh)) for s in slopes) < 1e-6 or not np.any(w != 0):
                return False
    return True


# ------------------------------------------------------------------ 3. BNAF / triangular-spline layer stacks, built by hand
def stack_layers(layers):
    """what `eqx.filter_vmap(make_layer)(keys)` returns: the layers with every array leaf stacked along a new leading axis"""
    parts = [eqx.partition(l, eqx.is_array) for l in layers]
    stacked = jax.tree_util.tree_map(lambda *xs: jnp.stack(xs), *[p[0] for p in parts])
    return eqx.combine(stacked, parts[0][1])


def degenerate_observations(c):
    """real behaviour at points the theorems exclude by a stated guard (observations, never mismatches)"""
    for name, f in (("coupling_flow", flows.coupling_flow), ("masked_autoregressive_flow", flows.masked_autoregressive_flow)):
        try:
            fl = f(jr.PRNGKey(0), base_dist=StandardNormal((0,)), flow_layers=2, nn_width=3)
            fl.bijection.transform(jnp.zeros((0,)))
            c.count(f"flows:{name}: dim == 0 evaluates (guard 0 < dim of the theorems is then unnecessary)")
        except ZeroDivisionError:
            c.count(f"flows:{name}: dim == 0 constructs, every method raises ZeroDivisionError (guard 0 < dim of the theorems)")
        except Exception as ex:
            c.count(f"flows:{name}: dim == 0 raises {type(ex).__name__}")


def factories_unconstructible(c):
    for name, f in (("block_neural_autoregressive_flow", flows.block_neural_autoregressive_flow), ("triangular_spline_flow", flows.triangular_spline_flow)):
        try:
            f(jr.PRNGKey(0), base_dist=StandardNormal((3,)), flow_layers=2)
            c.count(f"flows:{name}: constructible in this environment (the hand-built stack below is then redundant)")
        except Exception as ex:
            c.count(f"flows:{name}: factory not constructible here ({type(ex).__name__}) — layer stack built by hand (parts bnaf / trispline)")


def corr_bnaf_stacks(c, tier, rng):
    from props import c09 as S
    bt = Batch(c)
    cfgs = [(1, None, 2, 1, 2), (2, None, 2, 1, 2), (3, 2, 3, 2, 1), (4, None, 2, 0, 1)]
    if tier != "quick":
        more = [(d, cd, nl, dep, bd) for d in (1, 2, 3, 5) for cd in (None, 2) for nl in (1, 3, 4) for dep in (0, 1, 2) for bd in (1, 2)]
        rng.shuffle(more)
        cfgs += more[:20]        # the bisection inverse through every layer is slow in eager mode
    lower, upper, tol, mi = -6.0, 6.0, 1e-10, 300
    for ci, (dim, cd, nl, depth, bd) in enumerate(cfgs):
        info = dict(stack="bnaf", dim=dim, cond_dim=cd, flow_layers=nl, depth=depth, block_dim=bd)
        inverter = AutoregressiveBisectionInverter(lower=lower, upper=upper, tol=tol, max_iter=mi)

        def make_layer(key):  # as flows.block_neural_autoregressive_flow.make_layer, outside filter_vmap
            bij_key, perm_key = jr.split(key)
            net = B.BlockAutoregressiveNetwork(bij_key, dim=dim, cond_dim=cd, depth=depth, block_dim=bd, activation=None, inverter=inverter)
            return flows._add_default_permute(net, dim, perm_key)   # activation=None: the factory's default LeakyTanh(3) (onto ℝ)
        keys = jr.split(jr.PRNGKey(rng.randrange(10 ** 6)), nl)
        layers = []
        for k in keys:
            l = make_layer(k)
            net = l.bijections[0] if isinstance(l, B.Chain) else l
            # overwrite every raw weight / bias / raw scale; the inverter's and the activation's own arrays are restored
            net2 = eqx.tree_at(lambda n: (n.inverter, n.activation), S.overwrite(net, rng, rng.choice(["rand", "pos"]), mag=1.2),
                               (inverter, net.activation))
            layers.append(net2 if not isinstance(l, B.Chain) else B.Chain([net2] + list(l.bijections[1:])))
        scan = B.Scan(stack_layers(layers))
        toks = ["leaky:" + f2b(3.0), str(depth), str(bd), f2b(lower), f2b(upper), f2b(tol), str(mi), "800"]
        ok = True
        for li, layer in enumerate(fj.unstack_scan(scan)):
            sp = split_layer(c, layer, dim, dict(layer=li, **info))
            if sp is None or len(sp[0]) != 1 or not isinstance(sp[0][0], B.BlockAutoregressiveNetwork):
                ok = False
                break
            net = sp[0][0]
            toks += [sp[1], fs2b(np.ravel(np.asarray(net.cond_linear.weight))) if cd is not None else "-"]
            for raw, b, s in S.bnaf_raw(net):
                toks += [fs2b(np.ravel(raw)), fs2b(b), fs2b(s)]
        c.count(f"flows:bnaf-stack:dim{dim}:layers{nl}")
        if not ok:
            c.mismatch("flows-structure:hand-built BNAF stack", **info)
            continue
        for inv in (False, True):
            bij = B.Invert(scan) if inv else scan
            x = jnp.asarray([rng.uniform(-0.8, 0.8) for _ in range(dim)])
            cond = None if cd is None else jnp.asarray([rng.uniform(0.1, 1.0) for _ in range(cd)])
            y = scan.transform(x, cond)                 # the preimage is then known: compared with what both inverters return
            fwd_m, arg_f, arg_i = ("i", y, x) if inv else ("t", x, y)
            # analytic direction
            want = call_real(lambda: fj.call(bij, fwd_m, arg_f if not inv else x, cond))
            head = f"{1 if inv else 0} {dim} {-1 if cd is None else cd}"
            condt = fs2b(np.asarray(cond)) if cond is not None else "-"
            bt.add(f"flow run bnaf {fwd_m} {head} {fs2b(np.asarray(x))} {condt} {nl} " + " ".join(toks), want,
                   dict(method=fwd_m + " (analytic)", invert=inv, **info))
            c.case(("bnaf-stack", ci, inv, "fwd"), True)
            # numerical direction (bisection through every layer): compare at the search tolerance scale, and only when the
            # real inverter found the preimage (inside its bracket)
            num_m = "t" if inv else "i"
            got_real = call_real(lambda: fj.call(bij, num_m, y, cond))
            if isinstance(got_real, list) and np.allclose(got_real, np.asarray(x), atol=1e-5):
                bt.add(f"flow run bnaf {num_m} {head} {fs2b(np.asarray(y))} {condt} {nl} " + " ".join(toks), got_real,
                       dict(method=num_m + " (bisection)", invert=inv, **info), dict(rtol=0.0, atol=1e-5))
                c.case(("bnaf-stack", ci, inv, "num"), True)
            else:
                c.count("flows:bnaf-stack: real inverter left its bracket / did not converge, numerical direction not compared")
        jax.clear_caches()
    bt.run("flows-bnaf-stack-model-vs-impl")


def tri_make_layer(key, dim, cd, knots, tanh_max_val, init=None, cond_weight=None):
    """`triangular_spline_flow.make_layer`, statement by statement, outside filter_vmap.  `init`: the factory's `init`
    argument (default glorot_uniform()); `cond_weight`: what another `cond_key` would have drawn for the `Linear` weight."""
    from equinox.nn import Linear as _Linear
    from jax.nn.initializers import glorot_uniform
    init = init if init is not None else glorot_uniform()

    def Linear(*a, **kw):
        lin = _Linear(*a, **kw)
        return lin if cond_weight is None else eqx.tree_at(lambda l: l.weight, lin, jnp.asarray(cond_weight, lin.weight.dtype))
    lt_key, perm_key, cond_key = jr.split(key, 3)
    weights = init(lt_key, (dim, dim))
    lt_weights = weights.at[jnp.diag_indices(dim)].set(1)
    tri_aff = B.TriangularAffine(jnp.zeros(dim), lt_weights)
    tri_aff = eqx.tree_at(lambda t: t.triangular, tri_aff, replace_fn=WeightNormalization)
    fn = partial(B.RationalQuadraticSpline, knots=knots, interval=1)
    spline = eqx.filter_vmap(fn, axis_size=dim)()
    bijections = [B.LeakyTanh(tanh_max_val, (dim,)), B.Vmap(spline, in_axes=eqx.if_array(0)), B.Invert(B.LeakyTanh(tanh_max_val, (dim,))), tri_aff]
    if cd is not None:
        bijections.append(B.AdditiveCondition(Linear(cd, dim, use_bias=False, key=cond_key), (dim,), (cd,)))
    return flows._add_default_permute(B.Chain(bijections), dim, perm_key)


def corr_trispline_stacks(c, tier, rng, methods=METHODS):
    bt = Batch(c)
    cfgs = [(1, None, 2, 3, 3.0), (2, 2, 1, 2, 1.5), (3, None, 3, 4, 3.0), (4, 1, 2, 1, 2.0)][: 3 if tier == 'quick' else 4]
    if tier != "quick":
        more = [(d, cd, nl, k, m) for d in (1, 2, 3, 5) for cd in (None, 2) for nl in (1, 2, 4) for k in (1, 3, 8) for m in (0.7, 3.0)]
        rng.shuffle(more)
        cfgs += more[:24]
    for ci, (dim, cd, nl, knots, mv) in enumerate(cfgs):
        info = dict(stack="triangular_spline", dim=dim, cond_dim=cd, flow_layers=nl, knots=knots, tanh_max_val=mv)
        keys = jr.split(jr.PRNGKey(rng.randrange(10 ** 6)), nl)
        try:
            layers = [perturb(tri_make_layer(k, dim, cd, knots, mv), rng, 0.5) for k in keys]
            scan = B.Scan(stack_layers(layers))
        except Exception as ex:
            c.mismatch("flows-trispline-stack-constructs", exc=repr(ex)[:200], **info)
            continue
        toks = [f2b(mv)]
        ok = True
        for li, layer in enumerate(fj.unstack_scan(scan)):
            sp = split_layer(c, layer, dim, dict(layer=li, **info))
            want_names = ["LeakyTanh", "Vmap", "Invert", "TriangularAffine"] + (["AdditiveCondition"] if cd is not None else [])
            if sp is None or [type(b).__name__ for b in sp[0]] != want_names:
                ok = False
                break
            core = [unwrap(b) for b in sp[0]]
            spl = core[1].bijection
            tri = core[3]
            if not bool(tri.lower) or float(sp[0][0].max_val) != float(mv):
                ok = False
                break
            toks += [sp[1], fs2b(np.ravel(np.asarray(core[4].module.weight))) if cd is not None else "-",
                     f2b(spl.interval[0]), f2b(spl.interval[1])]
            for j in range(dim):
                toks += [fs2b(np.asarray(spl.x_pos[j])), fs2b(np.asarray(spl.y_pos[j])), fs2b(np.asarray(spl.derivatives[j]))]
            toks += [fs2b(np.ravel(np.asarray(tri.triangular))), fs2b(np.asarray(tri.loc))]
        c.count(f"flows:trispline-stack:dim{dim}:layers{nl}")
        if not ok:
            c.mismatch("flows-structure:hand-built triangular-spline stack", **info)
            continue
        base = StandardNormal((dim,))
        for inv in (True, False):
            bij = B.Invert(scan) if inv else scan
            fl = Transformed(base, bij)
            for rep in range(1 if tier == "quick" else 2):
                x = [rng.uniform(-1.5, 1.5) for _ in range(dim)]
                cond = None if cd is None else jnp.asarray([rng.uniform(-1, 1) for _ in range(cd)])
                key = jr.PRNGKey(rng.randrange(2 ** 31))
                z = [float(v) for v in np.asarray(base.sample(key))]
                for m in methods:
                    arg = z if m in ("s", "slp") else x
                    want = real_values(fl, bij, m, arg, cond, key)
                    if isinstance(want, list) and not well_conditioned(want):
                        c.count("flows:trispline-stack: overflow, not compared")
                        continue
                    line = (f"flow run trispline {m} {1 if inv else 0} {dim} {-1 if cd is None else cd} {fs2b(arg)} "
                            f"{fs2b(np.asarray(cond)) if cond is not None else '-'} {nl} " + " ".join(toks))
                    bt.add(line, want, dict(method=m, invert=inv, x=arg, **info), dict(rtol=1e-7, atol=1e-8))
                    c.case(("trispline-stack", ci, inv, rep, m), True)
                    c.count(f"flows:method:{m}")
        jax.clear_caches()
    bt.run("flows-trispline-stack-model-vs-impl")


def corr_gen_trispline(c, tier, rng, methods=METHODS):
    """the GENERATED `triangular_spline_flow.make_layer` / `get_splines` (driver kind `gentrispline`: `Gen/Flows.lean`
    `triangular_spline_flow.bijection_gen`, the layer AS CONSTRUCTED from what its three keys determine) against real layers built
    statement by statement as `make_layer` does (`tri_make_layer`; the factory itself is not constructible here) and stacked
    into the real `Scan`: the key-determined parameters are perturbed — `init` returns an arbitrary matrix (both signs, non-unit
    diagonal that `.set(1)` must overwrite; every other layer the default glorot_uniform draw), the `Linear` weight is an
    arbitrary matrix, the permutation is the real `jr.permutation` draw; dims 1–4, knots 2–8, conditional and not, both
    orientations, the four bijection methods + log_prob / sample / sample_and_log_prob."""
    bt = Batch(c)
    cfgs = [(1, None, 2, 2, 3.0), (2, 2, 2, 5, 1.5), (3, None, 3, 8, 3.0), (4, 1, 2, 3, 2.0), (3, 2, 1, 4, 0.7), (4, None, 2, 6, 3.0)]
    if tier != "quick":
        more = [(d, cd, nl, k, m) for d in (1, 2, 3, 4) for cd in (None, 1, 3) for nl in (1, 2, 4) for k in (2, 3, 5, 8) for m in (0.7, 3.0)]
        rng.shuffle(more)
        cfgs += more[:30]
    for ci, (dim, cd, nl, knots, mv) in enumerate(cfgs):
        info = dict(stack="generated triangular_spline make_layer", dim=dim, cond_dim=cd, flow_layers=nl, knots=knots, tanh_max_val=mv)
        keys = jr.split(jr.PRNGKey(rng.randrange(10 ** 6)), nl)
        try:
            layers, Ws = [], []
            for li, k in enumerate(keys):
                W = None if li % 2 == 1 else [[rng.choice((-1, 1)) * rng.uniform(0.2, 2.5) for _ in range(dim)] for _ in range(dim)]
                Cw = None if cd is None else [[rng.uniform(-1.5, 1.5) for _ in range(cd)] for _ in range(dim)]
                init = None if W is None else (lambda key, shape, W=W: jnp.asarray(W).reshape(shape))
                Ws.append(W)
                layers.append(tri_make_layer(k, dim, cd, knots, mv, init=init, cond_weight=Cw))
            scan = B.Scan(stack_layers(layers))
        except Exception as ex:
            c.mismatch("flows-gen-trispline-constructs", exc=repr(ex)[:200], **info)
            continue
        toks = [f2b(mv), str(knots)]
        ok = True
        for li, (layer, k) in enumerate(zip(fj.unstack_scan(scan), keys)):
            sp = split_layer(c, layer, dim, dict(layer=li, **info))
            if sp is None:
                ok = False
                break
            # what the three keys determine, recomputed from the keys / read back from the stored (NOT unwrapped) leaves
            lt_key, perm_key, cond_key = jr.split(k, 3)
            if Ws[li] is None:
                from jax.nn.initializers import glorot_uniform
                Wd = np.asarray(glorot_uniform()(lt_key, (dim, dim)))
            else:
                Wd = np.asarray(Ws[li])                                  # what `init` returned (non-unit diagonal: `.set(1)` is the model's job)
            cw = fs2b(np.ravel(np.asarray(sp[0][4].module.weight))) if cd is not None else "-"
            toks += [sp[1], fs2b(np.ravel(Wd)), cw]
        c.count(f"flows:gen-trispline:dim{dim}:knots{knots}:{'cond' if cd is not None else 'uncond'}")
        if not ok:
            c.mismatch("flows-structure:hand-built triangular-spline stack (generated make_layer)", **info)
            continue
        base = StandardNormal((dim,))
        for inv in (True, False):
            bij = B.Invert(scan) if inv else scan
            fl = Transformed(base, bij)
            x = [rng.uniform(-1.5, 1.5) for _ in range(dim)]
            cond = None if cd is None else jnp.asarray([rng.uniform(-1, 1) for _ in range(cd)])
            key = jr.PRNGKey(rng.randrange(2 ** 31))
            z = [float(v) for v in np.asarray(base.sample(key))]
            for m in methods:
                arg = z if m in ("s", "slp") else x
                want = real_values(fl, bij, m, arg, cond, key)
                if isinstance(want, list) and not well_conditioned(want):
                    c.count("flows:gen-trispline: overflow, not compared")
                    continue
                line = (f"flow run gentrispline {m} {1 if inv else 0} {dim} {-1 if cd is None else cd} {fs2b(arg)} "
                        f"{fs2b(np.asarray(cond)) if cond is not None else '-'} {nl} " + " ".join(toks))
                bt.add(line, want, dict(method=m, invert=inv, x=arg, **info), dict(rtol=1e-7, atol=1e-8))
                c.case(("gen-trispline", ci, inv, m), True)
                c.count(f"flows:gen-trispline:method:{m}")
        jax.clear_caches()
    bt.run("flows-gen-trispline-make_layer-vs-impl")


# ------------------------------------------------------------------ entry points
def corr_flows(c, tier, rng, parts=("helpers", "factories", "bnaf", "trispline", "gentrispline"), methods=METHODS, trispline_methods=None):
    """`methods`: which public methods of the flow are compared (C01: the four bijection methods; C03: log_prob, sample,
    sample_and_log_prob; C08: the forward pass of the Scan) — the structural checks always run.
    `trispline_methods`: the methods compared on the hand-built triangular-spline stacks (default: `methods`).  In the quick
    tier the `bnaf` and `trispline` parts run under ONE property (C01, which then compares all seven methods on the
    triangular-spline stacks); C03 / C08 add them in the thorough tier."""
    factories_unconstructible(c)
    if "helpers" in parts:
        degenerate_observations(c)
        corr_helpers(c, tier, rng)
    if "factories" in parts:
        corr_factories(c, tier, rng, methods)
    if "bnaf" in parts:
        corr_bnaf_stacks(c, tier, rng)
    if "trispline" in parts:
        corr_trispline_stacks(c, tier, rng, trispline_methods or methods)
    if "gentrispline" in parts:
        corr_gen_trispline(c, tier, rng, trispline_methods or methods)


# ------------------------------------------------------------------ oracle on the real code (no model)
def search_flows(tier, rng, limit=5):
    """C01 / C03 / C08 oracles on real factory-built flows (no model): round trips of `flow.bijection`, log_prob by change of
    variables, sample = bijection(base sample), sample_and_log_prob consistent, Scan vs Chain of the unstacked layers, and
    "the public methods do not raise on a well-shaped input"."""
    from props import c01, c03
    wit = []
    cfgs = factory_configs("quick", rng)
    rng.shuffle(cfgs)
    for (fac, dim, cd, nl, inv) in cfgs[: (40 if tier == "quick" else len(cfgs))]:
        desc = f"{fac}_flow|dim={dim}|cond={cd}|layers={nl}|invert={inv}"
        try:
            fl0, ex = build_factory_flow(fac, dim, cd, nl, inv, rng)
        except Exception as e:
            wit.append(dict(key=desc + "|construct", desc=desc, exc=repr(e)[:200]))
            continue
        fl = perturb(fl0, rng)
        if fac == "planar" and (ex["slope"] is None or not planar_ok(fl, dim, cd, rng)):
            continue
        cond = None if cd is None else jnp.asarray([rng.uniform(-1, 1) for _ in range(cd)])
        xs = [[rng.uniform(-1.2, 1.2) for _ in range(dim)] for _ in range(2)]
        for w in c01.roundtrip_violations(fl.bijection, desc, xs, cond=cond, eps=1e-8):
            w["tokens"] = ["FLOW", desc]
            wit.append(w)
        try:
            wit += c03.identities_violations(fl, desc, rng, cd)
            scan = fl.bijection.bijection if isinstance(fl.bijection, B.Invert) else fl.bijection   # by introspection, not from the flag
            for m, a, b in (fj.scan_vs_chain_mismatches(scan, jnp.asarray(xs[0]), cond, tol=1e-8) if isinstance(scan, B.Scan) else []):
                wit.append(dict(key=desc + f"|scan-vs-chain|{m}", desc=desc, law="Scan == Chain of its unstacked layers", scan=a, chain=b))
        except Exception as e:
            wit.append(dict(key=desc + "|exception", desc=desc, law="the public methods of a factory-built flow do not raise on a well-shaped input",
                            exc=repr(e)[:200], x=xs[0]))
        jax.clear_caches()
        if len(wit) >= limit:
            break
    return wit[:limit]
