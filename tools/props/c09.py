"""C09 — autoregressive, coupling and block structure holds for all weights.

Tie to the code:
  (g) regeneration: `rank_based_mask`, `block_diag_mask`, `block_tril_mask`, the rank assignment of `MaskedAutoregressive.__init__`
      and the per-layer masks of `masked_autoregressive_mlp` are re-translated from /repo on every run (`Gen/MasksGen.lean`,
      typing sheet `tools/py2lean/targets_masks.py`) and PROVED equal to the hand model for every size (`Proofs/MasksGen.lean`);
      the generated definitions are also run (ops `g…`) against the real functions / `Where.cond`s on the same grid as the model;
  (a) structure (the model `lean/Flowjaxv/Model/Masks.lean` is hand-written): the model's `rank_based_mask` / `block_diag_mask` / `block_tril_mask`, integer `%`, rank vectors and
      layer masks are compared ENTRY BY ENTRY with the real `flowjax.masks.*` and with the `Where.cond` arrays found
      in a really constructed `MaskedAutoregressive(...)`, exhaustively over the size grid;
  (b) behaviour: the model's forward passes (masked MLP -> flat transformer parameters -> Affine transform, Coupling,
      BlockAutoregressiveNetwork) are run at Float on the RAW (trainable) arrays extracted from real objects whose
      leaves were overwritten with arbitrary values, and compared with the real methods; the model's structural
      dependency pattern (Boolean product of its masks) is compared with the sparsity pattern of `jax.jacobian` of the
      real `transform` w.r.t. x and the condition: random weights of both signs => real pattern ⊆ model pattern;
      all-positive weights => patterns are EQUAL (every permitted path is visible: completeness).
`search` evaluates the property's own oracle (Jacobian patterns + documented mask patterns) on the real code only.
"""
from __future__ import annotations

import itertools

import equinox as eqx
import jax
import jax.numpy as jnp
import jax.random as jr
import numpy as np

import flowjax.bijections as B
from flowjax import masks as M
from flowjax.wrappers import unwrap

import vlib
from vlib import fs2b, b2fs, ints

ID = "C09"
GEN = ["MasksGen", "BnafGen", "Wrappers", "NetGen", "BnafInitGen"]
RULE = ("exhaustive size grid: rank_based_mask on integer rank vectors of length 0..4 with repeated/negative ranks, both eq; "
        "block masks for block shapes (1..3)x(1..3), n_blocks 1..4, k in -2..2; MaskedAutoregressive for dim 1..5, cond_dim None/1/3, "
        "width 1..7, depth 0..3, transformer Affine (2 params) / RationalQuadraticSpline(knots=2) (8 params): every Where.cond mask "
        "compared entry by entry; forward passes and Jacobian sparsity on a sub-grid with every raw leaf overwritten (random of both "
        "signs and magnitude up to 3, and the all-positive assignment), activations relu/tanh/softplus; a case is non-trivial when a "
        "size is degenerate (dim 1, width < dim, depth 0, n_blocks 1, k != 0) or the raw weights differ from the initialisation; "
        "distinct = distinct (object kind, sizes, weight assignment, quantity compared)")
TRUSTED = [
    "Coupling / MaskedAutoregressive methods: GENERATED Gen/NetGen.lean (translator tools/py2lean/py2meth.py, typing sheet targets_net.py) over "
    "the hand-written meanings of the library calls in Model/NetWorld.lean (hstack/concatenate = ++, slices = take/drop, reshape(…, (dim, -1)) = reshapeRows, "
    "filter_vmap(transformer_constructor) + Vmap(in_axes=if_array(0)) = one scalar bijection per coordinate with SUMMED log-dets, lax.scan(f, init, None, length=n) "
    "= n-fold iteration, traced x[i] clamps, .at[i].set drops out of range, conditioner / masked MLP = an abstract function) — proved equal to the hand models "
    "(gen_coupling_eq_model, gen_maf_eq_model) and run against real objects by tools/props/netgen.py",
    "Lean 4.33 kernel; Mathlib v4.33; axioms propext, Classical.choice, Quot.sound",
    "hand-written model lean/Flowjaxv/Model/Masks.lean (masks, rank formulas, masked MLP, Coupling.transform, BNAF transform), "
    "tied by this correspondence: masks entry by entry on the whole grid, forward passes at Float (rtol 1e-9); the mask helpers, rank "
    "assignment and per-layer masks additionally by regeneration (Gen/MasksGen.lean proved equal to the model for every size)",
    "translator tools/py2lean/py2mask.py + typing sheet targets_masks.py (dim, width, cond_dim, n_blocks, block_shape entries are "
    "non-negative ints; num_params and the eqx.nn.MLP enter as parameters) and the primitive specs Prelude/JnpMask.lean "
    "(arange, integer %, hstack, repeat, broadcasting comparison, zeros, Python slice bounds, .at[a:b, c:d].set, block_diag, "
    "enumerate, list indexing) — validated here against the real functions",
    "Prelude/Jnp.lean `dot`/`sum` (sequential sums; XLA's reduction order differs only by rounding)",
    "equinox.nn.MLP / Linear call semantics (weight @ x + bias, scalar activation per unit) as modelled by `mlpForward`",
    "theorems are over ℝ and about dependency (functions agreeing on inputs), the Jacobian statement for BNAF is the chain-rule "
    "matrix product; differentiability of the activation is not modelled",
]
ASSUMPTIONS = [
    "eqx.nn.MLP allocates weight l with shape (n_{l+1}, n_l) — the model's `WellShaped` hypothesis (checked on every real object here)",
    "BNAF: `bnaf_jacobian` is proved for the chain-rule product W_L·D_{L-1}·…·D_1·W_1 with arbitrary positive diagonal D_l "
    "and in dependency/monotonicity form for the model's transform; identification of that product with the Fréchet derivative is standard calculus, not formalised",
]

TOL = dict(rtol=1e-9, atol=1e-11)
KEY = jr.key(0)
ACTS = {"relu": jax.nn.relu, "tanh": jnp.tanh, "softplus": jax.nn.softplus}


# ------------------------------------------------------------------ helpers
def parse_mask(s):
    if s == "-":
        return []
    return [[] if r == "e" else [c == "1" for c in r] for r in s.split("/")]


def np_mask(a):
    return [[bool(v) for v in row] for row in np.asarray(a)]


def cd_tok(cd):
    return "-1" if cd is None else str(cd)


def transformer(kind):
    if kind == "affine":
        return B.Affine(), 2
    return B.RationalQuadraticSpline(knots=2, interval=1), 8


def overwrite(tree, rng, mode, mag=1.5):
    """every inexact-array leaf (raw weights, biases, raw scales) gets new values: 'pos' in [0.2, 1.2], 'rand' both signs"""
    def f(leaf):
        if eqx.is_inexact_array(leaf):
            n = int(np.prod(leaf.shape)) if leaf.shape else 1
            if mode == "pos":
                vals = [rng.uniform(0.2, 1.2) for _ in range(n)]
            else:
                vals = [rng.choice([-1, 1]) * rng.uniform(0.05, mag) for _ in range(n)]
            return jnp.asarray(np.reshape(vals, leaf.shape), dtype=leaf.dtype)
        return leaf
    return jax.tree_util.tree_map(f, tree)


def maf_real_masks(bij):
    """the Where.cond arrays; None when a weight is not a Where node (mask not applied at unwrap)"""
    if not all(hasattr(l.weight, "cond") and hasattr(l.weight, "if_true") for l in bij.masked_autoregressive_mlp.layers):
        return None
    return [np_mask(l.weight.cond) for l in bij.masked_autoregressive_mlp.layers]


def maf_layer_fields(bij):
    out = []
    for l in bij.masked_autoregressive_mlp.layers:
        out += [fs2b(np.ravel(np.asarray(l.weight.if_true))), fs2b(np.ravel(np.asarray(l.bias)))]
    return out


def affine_init():
    import flowjax
    from jax.flatten_util import ravel_pytree
    params, _ = eqx.partition(B.Affine(), eqx.is_inexact_array, is_leaf=lambda leaf: isinstance(leaf, flowjax.wrappers.NonTrainable))
    return [float(v) for v in ravel_pytree(params)[0]]


def pattern(J):
    return [[bool(v != 0) for v in row] for row in np.atleast_2d(np.asarray(J))]


def subset(a, b):
    return all((not x) or y for ra, rb in zip(a, b) for x, y in zip(ra, rb))


def closed_block_tril(b0, b1, n, k):
    return [[(c // b1) - k <= (r // b0) for c in range(b1 * n)] for r in range(b0 * n)]


def closed_block_diag(b0, b1, n):
    return [[(c // b1) == (r // b0) for c in range(b1 * n)] for r in range(b0 * n)]


def maf_dep_from_reach(reach, dim, npar, ncond):
    """transform's dependency pattern predicted from the parameter reach matrix: y_i on x_i itself and on whatever its
    transformer parameters see"""
    dx = [[(j == i) or any(reach[i * npar + k][j] for k in range(npar)) for j in range(dim)] for i in range(dim)]
    dc = [[any(reach[i * npar + k][dim + c] for k in range(npar)) for c in range(ncond)] for i in range(dim)]
    return dx, dc


# ------------------------------------------------------------------ correspondence
def corr_masks(c, tier, rng):
    lines, wants, infos = [], [], []
    # integer remainder (x % 0 == 0, sign of the divisor)
    for a in range(-4, 7):
        for b in range(-3, 6):
            lines.append(f"jmod {a} {b}")
            wants.append(str(int(jnp.remainder(jnp.asarray(a), jnp.asarray(b)))))
            infos.append(("jmod", dict(a=a, b=b)))
            c.case(("jmod", a, b), b <= 0 or a < 0)
            c.count("jmod")
    # rank_based_mask, every pair of rank vectors over {-1,0,1,2} of length 0..3 (+ random longer ones)
    vecs = [list(v) for n in range(0, 4) for v in itertools.product([-1, 0, 2], repeat=n)]
    pairs = [(a, b) for a in vecs for b in vecs]
    if tier == "quick":
        pairs = rng.sample(pairs, 150)
    pairs += [([rng.randint(-2, 4) for _ in range(rng.randint(1, 6))], [rng.randint(-2, 4) for _ in range(rng.randint(1, 6))]) for _ in range(60)]
    for a, b in pairs:
        for eq in (False, True):
            real = np_mask(M.rank_based_mask(jnp.asarray(a, int), jnp.asarray(b, int), eq=eq)) if b else []
            lines.append(f"rankmask {ints(a)} {ints(b)} {int(eq)}")
            wants.append(real)
            infos.append(("rank_based_mask", dict(in_ranks=a, out_ranks=b, eq=eq)))
            c.case(("rank", tuple(a), tuple(b), eq), len(set(a) & set(b)) > 0, sample={"op": lines[-1], "impl": real} if len(a) == 3 and len(b) == 2 and eq else None)
            c.count("rank_based_mask")
    # block masks, the whole grid
    for b0 in range(1, 4):
        for b1 in range(1, 4):
            for n in range(1, 5):
                real = np_mask(M.block_diag_mask((b0, b1), n))
                lines.append(f"blockdiag {b0} {b1} {n}")
                wants.append(real)
                infos.append(("block_diag_mask", dict(block_shape=(b0, b1), n_blocks=n)))
                c.case(("bdiag", b0, b1, n), True)
                c.count("block_diag_mask")
                if real != closed_block_diag(b0, b1, n):
                    c.mismatch("block_diag_mask-documented-pattern", block_shape=(b0, b1), n_blocks=n, impl=real)
                for k in range(-2, 3):
                    real = np_mask(M.block_tril_mask((b0, b1), n, k))
                    lines.append(f"blocktril {b0} {b1} {n} {k}")
                    wants.append(real)
                    infos.append(("block_tril_mask", dict(block_shape=(b0, b1), n_blocks=n, k=k)))
                    c.case(("btril", b0, b1, n, k), True, sample={"op": lines[-1], "impl": real} if (b0, b1, n, k) == (2, 1, 3, -1) else None)
                    c.count("block_tril_mask")
                    if real != closed_block_tril(b0, b1, n, k):
                        c.mismatch("block_tril_mask-documented-pattern", block_shape=(b0, b1), n_blocks=n, k=k, impl=real)
    add_generated(c, lines, wants, infos)
    outs = vlib.run_model(lines)
    for line, got, want, (name, info) in zip(lines, outs, wants, infos):
        tag = "-generated" if line.startswith("g") else ""
        if name == "jmod":
            if got != want:
                c.mismatch("jmod" + tag + "-vs-jnp.remainder", op=line, model=got, impl=want, **info)
        elif got.startswith("ERR") or parse_mask(got) != want:
            c.mismatch(name + tag + "-vs-impl", op=line, model=got, impl=want, **info)


GEN_OPS = {"jmod": "gimod", "rankmask": "grankmask", "blockdiag": "gblockdiag", "blocktril": "gblocktril", "mafranks": "gmafranks",
           "mafmasks": "gmafmasks"}


def add_generated(c, lines, wants, infos):
    """every structural op once more on the definitions generated from the source (same expected value from the real code)"""
    for line, want, info in list(zip(lines, wants, infos)):
        op, rest = line.split(" ", 1)
        if op in GEN_OPS:
            lines.append(GEN_OPS[op] + " " + rest)
            wants.append(want)
            infos.append(info)
            c.case(("generated", line), True, sample={"op": lines[-1], "impl": want} if line in ("blocktril 2 1 3 -1", "mafmasks 3 1 2 1 2") else None)
            c.count("generated:" + op)


def maf_grid(tier):
    for dim in range(1, 6):
        for cd in (None, 1, 3):
            for w in range(1, 8):
                for depth in range(0, 4):
                    for tk in ("affine", "rqs"):
                        yield dim, cd, w, depth, tk


def corr_maf_masks(c, tier, rng):
    """every Where.cond of a really constructed MaskedAutoregressive vs the model's layer masks, whole grid"""
    lines, wants, infos = [], [], []
    for dim, cd, w, depth, tk in maf_grid(tier):
        tr, npar = transformer(tk)
        bij = B.MaskedAutoregressive(KEY, transformer=tr, dim=dim, cond_dim=cd, nn_width=w, nn_depth=depth)
        real = maf_real_masks(bij)
        if real is None:
            c.mismatch("maf-weights-are-Where-nodes", dim=dim, cond_dim=cd, width=w, depth=depth, transformer=tk)
            continue
        shapes_ok = all(tuple(l.weight.if_true.shape) == tuple(np.asarray(l.weight.cond).shape) and l.bias.shape == (l.weight.if_true.shape[0],)
                        for l in bij.masked_autoregressive_mlp.layers)
        if not shapes_ok or len(real) != depth + 1:
            c.mismatch("maf-well-shaped", dim=dim, cond_dim=cd, width=w, depth=depth, transformer=tk)
        lines.append(f"mafmasks {dim} {cd_tok(cd)} {w} {depth} {npar}")
        wants.append(real)
        infos.append(dict(dim=dim, cond_dim=cd, width=w, depth=depth, transformer=tk))
        c.case(("mafmasks", dim, cd, w, depth, tk), dim == 1 or w < dim or depth == 0 or cd == 1,
               sample={"op": lines[-1], "impl": ["/".join("".join("1" if v else "0" for v in r) for r in m) for m in real]} if (dim, cd, w, depth, tk) == (3, 1, 2, 1, "affine") else None)
        c.count("maf-masks:" + ("cond" if cd is not None else "uncond"))
        # rank formulas evaluated by the real jnp primitives
        if tk == "affine":
            if cd is None:
                rin, rhid = jnp.arange(dim), jnp.arange(w) % (dim - 1)
            else:
                rin, rhid = jnp.hstack((jnp.arange(dim), -jnp.ones(cd, int))), (jnp.arange(w) % dim) - 1
            rout = jnp.repeat(jnp.arange(dim), npar)
            lines.append(f"mafranks {dim} {cd_tok(cd)} {w} {npar}")
            wants.append("|".join(ints(np.asarray(v)) for v in (rin, rhid, rout)))
            infos.append(dict(ranks=True, dim=dim, cond_dim=cd, width=w))
            c.case(("mafranks", dim, cd, w), dim == 1 or w < dim)
            c.count("maf-ranks")
    add_generated(c, lines, wants, infos)
    outs = vlib.run_model(lines)
    for line, got, want, info in zip(lines, outs, wants, infos):
        tag = "generated-" if line.startswith("g") else ""
        if info.get("ranks"):
            if got != want:
                c.mismatch(tag + "maf-rank-vectors-vs-jnp", op=line, model=got, impl=want, **info)
        else:
            model = [parse_mask(m) for m in got.split("|")] if not got.startswith("ERR") else got
            if model != want:
                c.mismatch(tag + "maf-layer-masks-vs-Where.cond", op=line, model=got, impl=want, **info)


def behaviour_configs(tier, rng):
    if tier == "quick":
        maf = [(1, None, 3, 1), (1, 2, 2, 2), (2, None, 1, 1), (3, 1, 3, 0), (3, None, 2, 2), (4, 3, 5, 1), (5, None, 7, 3), (4, 1, 2, 2)]
        coup = [(1, 2, None, 3, 1), (2, 5, 2, 4, 0), (3, 4, 1, 2, 2)]
        bn = [(1, None, 0, 1), (3, 2, 0, 2), (2, None, 1, 3), (3, 1, 2, 2), (4, None, 3, 1)]
    else:
        maf = [(d, cd, w, dep) for d in range(1, 6) for cd in (None, 1, 3) for w in range(1, 8) for dep in range(0, 4)]
        coup = [(u, d, cd, w, dep) for d in range(2, 6) for u in range(1, d) for cd in (None, 1, 3) for w in (1, 4) for dep in (0, 1, 2)]
        bn = [(d, cd, dep, bd) for d in range(1, 5) for cd in (None, 1, 3) for dep in range(0, 4) for bd in (1, 2, 3)]
    return maf, coup, bn


def bnaf_raw(bn):
    """(raw weight, bias, raw scale) per layer of a real BlockAutoregressiveNetwork (weights live in two Where nodes)"""
    out = []
    for lin, _ in bn.layers:
        wn = lin.weight                       # WeightNormalization
        outer = wn.weight                     # Where(diag, BijectionReparam(Where(tril, w, 0)), Where(tril, w, 0))
        w_diag = np.asarray(outer.if_true.arr.if_true)
        w_off = np.asarray(outer.if_false.if_true)
        raw = np.where(np.asarray(outer.cond), w_diag, w_off)
        out.append((raw, np.asarray(lin.bias), np.ravel(np.asarray(wn.scale.arr))))
    return out


def corr_behaviour(c, tier, rng):
    maf, coup, bn = behaviour_configs(tier, rng)
    init = affine_init()
    lines, checks = [], []
    acts = list(ACTS)
    # ---- MaskedAutoregressive
    for ci, (dim, cd, w, depth) in enumerate(maf):
        ncond = cd or 0
        for mode in ("rand", "pos"):
            act = "relu" if mode == "pos" else acts[ci % 3]
            bij0 = B.MaskedAutoregressive(KEY, transformer=B.Affine(), dim=dim, cond_dim=cd, nn_width=w, nn_depth=depth, nn_activation=ACTS[act])
            bij = overwrite(bij0, rng, mode, mag=3.0)
            if maf_real_masks(bij) is None:
                c.mismatch("maf-weights-are-Where-nodes", dim=dim, cond_dim=cd, width=w, depth=depth)
                continue
            x = jnp.asarray([rng.uniform(0.1, 1.0) for _ in range(dim)])
            cond = None if cd is None else jnp.asarray([rng.uniform(0.1, 1.0) for _ in range(cd)])
            nn_in = x if cond is None else jnp.hstack((x, cond))
            u = unwrap(bij)
            flat = np.asarray(u.masked_autoregressive_mlp(nn_in))
            y = np.asarray(bij.transform(x, cond))
            # masks survive the overwrite of the raw arrays
            for l, lu in zip(bij.masked_autoregressive_mlp.layers, u.masked_autoregressive_mlp.layers):
                if np.any(np.asarray(lu.weight)[~np.asarray(l.weight.cond)] != 0):
                    c.mismatch("mask-survives-update", dim=dim, cond_dim=cd, width=w, depth=depth, mode=mode)
            line = (f"mafnet {act} {dim} {cd_tok(cd)} {w} {depth} 2 {fs2b(x)} {fs2b(cond) if cond is not None else '-'} {fs2b(init)} "
                    + " ".join(maf_layer_fields(bij)))
            lines.append(line)
            checks.append(("floats2", (list(flat), list(y)), dict(kind="maf", dim=dim, cond_dim=cd, width=w, depth=depth, mode=mode, act=act)))
            c.case(("maf-forward", dim, cd, w, depth, mode), True, sample={"op": line[:160], "impl": list(y)} if ci == 3 and mode == "rand" else None)
            c.count("maf-forward:" + mode)
            # Jacobian sparsity vs the model's structural pattern
            Jp = jax.jacobian(lambda z: u.masked_autoregressive_mlp(z))(nn_in)
            if cond is None:
                Jx, Jc = jax.jacobian(bij.transform)(x), np.zeros((dim, 0))
            else:
                Jx, Jc = jax.jacobian(bij.transform, argnums=(0, 1))(x, cond)
            lines.append(f"mafdeps {dim} {cd_tok(cd)} {w} {depth} 2")
            checks.append(("mafdeps", (pattern(Jp) if Jp.size else [[] for _ in range(2 * dim)], pattern(Jx), pattern(Jc) if ncond else [[] for _ in range(dim)]),
                           dict(kind="maf", dim=dim, cond_dim=cd, width=w, depth=depth, mode=mode, act=act)))
            c.case(("maf-jacobian", dim, cd, w, depth, mode), True)
            c.count("maf-jacobian:" + mode)
    # ---- Coupling
    for ci, (ud, dim, cd, w, depth) in enumerate(coup):
        for mode in ("rand", "pos"):
            act = "relu" if mode == "pos" else acts[ci % 3]
            cp = overwrite(B.Coupling(KEY, transformer=B.Affine(), untransformed_dim=ud, dim=dim, cond_dim=cd, nn_width=w, nn_depth=depth, nn_activation=ACTS[act]), rng, mode, mag=2.0)
            x = jnp.asarray([rng.uniform(0.1, 1.0) for _ in range(dim)])
            cond = None if cd is None else jnp.asarray([rng.uniform(0.1, 1.0) for _ in range(cd)])
            y = np.asarray(cp.transform(x, cond))
            fields = []
            for l in cp.conditioner.layers:
                fields += [fs2b(np.ravel(np.asarray(l.weight))), fs2b(np.ravel(np.asarray(l.bias)))]
            line = f"coupling {act} {ud} {dim} {cd_tok(cd)} {w} {depth} {fs2b(x)} {fs2b(cond) if cond is not None else '-'} {fs2b(init)} " + " ".join(fields)
            lines.append(line)
            checks.append(("floats1", list(y), dict(kind="coupling", untransformed_dim=ud, dim=dim, cond_dim=cd, width=w, depth=depth, mode=mode)))
            c.case(("coupling-forward", ud, dim, cd, w, depth, mode), True, sample={"op": line[:160], "impl": list(y)} if ci == 1 and mode == "rand" else None)
            c.count("coupling-forward:" + mode)
            for wv in coupling_violations(cp, x, cond, ud, dim, cd, complete=(mode == "pos")):
                c.mismatch("coupling-jacobian-pattern", **wv)
            c.case(("coupling-jacobian", ud, dim, cd, w, depth, mode), True)
            c.count("coupling-jacobian:" + mode)
    # ---- BlockAutoregressiveNetwork
    for ci, (dim, cd, depth, bd) in enumerate(bn):
        for mode in ("rand", "pos"):
            net = overwrite(B.BlockAutoregressiveNetwork(KEY, dim=dim, cond_dim=cd, depth=depth, block_dim=bd, activation=jnp.tanh), rng, mode, mag=1.5)
            x = jnp.asarray([rng.uniform(-1.0, 1.0) for _ in range(dim)])
            cond = None if cd is None else jnp.asarray([rng.uniform(0.1, 1.0) for _ in range(cd)])
            y = np.asarray(net.transform(x, cond))
            fields = []
            for raw, b, s in bnaf_raw(net):
                fields += [fs2b(np.ravel(raw)), fs2b(b), fs2b(s)]
            cmat = fs2b(np.ravel(np.asarray(net.cond_linear.weight))) if cd is not None else "-"
            line = f"bnaf tanh {dim} {cd_tok(cd)} {depth} {bd} {fs2b(x)} {fs2b(cond) if cond is not None else '-'} {cmat} " + " ".join(fields)
            lines.append(line)
            checks.append(("floats1", list(y), dict(kind="bnaf", dim=dim, cond_dim=cd, depth=depth, block_dim=bd, mode=mode)))
            c.case(("bnaf-forward", dim, cd, depth, bd, mode), True, sample={"op": line[:160], "impl": list(y)} if ci == 3 and mode == "rand" else None)
            c.count("bnaf-forward:" + mode)
            if cond is None:
                Jx, Jc = jax.jacobian(net.transform)(x), np.zeros((dim, 0))
            else:
                Jx, Jc = jax.jacobian(net.transform, argnums=(0, 1))(x, cond)
            lines.append(f"bnafdeps {dim} {depth} {bd}")
            checks.append(("bnafdeps", (np.asarray(Jx), np.asarray(Jc)), dict(kind="bnaf", dim=dim, cond_dim=cd, depth=depth, block_dim=bd, mode=mode)))
            c.case(("bnaf-jacobian", dim, cd, depth, bd, mode), True)
            c.count("bnaf-jacobian:" + mode)
    outs = vlib.run_model(lines)
    for line, got, (kind, want, info) in zip(lines, outs, checks):
        if got.startswith("ERR"):
            c.mismatch("model-rejected-op", op=line[:300], model=got, **info)
            continue
        if kind == "floats1":
            if not vlib.allclose(b2fs(got), want, **TOL):
                c.mismatch(info["kind"] + "-transform-vs-impl", op=line[:300], model=b2fs(got), impl=want, **info)
        elif kind == "floats2":
            a, b = got.split(" ")
            if not vlib.allclose(b2fs(a), want[0], **TOL):
                c.mismatch("maf-flat-params-vs-impl", op=line[:300], model=b2fs(a), impl=want[0], **info)
            if not vlib.allclose(b2fs(b), want[1], **TOL):
                c.mismatch("maf-transform-vs-impl", op=line[:300], model=b2fs(b), impl=want[1], **info)
        elif kind == "mafdeps":
            reach = parse_mask(got)
            Pp, Px, Pc = want
            dim, ncond = info["dim"], info["cond_dim"] or 0
            dx, dc = maf_dep_from_reach(reach, dim, 2, ncond)
            # the model's pattern is itself autoregressive (what maf_autoregressive proves) …
            if any(reach[o][j] and j < dim and not (j < o // 2) for o in range(2 * dim) for j in range(dim + ncond)):
                c.mismatch("model-pattern-not-autoregressive", model=got, **info)
            # … and complete when width >= dim (what maf_complete proves)
            if info["width"] >= dim and any(not reach[o][j] for o in range(2 * dim) for j in range(dim + ncond) if j < o // 2 or j >= dim):
                c.mismatch("model-pattern-incomplete", model=got, **info)
            ok = subset(Pp, reach) and subset(Px, dx) and subset(Pc, dc)
            if info["mode"] == "pos":
                ok = ok and Pp == reach and Px == dx and Pc == dc
            if not ok:
                c.mismatch("maf-jacobian-pattern-vs-model", model=got, impl_params=Pp, impl_x=Px, impl_cond=Pc, **info)
        elif kind == "bnafdeps":
            tril_s, diag_s, cond_used = got.split("|")
            tril, diag = parse_mask(tril_s), parse_mask(diag_s)
            Jx, Jc = want
            dim = info["dim"]
            ok = subset(pattern(Jx), tril) and all(Jx[i][j] > 0 for i in range(dim) for j in range(dim) if diag[i][j])
            ok = ok and tril == [[j <= i for j in range(dim)] for i in range(dim)] and diag == [[j == i for j in range(dim)] for i in range(dim)]
            if cond_used == "0":
                ok = ok and not np.any(Jc != 0)
            if info["mode"] == "pos":
                ok = ok and pattern(Jx) == tril and (cond_used == "0" or bool(np.all(Jc != 0)))
            if not ok:
                c.mismatch("bnaf-jacobian-pattern-vs-model", model=got, impl_x=np.asarray(Jx).tolist(), impl_cond=np.asarray(Jc).tolist(), **info)


def corr(c, tier, rng):
    corr_masks(c, tier, rng)
    corr_maf_masks(c, tier, rng)
    corr_behaviour(c, tier, rng)
    # --- the GENERATED transform / inverse of Coupling / MaskedAutoregressive (Gen/NetGen.lean) against real objects
    from props import netgen
    netgen.corr_gen(c, tier, rng, light=(tier == "quick"))
    # --- the GENERATED `BlockAutoregressiveNetwork.__init__` (Gen/BnafInitGen.lean) against real constructions
    from props import bnafld
    bnafld.corr_init(c, tier, rng)


# ------------------------------------------------------------------ the property's oracle on the real code only
def coupling_violations(cp, x, cond, ud, dim, cd, complete):
    out = []
    if cond is None:
        Jx, Jc = np.asarray(jax.jacobian(cp.transform)(x)), np.zeros((dim, 0))
    else:
        Jx, Jc = (np.asarray(v) for v in jax.jacobian(cp.transform, argnums=(0, 1))(x, cond))
    y = np.asarray(cp.transform(x, cond))
    info = dict(kind="coupling", untransformed_dim=ud, dim=dim, cond_dim=cd)
    if not np.array_equal(y[:ud], np.asarray(x)[:ud]):
        out.append(dict(info, law="first block returned unchanged"))
    for i in range(dim):
        for j in range(dim):
            allowed = (j == i) if i < ud else (j < ud or j == i)
            if not allowed and Jx[i, j] != 0:
                out.append(dict(info, law="coordinate i depends only on itself and the first block", i=i, j=j, value=float(Jx[i, j])))
            if i < ud and j == i and Jx[i, j] != 1:
                out.append(dict(info, law="first block is the identity", i=i, j=j, value=float(Jx[i, j])))
            if complete and i >= ud and allowed and Jx[i, j] == 0:
                out.append(dict(info, law="permitted dependency present (all-positive weights)", i=i, j=j))
    if np.any(Jc[:ud] != 0):
        out.append(dict(info, law="first block independent of the condition"))
    if complete and np.any(Jc[ud:] == 0):
        out.append(dict(info, law="condition reaches every transformed coordinate (all-positive weights)"))
    return out


def maf_violations(bij, x, cond, dim, cd, w, npar, complete):
    out = []
    info = dict(kind="maf", dim=dim, cond_dim=cd, width=w)
    u = unwrap(bij)
    nn_in = x if cond is None else jnp.hstack((x, cond))
    Jp = np.asarray(jax.jacobian(lambda z: u.masked_autoregressive_mlp(z))(nn_in)).reshape(dim * npar, -1)
    Jx = np.asarray(jax.jacobian(lambda v: bij.transform(v, cond))(x))
    for l, lu in zip(bij.masked_autoregressive_mlp.layers, u.masked_autoregressive_mlp.layers):
        if hasattr(l.weight, "cond") and np.any(np.asarray(lu.weight)[~np.asarray(l.weight.cond)] != 0):
            out.append(dict(info, law="unwrapped weight is zero wherever the mask is false"))
    for o in range(dim * npar):
        i = o // npar
        for j in range(dim):
            if j >= i and Jp[o, j] != 0:
                out.append(dict(info, law="transformer parameters of coordinate i depend only on x_j, j < i", i=i, j=j, value=float(Jp[o, j])))
            if complete and j < i and Jp[o, j] == 0:
                out.append(dict(info, law="width >= dim: permitted dependency present (all-positive weights)", i=i, j=j))
        if complete and cd is not None and np.any(Jp[o, dim:] == 0):
            out.append(dict(info, law="condition reaches every transformer parameter (all-positive weights)", i=i))
    for i in range(dim):
        for j in range(i + 1, dim):
            if Jx[i, j] != 0:
                out.append(dict(info, law="output i depends only on inputs 0..i", i=i, j=j, value=float(Jx[i, j])))
    return out


def bnaf_violations(net, x, cond, dim, cd, depth, bd, complete):
    out = []
    info = dict(kind="bnaf", dim=dim, cond_dim=cd, depth=depth, block_dim=bd)
    Jx = np.asarray(jax.jacobian(lambda v: net.transform(v, cond))(x))
    for i in range(dim):
        if not Jx[i, i] > 0:
            out.append(dict(info, law="strictly positive diagonal", i=i, value=float(Jx[i, i])))
        for j in range(i + 1, dim):
            if Jx[i, j] != 0:
                out.append(dict(info, law="lower-triangular Jacobian", i=i, j=j, value=float(Jx[i, j])))
    return out


def build(w, rng):
    """rebuild the real object + inputs of a witness/config (all randomness from the recorded sub-seed)"""
    import random
    r = random.Random(w["subseed"])
    k = w["kind"]
    if k == "maf":
        tr, npar = transformer(w["transformer"])
        obj = B.MaskedAutoregressive(KEY, transformer=tr, dim=w["dim"], cond_dim=w["cond_dim"], nn_width=w["width"], nn_depth=w["depth"], nn_activation=ACTS[w["act"]])
    elif k == "coupling":
        obj = B.Coupling(KEY, transformer=B.Affine(), untransformed_dim=w["untransformed_dim"], dim=w["dim"], cond_dim=w["cond_dim"], nn_width=w["width"], nn_depth=w["depth"], nn_activation=ACTS[w["act"]])
    else:
        obj = B.BlockAutoregressiveNetwork(KEY, dim=w["dim"], cond_dim=w["cond_dim"], depth=w["depth"], block_dim=w["block_dim"], activation=jnp.tanh)
    obj = overwrite(obj, r, w["mode"], mag=3.0 if k == "maf" else 1.5)
    x = jnp.asarray([r.uniform(0.1, 0.9) for _ in range(w["dim"])])
    cond = None if w["cond_dim"] is None else jnp.asarray([r.uniform(0.1, 1.0) for _ in range(w["cond_dim"])])
    return obj, x, cond


def evaluate(w):
    k = w["kind"]
    if k == "mask":
        return mask_violations(only=w)
    obj, x, cond = build(w, None)
    complete = w["mode"] == "pos"
    if k == "maf":
        npar = transformer(w["transformer"])[1]
        return maf_violations(obj, x, cond, w["dim"], w["cond_dim"], w["width"], npar, complete and w["width"] >= w["dim"])
    if k == "coupling":
        return coupling_violations(obj, x, cond, w["untransformed_dim"], w["dim"], w["cond_dim"], complete)
    return bnaf_violations(obj, x, cond, w["dim"], w["cond_dim"], w["depth"], w["block_dim"], complete)


def mask_violations(only=None):
    out = []
    cfgs = [only] if only else [dict(kind="mask", fn="tril", b0=b0, b1=b1, n=n, k=k) for b0 in range(1, 4) for b1 in range(1, 4) for n in range(1, 5) for k in range(-2, 3)] + \
        [dict(kind="mask", fn="diag", b0=b0, b1=b1, n=n, k=0) for b0 in range(1, 4) for b1 in range(1, 4) for n in range(1, 5)] + \
        [dict(kind="mask", fn="rank", b0=0, b1=0, n=n, k=int(eq)) for n in range(1, 6) for eq in (0, 1)]
    for cf in cfgs:
        b0, b1, n, k = cf["b0"], cf["b1"], cf["n"], cf["k"]
        if cf["fn"] == "tril":
            bad = np_mask(M.block_tril_mask((b0, b1), n, k)) != closed_block_tril(b0, b1, n, k)
        elif cf["fn"] == "diag":
            bad = np_mask(M.block_diag_mask((b0, b1), n)) != closed_block_diag(b0, b1, n)
        else:
            a = [(3 * i) % n - 1 for i in range(n)]
            b = [(2 * i + 1) % (n + 1) - 1 for i in range(n + 1)]
            want = [[(o >= i) if k else (o > i) for i in a] for o in b]
            bad = np_mask(M.rank_based_mask(jnp.asarray(a), jnp.asarray(b), eq=bool(k))) != want
        if bad:
            out.append(dict(cf, law="mask helper returns the documented pattern"))
    return out


def search_configs(tier, rng):
    cfgs = []
    dims = range(1, 5) if tier == "quick" else range(1, 6)
    for dim in dims:
        for cd in (None, 2):
            for w in ((1, dim, dim + 2) if tier == "quick" else range(1, 8)):
                for depth in ((0, 2) if tier == "quick" else range(0, 4)):
                    for mode in ("rand", "pos"):
                        cfgs.append(dict(kind="maf", dim=dim, cond_dim=cd, width=w, depth=depth, transformer="affine" if (dim + w) % 2 else "rqs",
                                         act="relu" if mode == "pos" else "tanh", mode=mode))
    for dim in range(2, 5):
        for ud in range(1, dim):
            for cd in (None, 2):
                for mode in ("rand", "pos"):
                    cfgs.append(dict(kind="coupling", untransformed_dim=ud, dim=dim, cond_dim=cd, width=3, depth=1 + (dim % 2), act="relu" if mode == "pos" else "tanh", mode=mode))
    for dim in range(1, 4):
        for depth in (0, 1, 2):
            for bd in (1, 3):
                for mode in ("rand", "pos"):
                    cfgs.append(dict(kind="bnaf", dim=dim, cond_dim=None if (dim + depth) % 2 else 2, depth=depth, block_dim=bd, mode=mode))
    rng.shuffle(cfgs)
    # degenerate sizes first (dim 1 with and without condition, every depth: the special cases of the rank assignment), then the shuffled rest
    edge = [c for c in cfgs if c["kind"] == "maf" and c["dim"] == 1 and c["mode"] == "pos"]
    rest = [c for c in cfgs if c not in edge]
    return (edge + rest)[: (40 + len(edge) if tier == "quick" else 400)]


def wkey(w):
    return "|".join(f"{k}={w[k]}" for k in sorted(w) if k not in ("value", "key"))


def search(hints, tier, rng):
    wit = []
    for v in mask_violations()[:5]:
        v["key"] = wkey(v)
        wit.append(v)
    for cf in search_configs(tier, rng):
        cf["subseed"] = rng.randrange(1 << 30)
        try:
            vs = evaluate(cf)
        except Exception as ex:  # constructors / transform never raise on these sizes
            vs = [dict(law="methods do not raise on a valid configuration", exc=repr(ex)[:200])]
        for v in vs[:2]:
            w = dict(cf)
            w.update({k: v[k] for k in v if k not in w})
            w["key"] = wkey(w)
            wit.append(w)
        if len(wit) >= 5:
            break
    return wit


def replay(w):
    try:
        return bool(evaluate(w))
    except Exception:
        return True
