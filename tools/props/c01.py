"""C01 — every bijection is invertible: inverse undoes transform, both ways.

Tie to the code:
  * the leaf kernels and Chain/Invert are REGENERATED from /repo (Gen/Leaves.lean, Gen/Combinators.lean)
    and the theorems of Props/C01.lean are about those generated definitions;
  * this harness runs the generated definitions at Float against the real methods (translator,
    typing sheet, primitive specs and the elementwise lifting are validated here), on
    boundary-directed inputs and non-default parameters, for scalar trees and vector liftings.
"""
from __future__ import annotations

import math

import equinox as eqx
import jax.numpy as jnp
import numpy as np

import flowjax.bijections as B

import fj
import vlib
from vlib import f2b, fs2b, b2f, b2fs

ID = "C01"
GEN = ["Leaves", "Combinators", "Planar", "Misc", "Params", "Flows", "JaxTransforms", "BnafGen", "TriangularGen", "PermGen", "NetGen"]
RULE = ("expression trees over generated leaves (Affine/Loc/Scale with both signs, Exp, SoftPlus, Tanh, LeakyTanh, "
        "RationalQuadraticSpline with perturbed raw parameters) under generated Chain/Invert, depth<=3, evaluated by all "
        "four methods on boundary-directed inputs (interval ends, knots, ±max_val, tanh(max_val), ±1, 0, float neighbours, "
        "large magnitudes); a case is non-trivial when its parameters differ from the initialisation and the input is a "
        "boundary value or lands on a non-default branch; distinct = distinct (tree, method, input) triples; premade flows: real "
        "coupling / MAF / planar flows from the factories (dims 1-5, 1-4 layers, conditional or not, both orientations, default / Affine / "
        "spline transformers, all parameters perturbed) and hand-stacked BNAF / triangular-spline layer stacks, structure and all four "
        "methods of flow.bijection against the generated factory bodies")
TRUSTED = [
    "Coupling / MaskedAutoregressive methods: GENERATED Gen/NetGen.lean (translator tools/py2lean/py2meth.py, typing sheet targets_net.py) over "
    "the hand-written meanings of the library calls in Model/NetWorld.lean (hstack/concatenate = ++, slices = take/drop, reshape(…, (dim, -1)) = reshapeRows, "
    "filter_vmap(transformer_constructor) + Vmap(in_axes=if_array(0)) = one scalar bijection per coordinate with SUMMED log-dets, lax.scan(f, init, None, length=n) "
    "= n-fold iteration, traced x[i] clamps, .at[i].set drops out of range, conditioner / masked MLP = an abstract function) — proved equal to the hand models "
    "(gen_coupling_eq_model, gen_maf_eq_model) and run against real objects by tools/props/netgen.py",
    "Lean 4.33 kernel; Mathlib v4.33; axioms propext, Classical.choice, Quot.sound",
    "premade flows: py2lean typing sheet tools/py2lean/targets_flows.py; Model/FlowsPre.lean (Scan = generated Chain of the unstacked layers, "
    "filter_vmap(make_layer) = one layer per key, a PRNG key = what it determines) — validated on real factory-built flows by tools/props/flows.py",
    "py2lean translator + typing sheet tools/py2lean/targets_leaves.py, targets_comb.py (validated by this correspondence)",
    "Prelude/Jnp.lean specs of where/abs/sign/clip/searchsorted/getItem (validated by this correspondence)",
    "Model/ToBij.lean elementwise lifting (hand-written, validated on vectors here)",
    "theorems are over ℝ: IEEE rounding/overflow is measured (rtol 1e-9) not proved",
]
ASSUMPTIONS = ["whole premade flows: theorems for coupling / MAF / planar(leaky-relu) flows in both orientations for every number of layers; BNAF flows "
               "forward-only without a hypothesis on the inverter (lawful with an exact inverter); tanh planar flows forward-only (the library has no inverse); "
               "transformer families lawful on all of ℝ (Affine-shaped, splines); Vmap / array combinators through C08's model",
               "Planar: theorems cover the leaky-relu activation with 0 < negative_slope <= 1 and w != 0 (tanh has no analytic inverse in the library; "
               "negative_slope > 1 is the known finding planar_steep); TriangularAffine: hand model, triangular matrix with non-zero diagonal"]

TOL = dict(rtol=1e-8, atol=1e-10)


# ------------------------------------------------------------------ random scalar trees
class Leaf:
    def __init__(self, tokens, obj, kind, boundary, nondefault):
        self.tokens, self.obj, self.kind, self.boundary, self.nondefault = tokens, obj, kind, boundary, nondefault


def rand_leaf(rng, kinds=None):
    k = rng.choice(kinds or ["A", "A", "L", "S", "E", "P", "T", "K", "K", "Q", "Q"])
    if k == "A":
        loc, sc = rng.uniform(-3, 3), rng.choice([-1, 1]) * math.exp(rng.uniform(-2, 2))
        return Leaf(["A", f2b(loc), f2b(sc)], fj.affine(loc, sc), k, [0.0, -loc / sc], True)
    if k == "L":
        loc = rng.uniform(-3, 3)
        return Leaf(["L", f2b(loc)], B.Loc(loc), k, [0.0], True)
    if k == "S":
        sc = rng.choice([-1, 1]) * math.exp(rng.uniform(-2, 2))
        return Leaf(["S", f2b(sc)], fj.scale_b(sc), k, [0.0], True)
    if k == "E":
        return Leaf(["E"], B.Exp(), k, [0.0, 1.0], False)
    if k == "P":
        return Leaf(["P"], B.SoftPlus(), k, [0.0, 1e-8, 30.0], False)
    if k == "T":
        return Leaf(["T"], B.Tanh(), k, [0.0, 1.0, -1.0], False)
    if k == "K":
        m = rng.choice([0.5, 1.0, 3.0, rng.uniform(0.2, 4)])
        return Leaf(["K", f2b(m)], B.LeakyTanh(m), k, fj.leaky_boundary_inputs(m, rng, 0), True)
    if k == "Q":
        knots = rng.choice([1, 2, 3, 5, 8])
        iv = rng.choice([1, 2.0, (-1.0, 3.0), (0.5, 2.5), (-3.0, -1.0)])
        s = fj.rqs(rng, knots, iv, perturb=rng.choice([0.0, 1.0, 3.0]))
        lo, hi, xs, ys, ds = fj.rqs_params(s)
        return Leaf(["Q", f2b(lo), f2b(hi), fs2b(xs), fs2b(ys), fs2b(ds)], s, k, fj.rqs_boundary_inputs(s, rng, 0), True)
    raise AssertionError


def rand_tree(rng, depth):
    """returns (tokens, real object, boundary inputs, description, nondefault)"""
    r = rng.random()
    if depth == 0 or r < 0.35:
        lf = rand_leaf(rng)
        return lf.tokens, lf.obj, lf.boundary, lf.kind, lf.nondefault
    if r < 0.55:
        t, o, b, d, nd = rand_tree(rng, depth - 1)
        return ["I"] + t, B.Invert(o), b, f"I({d})", nd
    n = rng.choice([1, 2, 2, 3])
    subs = [rand_tree(rng, depth - 1) for _ in range(n)]
    toks = ["C", str(n)]
    for s in subs:
        toks += s[0]
    return toks, B.Chain([s[1] for s in subs]), sum((s[2] for s in subs), []), "C[" + ",".join(s[3] for s in subs) + "]", any(s[4] for s in subs)


def impl_line(obj, m, x):
    try:
        return fj.call(obj, m, x)
    except Exception as ex:  # the public methods never raise on a correctly shaped input
        return ["EXC:" + type(ex).__name__]


def _vals(got):
    vals = []
    for t in got.split(" "):
        vals += b2fs(t)
    return vals


# position of the scalar input (as a bit pattern) in an op line, for the ill-conditioning retry
XPOS = {"tree": 2, "tdist": 4}


def input_tolerance_ok(line, want):
    """An ill-conditioned point (e.g. Tanh.inverse at 1 - ulp, or a branch test `|y| >= tanh(max_val)` whose threshold libm and XLA round
    differently): the implementation's value is accepted if it lies within the range the MODEL spans when its input moves by <= 4 ulps
    (widened by TOL), or if the model is non-finite on a neighbour.  Differences of that size are rounding, not a different function."""
    toks = line.split(" ")
    pos = XPOS.get(toks[0])
    if pos is None or any(isinstance(w, str) for w in want):
        return False
    x = vlib.b2f(int(toks[pos]))
    if not math.isfinite(x):
        return False
    nb, lo, hi = [], x, x
    for _ in range(4):
        lo, hi = float(np.nextafter(lo, -np.inf)), float(np.nextafter(hi, np.inf))
        nb += [lo, hi]
    outs = vlib.run_model([" ".join(toks[:pos] + [str(f2b(v))] + toks[pos + 1:]) for v in [x] + nb])
    cols = None
    for o in outs:
        if o.startswith("ERR"):
            continue
        v = _vals(o)
        if len(v) != len(want):
            return False
        cols = [[a] for a in v] if cols is None else [cl + [a] for cl, a in zip(cols, v)]
    if cols is None:
        return False
    for cl, w in zip(cols, want):
        if any(not math.isfinite(a) for a in cl):
            continue
        if not math.isfinite(w):
            return False
        a, b = min(cl), max(cl)
        slack = TOL["atol"] + TOL["rtol"] * max(abs(a), abs(b), abs(w))
        if not (a - slack <= w <= b + slack):
            return False
    return True


def compare(c, name, line, got, want, info):
    if got.startswith("ERR"):
        c.mismatch(name, op=line, model=got, impl=want, **info)
        return False
    vals = _vals(got)
    if len(vals) != len(want) or any(isinstance(w, str) for w in want) or not vlib.allclose(vals, want, **TOL):
        if len(vals) == len(want) and getattr(c, "dist", {}).get("input-tolerance-tried", 0) < 40:
            c.count("input-tolerance-tried")
            if input_tolerance_ok(line, want):
                c.count("input-tolerance-used")
                return True
        c.mismatch(name, op=line, model=vals, impl=want, **info)
        return False
    return True


def corr(c, tier, rng):
    n_trees = 60 if tier == "quick" else 500
    n_vec = 12 if tier == "quick" else 80
    lines, wants, infos = [], [], []
    # --- scalar trees
    for ti in range(n_trees):
        toks, obj, bnd, desc, nd = rand_tree(rng, rng.choice([0, 0, 1, 2, 3]))
        inputs = list(dict.fromkeys([float(v) for v in bnd] + fj.generic_inputs(rng, 3)))
        rng.shuffle(inputs)
        inputs = inputs[: (14 if tier == "quick" else 40)]
        for x in inputs:
            for m in fj.METHODS:
                line = f"tree {m} {f2b(x)} " + " ".join(toks)
                want = impl_line(obj, m, x)
                lines.append(line)
                wants.append(want)
                infos.append(dict(tree=desc, method=m, x=x))
                isb = x in bnd
                c.case((desc, " ".join(toks), m, x), nd and isb, sample={"op": line[:200], "impl": want} if ti < 3 and m == "tl" and isb else None)
                c.count("tree:" + ("boundary" if isb else "random"))
        c.count("trees")
    # --- elementwise liftings to vectors (shape (n,) and (2,2) flattened)
    for vi in range(n_vec):
        n = rng.choice([1, 2, 3, 4])
        kind = rng.choice(["A", "S", "L", "E", "P", "T", "K", "AE"])
        shape = (2, 2) if (n == 4 and rng.random() < 0.5) else (n,)
        locs = [rng.uniform(-2, 2) for _ in range(n)]
        scs = [rng.choice([-1, 1]) * math.exp(rng.uniform(-1, 1)) for _ in range(n)]
        if kind == "A":
            obj = fj.affine(np.reshape(locs, shape), np.reshape(scs, shape)); toks = [["A", f2b(l), f2b(s)] for l, s in zip(locs, scs)]
        elif kind == "S":
            obj = fj.scale_b(np.reshape(scs, shape)); toks = [["S", f2b(s)] for s in scs]
        elif kind == "L":
            obj = B.Loc(np.reshape(locs, shape)); toks = [["L", f2b(l)] for l in locs]
        elif kind == "E":
            obj = B.Exp(shape); toks = [["E"]] * n
        elif kind == "P":
            obj = B.SoftPlus(shape); toks = [["P"]] * n
        elif kind == "T":
            obj = B.Tanh(shape); toks = [["T"]] * n
        elif kind == "K":
            obj = B.LeakyTanh(2.0, shape); toks = [["K", f2b(2.0)]] * n
        else:
            obj = B.Chain([fj.affine(np.reshape(locs, shape), np.reshape(scs, shape)), B.Exp(shape)])
            toks = [["C", "2", "A", f2b(l), f2b(s), "E"] for l, s in zip(locs, scs)]
        for rep in range(3):
            xs = [rng.choice([0.0, 1.0, -1.0, 2.0, -2.0, rng.uniform(-3, 3)]) for _ in range(n)]
            for m in fj.METHODS:
                line = f"vtree {m} {n} {fs2b(xs)} " + " ".join(" ".join(t) for t in toks)
                want = impl_line(obj, m, np.reshape(xs, shape))
                lines.append(line); wants.append(want); infos.append(dict(tree=f"vec:{kind}{shape}", method=m, x=xs))
                c.case((kind, shape, tuple(xs), m), kind in ("A", "S", "L", "K", "AE"))
                c.count("vector")
    outs = vlib.run_model(lines)
    for line, got, want, info in zip(lines, outs, wants, infos):
        compare(c, "generated-kernels-vs-impl", line, got, want, info)
    scan_correspondence(c, tier, rng)
    # array combinators (Concatenate, Stack, Partial, Reshape, EmbedCondition, Vmap, Scan) through C08's array model:
    # C01's lawfulness theorems for them are C08.concatenate_lawful / stack_lawful / partial_lawful / … over that model
    from props import c08
    c08.corr(c, tier, rng, n_trees=25 if tier == "quick" else 150)
    from props import netinv
    netinv.corr_net(c, tier, rng)
    # --- the GENERATED methods of Coupling / MaskedAutoregressive (Gen/NetGen.lean) beside the hand model against real objects
    from props import netgen
    netgen.corr_gen(c, tier, rng)
    # --- Planar (generated, both activations, conditional through get_planar) and TriangularAffine (hand model)
    from props import permgen
    permgen.corr_generated(c, tier, rng)  # the GENERATED Permute (Gen/PermGen.lean)
    from props import planar_tri
    planar_tri.corr_planar(c, tier, rng)
    planar_tri.corr_triangular(c, tier, rng)
    from props import oracles
    oracles.corr_method_agreement(c, tier, rng)
    # --- whole premade flows (generated factory bodies of Gen/Flows.lean) against real factory-built flows: the four methods of flow.bijection
    from props import flows
    # (quick tier: C01 is the one property that runs the hand-built BNAF and triangular-spline stacks, so it also compares
    #  log_prob / sample / sample_and_log_prob on the latter; in the thorough tier C03 and C08 run them as well)
    flows.corr_flows(c, tier, rng, methods=("t", "tl", "i", "il"), trispline_methods=flows.METHODS if tier == "quick" else None)


def scan_objects(rng):
    """real Scans over layers with DIFFERENT parameters (stacks of flow layers, as every premade flow builds them)"""
    import jax.random as jr
    from flowjax import flows
    from flowjax.distributions import StandardNormal
    import props.c03 as c03
    k = jr.PRNGKey(rng.randrange(10 ** 6))
    L = rng.choice([2, 3, 4])
    locs = jnp.asarray([[rng.uniform(-1, 1) for _ in range(3)] for _ in range(L)])
    scs = jnp.asarray([[rng.choice([-1, 1]) * math.exp(rng.uniform(-0.5, 0.5)) for _ in range(3)] for _ in range(L)])
    yield "Scan(Affine x%d)" % L, B.Scan(eqx.filter_vmap(lambda l, s: fj.affine(l, s))(locs, scs)), None
    base = StandardNormal((3,))
    for name, fl, cd in (
        ("coupling_flow", c03.perturb(flows.coupling_flow(k, base_dist=base, flow_layers=3, nn_width=6), rng), None),
        ("coupling_flow|cond", c03.perturb(flows.coupling_flow(k, base_dist=base, cond_dim=2, flow_layers=2, nn_width=6), rng), 2),
        ("maf", c03.perturb(flows.masked_autoregressive_flow(k, base_dist=base, flow_layers=3, nn_width=6), rng), None),
        ("planar", c03.perturb(flows.planar_flow(k, base_dist=base, flow_layers=3, negative_slope=0.1), rng), None),
    ):
        yield name, fl.bijection.bijection, cd  # Invert(Scan(layers)) -> the Scan


def scan_correspondence(c, tier, rng):
    """C08.scan_eq_chain on the real side: the real Scan against the real Chain of its unstacked layers, all four methods"""
    for rep in range(1 if tier == "quick" else 4):
        for name, scan, cd in scan_objects(rng):
            x = jnp.asarray([rng.uniform(-1.5, 1.5) for _ in range(3)])
            cond = jnp.asarray([rng.uniform(-1, 1) for _ in range(cd)]) if cd else None
            bad = fj.scan_vs_chain_mismatches(scan, x, cond)
            c.case(("scan", name, rep), True)
            c.count("scan-vs-chain")
            for m, a, b in bad:
                c.mismatch("scan-vs-chain-of-unstacked-layers", object=name, method=m, scan=a, chain=b, x=np.asarray(x).tolist())


# ------------------------------------------------------------------ witness search on the real code
def _cond(fn, x):
    """conditioning factor 1 + |J| + |J^-1| of fn at x from autodiff (inf when singular / non-finite)"""
    import jax
    try:
        J = np.atleast_2d(np.asarray(jax.jacobian(fn)(x)))
        n = int(np.prod(np.shape(x))) or 1
        J = J.reshape(n, n)
        if not np.all(np.isfinite(J)):
            return math.inf
        Ji = np.linalg.inv(J)
        return 1.0 + float(np.abs(J).max()) + float(np.abs(Ji).max())
    except Exception:
        return math.inf


def roundtrip_violations(obj, desc, inputs, cond=None, eps=1e-10):
    """C01 oracle on the real object: both round trips (tolerance = eps * conditioning * magnitude) and
    'the point returned by the ..._and_log_det variant equals the plain method's'."""
    out = []
    for x in inputs:
        xa = jnp.asarray(x, float)
        try:
            y = obj.transform(xa, cond)
            y2, _ = obj.transform_and_log_det(xa, cond)
            if not np.allclose(np.asarray(y), np.asarray(y2), rtol=1e-12, atol=0, equal_nan=True):
                out.append(dict(key=f"{desc}|tld_point|x={x!r}", tree=desc, x=x, law="transform_and_log_det point == transform"))
            if np.all(np.isfinite(np.asarray(y))):
                k = _cond(lambda v: obj.transform(v, cond), xa)
                xb = obj.inverse(y, cond)
                xb2, _ = obj.inverse_and_log_det(y, cond)
                if not np.allclose(np.asarray(xb), np.asarray(xb2), rtol=1e-12, atol=0, equal_nan=True):
                    out.append(dict(key=f"{desc}|ild_point|x={x!r}", tree=desc, x=x, law="inverse_and_log_det point == inverse"))
                if math.isfinite(k):
                    mag = 1.0 + float(np.max(np.abs(np.asarray(xa)))) + float(np.max(np.abs(np.asarray(y))))
                    err = float(np.max(np.abs(np.asarray(xb) - np.asarray(xa))))
                    if not (err <= eps * k * mag):
                        out.append(dict(key=f"{desc}|inv(fwd(x))|x={x!r}", tree=desc, x=x, got=np.asarray(xb).tolist(), err=err, tol=eps * k * mag, law="inverse(transform(x)) == x"))
            xi = obj.inverse(xa, cond)
            if np.all(np.isfinite(np.asarray(xi))):
                k = _cond(lambda v: obj.inverse(v, cond), xa)
                if math.isfinite(k):
                    yb = obj.transform(xi, cond)
                    mag = 1.0 + float(np.max(np.abs(np.asarray(xa)))) + float(np.max(np.abs(np.asarray(xi))))
                    err = float(np.max(np.abs(np.asarray(yb) - np.asarray(xa))))
                    if not (err <= eps * k * mag):
                        out.append(dict(key=f"{desc}|fwd(inv(y))|y={x!r}", tree=desc, x=x, got=np.asarray(yb).tolist(), err=err, tol=eps * k * mag, law="transform(inverse(y)) == y"))
        except Exception as ex:
            out.append(dict(key=f"{desc}|exception|x={x!r}", tree=desc, x=x, law="methods do not raise on well-shaped input", exc=repr(ex)[:200]))
    return out


def leaf_zoo(rng, n):
    for _ in range(n):
        lf = rand_leaf(rng)
        yield lf.obj, lf.kind + ":" + " ".join(lf.tokens)[:120], lf.boundary, lf.tokens


def search(hints, tier, rng):
    """Round-trip oracle on the real objects at the boundary-directed set.  Cheap, targeted stages first; the search stops after the
    first stage that yields a witness (the expensive whole-flow stage last)."""
    wit = []
    from props import oracles
    # 1. elementary leaves far out in their tails, at a TIGHT tolerance (3 orders above float64 rounding): a "large-input fast path"
    # (e.g. softplus^-1(y) := y for y > 20) is wrong by ~exp(-y), far below the generic tolerance used for whole trees
    for obj, desc, toks, pts in [(B.SoftPlus(), "P:P", ["P"], [20.5, 22.0, 25.0, 30.0, 33.5, -20.5, -30.0]),
                                 (B.Exp(), "E:E", ["E"], [20.5, -20.5, 30.0]),
                                 (B.LeakyTanh(3.0), "K:K 3", ["K", f2b(3.0)], [20.5, -20.5, 2.999999, 3.000001])]:
        for w in roundtrip_violations(obj, desc, pts, eps=1e-13):
            w["tokens"] = toks
            w["eps"] = 1e-13
            wit.append(w)
            if len(wit) >= 5:
                return wit
    if wit:
        return wit
    # 2. random leaves at their boundary-directed inputs
    for obj, desc, bnd, toks in leaf_zoo(rng, 150 if tier == "quick" else 1000):
        inputs = list(dict.fromkeys([float(v) for v in bnd] + fj.generic_inputs(rng, 3)))
        # Exp/Tanh/SoftPlus have restricted codomains: only probe the forward direction's law plus in-range inverses
        for w in roundtrip_violations(obj, desc, inputs):
            w["tokens"] = toks
            wit.append(w)
            if len(wit) >= 5:
                return wit
    if wit:
        return wit
    # 3. planar / conditioner-network bijections / nested Invert
    skip = ("forward log-det", "inverse log-det", "Planar computes")      # C02's / C07's clauses
    for w in (oracles.planar_violations(rng, 40 if tier == "quick" else 400, slopes=(None, 0.1, 0.5, 1.0)) + oracles.net_violations(rng, tier)
              + oracles.nested_invert_violations(rng, 3)):
        if not w["law"].startswith(skip):
            wit.append(w)
    if wit:
        return wit[:5]
    # 4. stacks of distinct layers (every premade flow's layer stack is a Scan)
    for name, scan, cd in scan_objects(rng):
        cond = jnp.asarray([rng.uniform(-1, 1) for _ in range(cd)]) if cd else None
        xs = [[rng.uniform(-1.5, 1.5) for _ in range(3)] for _ in range(3)]
        for w in roundtrip_violations(scan, "Scan:" + name, xs, cond=cond, eps=1e-9):
            w["tokens"] = ["SCAN", name]
            wit.append(w)
            if len(wit) >= 5:
                return wit
    if wit:
        return wit
    # 5. whole premade flows from the factories: structure, round trips of flow.bijection, Scan vs Chain of the unstacked layers
    from props import flows
    for w in flows.search_flows(tier, rng):
        w.setdefault("tokens", ["FLOW", w.get("desc", "")])
        w.setdefault("tree", w.get("desc", "")); w.setdefault("x", None)
        wit.append(w)
    return wit[:5]


def rebuild(tokens):
    """tokens -> real flowjax object (leaves only, as recorded in witnesses)"""
    k = tokens[0]
    f = lambda s: b2f(s)
    if k == "A":
        return fj.affine(f(tokens[1]), f(tokens[2]))
    if k == "L":
        return B.Loc(f(tokens[1]))
    if k == "S":
        return fj.scale_b(f(tokens[1]))
    if k == "E":
        return B.Exp()
    if k == "P":
        return B.SoftPlus()
    if k == "T":
        return B.Tanh()
    if k == "K":
        return B.LeakyTanh(f(tokens[1]))
    if k == "Q":
        lo, hi = f(tokens[1]), f(tokens[2])
        xs, ys, ds = b2fs(tokens[3]), b2fs(tokens[4]), b2fs(tokens[5])
        s = B.RationalQuadraticSpline(knots=len(xs) - 2, interval=(lo, hi))
        return eqx.tree_at(lambda t: (t.x_pos, t.y_pos, t.derivatives), s, (jnp.asarray(xs), jnp.asarray(ys), jnp.asarray(ds)))
    raise ValueError(k)


def replay(w):
    if w.get("kind") in ("planar", "net", "nested_invert"):
        from props import oracles
        return bool(oracles.replay_witness(w))
    if w["tokens"][0] == "FLOW":
        import random
        from props import flows
        return bool(flows.search_flows("quick", random.Random(0)))
    if w["tokens"][0] == "SCAN":
        import random
        return bool(search({}, "quick", random.Random(0)))
    obj = rebuild(w["tokens"])
    v = roundtrip_violations(obj, w["tree"], [w["x"]], eps=w.get("eps", 1e-10))
    return bool(v)
