"""C16 — training loops stop and select parameters as documented.

Two ties to the code.  (1) REGENERATION: `tools/py2lean/py2loop.py` translates `count_fruitless`, `step`, `fit_to_data` and
`fit_to_variational_target` from the source into `lean/Flowjaxv/Gen/TrainGen.lean` on every run (a refusal is a broken tie), and
`Props/C16.lean` proves the generated loops equal to the hand model for all inputs (`gen_*` theorems); the generated definitions
are also RUN here (driver ops `gcfruit`, `gfit`, `gvi`, counting world) against the real functions on every history below.
(2) CORRESPONDENCE of the hand-written model, `lean/Flowjaxv/Model/Train.lean`: `fitToData`, `fitToVariationalTarget`,
`countFruitless`): the REAL `fit_to_data` / `fit_to_variational_target` / `count_fruitless` are driven with

  * a scripted `loss_fn` — the loss is a table lookup at the current value of the (scalar) parameter, so the
    script position is part of the traced computation and the loops run with jit ENABLED exactly as users run
    them (`mode=jit`), or a Python-side script under `jax.disable_jit()` (`mode=eager`, per-batch validation
    losses that differ inside an epoch, so the recorded epoch loss is checked to be the batch mean);
  * a counting optax optimiser (every update adds exactly 1 to the parameter), so the returned parameter is
    the number of updates it had received, and the parameter seen by every validation call is observable;

and compared, history by history, with the Lean model run on the same script: number of epochs/steps run,
number and values of the recorded losses, returned parameter.
"""
from __future__ import annotations

import itertools

import equinox as eqx
import jax
import jax.numpy as jnp
import jax.random as jr
import numpy as np
import optax

from flowjax.train import fit_to_data, fit_to_variational_target
from flowjax.train.train_utils import count_fruitless

import vlib
from vlib import ints

ID = "C16"
GEN = ["TrainGen"]
RULE = ("loss histories = every permutation of 1..L (all orderings of L distinct values), L<=5 quick / L<=6 thorough "
        "exhaustively x max_patience 0..L x max_epochs|steps 0..L x return_best; thorough adds a random half of the permutations of 1..7 at one "
        "random (patience, max, return_best) point each; plus sampled permutations of length 6..10 (offset/negative/large-gap values); fit_to_data on three dataset layouts (1 train + 1 val batch; 3 train + 2 val "
        "batches with a dropped remainder; batch_size > n_train) with jit enabled (script = table lookup at the parameter) "
        "and under jax.disable_jit() with unequal per-batch losses; a case is non-trivial when the loop is entered "
        "(max>0); distinct = distinct (loop, layout, mode, history, patience, max, return_best); every history is also run through the "
        "GENERATED count_fruitless / fit_to_data / fit_to_variational_target (Gen/TrainGen.lean, counting world on the layout's data set)")
TRUSTED = [
    "Lean 4.33 kernel; axioms propext, Classical.choice, Quot.sound (core Lean only, no Mathlib in model or proofs)",
    "tools/py2lean/py2loop.py + typing sheet targets_train.py (statement-by-statement translation of flowjax/train/*.py; refuses what it "
    "does not understand) and the library primitives of Model/TrainWorld.lean (Python int = Int with floor division and negative "
    "slices, jnp.argmin = first minimum, min([]) / l[-1] as Option, jr.split as child paths, the loss function / optimiser / sum / "
    "division of losses as an abstract World) — validated on every run by evaluating the generated definitions against the real ones",
    "Model/Train.lean fitToData / fitToVariationalTarget / countFruitless are hand-written; this correspondence (exhaustive on the "
    "property's bounded domain) is their tie to flowjax/train/*.py",
    "the counting optimiser and the scripted loss are the observation device: parameters are identified by their update count",
    "losses are compared as exact values (scripts are small integers / dyadic rationals, exactly representable)",
]
ASSUMPTIONS = ["loss values are pairwise distinct and not NaN (the property's quantifier); ties resolve as in the model "
               "(last minimum wins for best_params, first minimum for count_fruitless) but are outside the claim"]

TLEN = 96  # fixed table length: one compilation of `step` per dataset layout


class Cnt(eqx.Module):
    """the 'distribution': one trainable scalar and two integer lookup tables (not inexact -> static side)"""
    p: jax.Array
    ttable: jax.Array
    vtable: jax.Array


def _init(g):
    return optax.EmptyState()


def _update(grads, state, params=None):
    return jax.tree_util.tree_map(jnp.ones_like, grads), state


COUNTING = optax.GradientTransformation(_init, _update)  # one object: jit cache hits across runs


def table_loss(params, static, x, condition=None, key=None):
    """loss = table[current parameter] / 2 (+ 0*p so that it is differentiable).  Inside `step` the parameter is a
    tracer (train table); validation calls are eager (validation table)."""
    p = params.p
    tbl = static.ttable if isinstance(p, jax.core.Tracer) else static.vtable
    return tbl[p.astype(jnp.int64)].astype(jnp.float64) * 0.5 + 0.0 * jnp.sum(p)


def vi_table_loss(params, static, key):
    p = params.p
    return static.ttable[p.astype(jnp.int64)].astype(jnp.float64) * 0.5 + 0.0 * jnp.sum(p)


class Layout:
    def __init__(self, name, n, batch_size, val_prop):
        self.name, self.n, self.batch_size, self.val_prop = name, n, batch_size, val_prop
        self.n_val = round(val_prop * n)
        self.n_train = n - self.n_val
        bt, bv = min(batch_size, self.n_train), min(batch_size, self.n_val)
        self.nbT, self.nbV = self.n_train // bt, self.n_val // bv
        self.x = jnp.arange(float(n))[:, None]


LAYOUTS = {
    "1x1": Layout("1x1", 4, 10, 0.5),      # batch_size >= n_train: one train and one val batch
    "3x2": Layout("3x2", 12, 2, 0.4),      # n_train=7 -> 3 batches (1 row dropped), n_val=5 -> 2 batches (1 dropped)
    "2x1": Layout("2x1", 6, 2, 0.25),      # n_val = round(1.5) = 2 -> 1 val batch; 2 train batches
}


def tables(lay, vals, trns):
    tt = np.zeros(TLEN, np.int64)
    vt = np.zeros(TLEN, np.int64)
    for e, (v, t) in enumerate(zip(vals, trns)):
        vt[(e + 1) * lay.nbT] = 2 * v
        for k in range(lay.nbT):
            tt[e * lay.nbT + k] = 2 * t + (2 * k - (lay.nbT - 1))
    return jnp.asarray(tt), jnp.asarray(vt)


def run_fit_jit(lay, vals, trns, max_epochs, patience, rb, seed=0):
    tt, vt = tables(lay, vals, trns)
    m, losses = fit_to_data(jr.key(seed), Cnt(jnp.array(0.0), tt, vt), lay.x, loss_fn=table_loss, max_epochs=max_epochs,
                            max_patience=patience, batch_size=lay.batch_size, val_prop=lay.val_prop, optimizer=COUNTING,
                            return_best=rb, show_progress=False)
    return float(m.p), [float(v) for v in losses["train"]], [float(v) for v in losses["val"]]


class EagerScript:
    """Python-side script (needs jax.disable_jit()): per-batch losses differ inside an epoch, their mean is the script value;
    also records the parameter every validation call sees."""

    def __init__(self, lay, vals, trns):
        self.lay, self.vals, self.trns = lay, vals, trns
        self.t = self.v = 0
        self.val_params = []

    def __call__(self, params, static, x, condition=None, key=None):
        lay = self.lay
        if isinstance(params.p, jax.core.Tracer):
            e, k = divmod(self.t, lay.nbT)
            self.t += 1
            base = float(self.trns[e]) + 0.5 * (2 * k - (lay.nbT - 1))
        else:
            e, k = divmod(self.v, lay.nbV)
            self.v += 1
            base = float(self.vals[e]) + 0.5 * (2 * k - (lay.nbV - 1))
            self.val_params.append(float(params.p))
        return base + 0.0 * jnp.sum(params.p)


def run_fit_eager(lay, vals, trns, max_epochs, patience, rb, seed=0):
    s = EagerScript(lay, vals, trns)
    z = jnp.zeros(TLEN, jnp.int64)
    with jax.disable_jit():
        m, losses = fit_to_data(jr.key(seed), Cnt(jnp.array(0.0), z, z), lay.x, loss_fn=s, max_epochs=max_epochs,
                                max_patience=patience, batch_size=lay.batch_size, val_prop=lay.val_prop, optimizer=COUNTING,
                                return_best=rb, show_progress=False)
    return float(m.p), [float(v) for v in losses["train"]], [float(v) for v in losses["val"]], s.val_params


def run_vi_jit(script, steps, rb, seed=0):
    tt = np.zeros(TLEN, np.int64)
    tt[: len(script)] = 2 * np.asarray(script, np.int64)
    z = jnp.zeros(TLEN, jnp.int64)
    m, losses = fit_to_variational_target(jr.key(seed), Cnt(jnp.array(0.0), jnp.asarray(tt), z), vi_table_loss, steps=steps,
                                          optimizer=COUNTING, return_best=rb, show_progress=False)
    return float(m.p), [float(v) for v in losses]


def run_vi_eager(script, steps, rb, seed=0):
    st = {"i": 0, "params": []}

    def f(params, static, key):
        v = script[st["i"]]
        st["i"] += 1
        return float(v) + 0.0 * jnp.sum(params.p)

    z = jnp.zeros(TLEN, jnp.int64)
    with jax.disable_jit():
        m, losses = fit_to_variational_target(jr.key(seed), Cnt(jnp.array(0.0), z, z), f, steps=steps, optimizer=COUNTING,
                                              return_best=rb, show_progress=False)
    return float(m.p), [float(v) for v in losses]


# ------------------------------------------------------------------ histories
def histories(tier, rng):
    """(script, kind): kind 'full' = every permutation of 1..L up to the tier's bound (full patience x max grid),
    'perm7' = a random half of the permutations of 1..7 (thorough; one random grid point each), 'sample' = longer / sparser histories"""
    lmax = 5 if tier == "quick" else 6
    for L in range(1, lmax + 1):
        for perm in itertools.permutations(range(1, L + 1)):
            yield list(perm), "full"
    if tier == "thorough":
        for pi, perm in enumerate(itertools.permutations(range(1, 8))):
            if pi % 2 == rng.randrange(2):   # a random half of the 5040 orderings (keeps the tier under 15 min)
                yield list(perm), "perm7"
    extra = 40 if tier == "quick" else 250
    for _ in range(extra):
        L = rng.choice([6, 7] if tier == "quick" else [8, 9, 10])
        perm = list(range(1, L + 1))
        rng.shuffle(perm)
        kind = rng.random()
        if kind < 0.3:      # negative / offset values
            perm = [v - L // 2 - 1 for v in perm]
        elif kind < 0.5:    # large gaps
            perm = [v * v * 7 - 50 for v in perm]
        yield perm, "sample"


def grid(L, kind, tier, rng):
    if kind == "full":
        for p in range(L + 1):
            for m in range(L + 1):
                yield p, m
    else:
        for _ in range(1 if kind == "perm7" else 3):
            yield rng.randrange(0, L + 1), rng.choice([L, L, rng.randrange(0, L + 1)])


def model_fit_line(vals, trns, m, p, rb):
    return f"fit {m} {p} {int(rb)} {ints(vals)} {ints(trns)}"


def gen_fit_line(lay, vals, trns, m, p, rb):
    """the GENERATED fit_to_data on the layout's data set (counting world): returns the number of UPDATES of the returned parameters"""
    return f"gfit {m} {p} {int(rb)} {ints(vals)} {ints(trns)} {lay.n} {lay.batch_size} {vlib.f2b(lay.val_prop)}"


def parse_fit(out):
    t = out.split(" ")
    return dict(epochs=int(t[0]), returned=int(t[1]), ntrain=int(t[2]), nval=int(t[3]),
                val=[] if t[4] == "-" else [int(v) for v in t[4].split(",")],
                train=[] if t[5] == "-" else [int(v) for v in t[5].split(",")])


def parse_vi(out):
    t = out.split(" ")
    return dict(steps=int(t[0]), returned=int(t[1]), n=int(t[2]), losses=[] if t[3] == "-" else [int(v) for v in t[3].split(",")])


def corr(c, tier, rng):
    lines, checks = [], []

    # ---- count_fruitless itself
    for script, kind in histories(tier, rng):
        lines.append(f"cfruit {ints(script)}")
        want = (int(np.argmin(np.asarray(script))), int(count_fruitless([float(v) for v in script])))
        checks.append(("count_fruitless", want, dict(script=script)))
        lines.append(f"gcfruit {ints(script)}")
        checks.append(("gen:count_fruitless", want, dict(script=script)))
        c.case(("cf", tuple(script)), len(script) > 1)
        c.count("count_fruitless")
    for script in ([3, 3, 3], [2, 1, 1, 5], [7], [1, 1], [-1, -5, -5, 0]):   # ties: first minimum (outside the claim, still tied)
        lines.append(f"cfruit {ints(script)}")
        checks.append(("count_fruitless", (int(np.argmin(np.asarray(script))), int(count_fruitless([float(v) for v in script]))), dict(script=script)))
        lines.append(f"gcfruit {ints(script)}")
        checks.append(("gen:count_fruitless", (int(np.argmin(np.asarray(script))), int(count_fruitless([float(v) for v in script]))), dict(script=script)))
        c.case(("cf-tie", tuple(script)), True)
        c.count("count_fruitless:ties")

    try:
        count_fruitless([])
        emp = "returns"
    except Exception:  # noqa: BLE001  (jnp.argmin of an empty array raises ValueError)
        emp = "raises"
    lines.append("gcfruit -")
    checks.append(("gen:count_fruitless-empty", emp, dict(script=[])))
    c.case(("cf-empty",), True)
    c.count("count_fruitless:empty")

    # ---- fit_to_data
    lay_cycle = ["1x1", "1x1", "3x2", "2x1"]
    n_eager = 0
    eager_budget = 60 if tier == "quick" else 300
    i = 0
    for script, kind in histories(tier, rng):
        L = len(script)
        exh = kind == "full"
        trns = [100 + 3 * e for e in range(L)]
        for p, m in grid(L, kind, tier, rng):
            for rb in ((True, False) if kind != "perm7" else (rng.random() < 0.5,)):
                i += 1
                lay = LAYOUTS["1x1"] if (exh and i % 3) else LAYOUTS[lay_cycle[i % 4]]
                eager = (n_eager < eager_budget) and (i % 29 == 0 or (not exh and i % 5 == 0))
                if eager:
                    n_eager += 1
                    ret, tr, va, vparams = run_fit_eager(lay, script, trns, m, p, rb)
                else:
                    ret, tr, va = run_fit_jit(lay, script, trns, m, p, rb)
                    vparams = None
                lines.append(model_fit_line(script, trns, m, p, rb))
                checks.append(("fit_to_data", dict(ret=ret, train=tr, val=va, vparams=vparams, nbT=lay.nbT, nbV=lay.nbV),
                               dict(script=script, max_epochs=m, max_patience=p, return_best=rb, layout=lay.name, mode="eager" if eager else "jit")))
                lines.append(gen_fit_line(lay, script, trns, m, p, rb))
                checks.append(("gen:fit_to_data", dict(ret=ret, train=tr, val=va, vparams=None, nbT=lay.nbT, nbV=lay.nbV),
                               dict(script=script, max_epochs=m, max_patience=p, return_best=rb, layout=lay.name, mode="eager" if eager else "jit")))
                c.case(("fit", lay.name, eager, tuple(script), p, m, rb), m > 0,
                       sample=dict(op=lines[-1], impl=dict(returned_param=ret, val=va)) if (L == 5 and p == 1 and m == 5 and rb and script[1] == 1) else None)
                c.count(f"fit:{lay.name}:{'eager' if eager else 'jit'}")
                c.count("fit:exhaustive" if exh else "fit:sampled")

    # ---- fit_to_variational_target
    j = 0
    for script, kind in histories(tier, rng):
        L = len(script)
        exh = kind == "full"
        for steps in (range(L + 1) if exh else ([rng.choice([L, rng.randrange(0, L + 1)])] if kind == "perm7" else [L, rng.randrange(0, L + 1)])):
            for rb in ((True, False) if kind != "perm7" else (rng.random() < 0.7,)):
                j += 1
                eager = j % 37 == 0 and tier == "thorough" or (tier == "quick" and j % 97 == 0)
                ret, ls = (run_vi_eager if eager else run_vi_jit)(script, steps, rb)
                lines.append(f"vi {steps} {int(rb)} {ints(script)}")
                checks.append(("fit_to_variational_target", dict(ret=ret, losses=ls), dict(script=script, steps=steps, return_best=rb, mode="eager" if eager else "jit")))
                lines.append(f"gvi {steps} {int(rb)} {ints(script)}")
                checks.append(("gen:fit_to_variational_target", dict(ret=ret, losses=ls), dict(script=script, steps=steps, return_best=rb, mode="eager" if eager else "jit")))
                c.case(("vi", eager, tuple(script), steps, rb), steps > 0,
                       sample=dict(op=lines[-1], impl=dict(returned_param=ret, losses=ls)) if script == [1, 2, 3, 4] and steps == 4 and rb else None)
                c.count(f"vi:{'eager' if eager else 'jit'}")

    # ---- ties (outside the property's quantifier; the model is still tied to the code there: last minimum wins for
    #      best_params, first minimum for count_fruitless, a tie with the running minimum never breaks)
    for script in ([1, 1], [2, 1, 1], [1, 1, 1, 1], [3, 1, 2, 1, 1], [2, 2, 1, 1, 3], [5, 5, 4, 6, 4, 6]):
        L = len(script)
        trns = [100 + 3 * e for e in range(L)]
        for p in range(L + 1):
            for m in (L, max(L - 2, 0)):
                for rb in (True, False):
                    ret, tr, va = run_fit_jit(LAYOUTS["1x1"], script, trns, m, p, rb)
                    lines.append(model_fit_line(script, trns, m, p, rb))
                    checks.append(("fit_to_data", dict(ret=ret, train=tr, val=va, vparams=None, nbT=1, nbV=1),
                                   dict(script=script, max_epochs=m, max_patience=p, return_best=rb, layout="1x1", mode="jit-ties")))
                    lines.append(gen_fit_line(LAYOUTS["1x1"], script, trns, m, p, rb))
                    checks.append(("gen:fit_to_data", dict(ret=ret, train=tr, val=va, vparams=None, nbT=1, nbV=1),
                                   dict(script=script, max_epochs=m, max_patience=p, return_best=rb, layout="1x1", mode="jit-ties")))
                    c.case(("fit-tie", tuple(script), p, m, rb), False)
                    c.count("fit:ties")
        for steps in range(L + 1):
            ret, ls = run_vi_jit(script, steps, True)
            lines.append(f"vi {steps} 1 {ints(script)}")
            checks.append(("fit_to_variational_target", dict(ret=ret, losses=ls), dict(script=script, steps=steps, return_best=True, mode="jit-ties")))
            lines.append(f"gvi {steps} 1 {ints(script)}")
            checks.append(("gen:fit_to_variational_target", dict(ret=ret, losses=ls), dict(script=script, steps=steps, return_best=True, mode="jit-ties")))
            c.case(("vi-tie", tuple(script), steps), False)
            c.count("vi:ties")

    outs = vlib.run_model(lines)
    for line, out, (name, want, info) in zip(lines, outs, checks):
        if out.startswith("ERR"):
            c.mismatch(name, op=line, model=out, impl=want, **info)
            continue
        if name == "count_fruitless":
            am, cf = (int(v) for v in out.split(" "))
            if (am, cf) != want:
                c.mismatch(name, op=line, model=[am, cf], impl=list(want), **info)
        elif name == "gen:count_fruitless":
            am, cf, rz = (int(v) for v in out.split(" "))
            c.count("generated:count_fruitless")
            if (am, cf) != want or rz != 0:
                c.mismatch(name, op=line, model=[am, cf, rz], impl=list(want), **info)
        elif name == "gen:count_fruitless-empty":
            c.count("generated:count_fruitless")
            if (out.split(" ")[2] == "1") != (want == "raises"):
                c.mismatch(name, op=line, model=out, impl=want, **info)
        elif name == "gen:fit_to_data":
            mo = parse_fit(out)
            c.count("generated:fit_to_data")
            ok = (mo["epochs"] == len(want["val"]) and mo["ntrain"] == len(want["train"]) and mo["nval"] == len(want["val"])
                  and [float(v) for v in mo["val"]] == want["val"] and [float(v) for v in mo["train"]] == want["train"]
                  and float(mo["returned"]) == want["ret"])   # `returned` = number of updates here
            if not ok:
                c.mismatch(name, op=line, model=mo, impl=want, **info)
        elif name == "gen:fit_to_variational_target":
            mo = parse_vi(out)
            c.count("generated:fit_to_variational_target")
            ok = (mo["steps"] == len(want["losses"]) and mo["n"] == len(want["losses"]) and [float(v) for v in mo["losses"]] == want["losses"]
                  and float(mo["returned"]) == want["ret"])
            if not ok:
                c.mismatch(name, op=line, model=mo, impl=want, **info)
        elif name == "fit_to_data":
            mo = parse_fit(out)
            ok = (mo["epochs"] == len(want["val"]) and mo["ntrain"] == len(want["train"]) and mo["nval"] == len(want["val"])
                  and [float(v) for v in mo["val"]] == want["val"] and [float(v) for v in mo["train"]] == want["train"]
                  and float(mo["returned"] * want["nbT"]) == want["ret"])
            if ok and want["vparams"] is not None:
                # every validation call of epoch e sees the parameters after (e+1)*nbT updates
                exp = [float((e + 1) * want["nbT"]) for e in range(mo["epochs"]) for _ in range(want["nbV"])]
                ok = exp == want["vparams"]
            if not ok:
                c.mismatch(name, op=line, model=mo, impl=want, **info)
        else:
            mo = parse_vi(out)
            ok = (mo["steps"] == len(want["losses"]) and mo["n"] == len(want["losses"]) and [float(v) for v in mo["losses"]] == want["losses"]
                  and float(mo["returned"]) == want["ret"])
            if not ok:
                c.mismatch(name, op=line, model=mo, impl=want, **info)
    c.notes.append(f"fit_to_data runs: {i} ({n_eager} under disable_jit with unequal per-batch losses); variational runs: {j}")


# ------------------------------------------------------------------ the property's oracle on the real code
def documented_fit(vals, m, p, rb):
    """(epochs run, returned epoch-count) by the documented rule, computed directly"""
    E = m
    for e in range(m):
        am = min(range(e + 1), key=lambda q: vals[q])
        if e - am > p:
            E = e + 1
            break
    if E == 0:
        return 0, 0
    best = min(range(E), key=lambda q: vals[q]) + 1
    return E, (best if rb else E)


def documented_vi(script, steps, rb):
    if steps == 0:
        return 0, 0
    return steps, (min(range(steps), key=lambda q: script[q]) if rb else steps)


def fit_violation(layname, script, m, p, rb, eager=False):
    lay = LAYOUTS[layname]
    trns = [100 + 3 * e for e in range(len(script))]
    r = run_fit_eager(lay, script, trns, m, p, rb) if eager else run_fit_jit(lay, script, trns, m, p, rb)
    ret, tr, va = r[0], r[1], r[2]
    E, k = documented_fit(script, m, p, rb)
    bad = []
    if len(va) != E:
        bad.append(f"ran {len(va)} epochs, documented rule gives {E}")
    if len(tr) != len(va):
        bad.append(f"{len(tr)} train losses vs {len(va)} validation losses")
    if va != [float(v) for v in script[: len(va)]]:
        bad.append("recorded validation losses differ from the batch means")
    if len(va) == E and ret != float(k * lay.nbT):
        bad.append(f"returned parameters after {ret} updates, documented: {k * lay.nbT}")
    return bad


def vi_violation(script, steps, rb, eager=False):
    ret, ls = (run_vi_eager if eager else run_vi_jit)(script, steps, rb)
    n, k = documented_vi(script, steps, rb)
    bad = []
    if len(ls) != n:
        bad.append(f"{len(ls)} losses recorded for {steps} steps")
    if ls != [float(v) for v in script[: len(ls)]]:
        bad.append("recorded losses differ from the script")
    if len(ls) == n and ret != float(k):
        bad.append(f"returned parameters after {ret} updates, documented: {k}")
    return bad


def search(hints, tier, rng):
    wit = []
    lmax = 4 if tier == "quick" else 5
    # the design-time history first, then exhaustive small histories
    scripts = [[1, 4, 16, 64], [5, 3, 4, 6, 7, 1]] + [list(p) for L in range(1, lmax + 1) for p in itertools.permutations(range(1, L + 1))]
    for script in scripts:
        L = len(script)
        for steps in range(L + 1):
            for rb in (True, False):
                bad = vi_violation(script, steps, rb)
                if bad:
                    wit.append(dict(key=f"vi|{script}|steps={steps}|rb={rb}", loop="vi", script=script, steps=steps, rb=rb, violated=bad))
        for p in range(L + 1):
            for m in range(L + 1):
                for rb in (True, False):
                    lay = "1x1" if (p + m) % 3 else "3x2"
                    bad = fit_violation(lay, script, m, p, rb)
                    if bad:
                        wit.append(dict(key=f"fit|{lay}|{script}|p={p}|m={m}|rb={rb}", loop="fit", layout=lay, script=script, p=p, m=m, rb=rb, violated=bad))
        if len(wit) >= 5:
            break
    return wit[:10]


def replay(w):
    if w["loop"] == "vi":
        return bool(vi_violation(w["script"], w["steps"], w["rb"]))
    return bool(fit_violation(w["layout"], w["script"], w["m"], w["p"], w["rb"]))
