"""Typing sheet for `_UnconditionalPlanar` (flowjax/bijections/planar.py): the four public methods, translated on
`List α` vectors, once per value of the static string field `activation`.

The class stores `activation: Literal["tanh"] | Literal["leaky_relu"]` and `activation_fn` (both fixed by the
constructor from `negative_slope`), and its methods branch on `self.activation == "leaky_relu"`.  Each
specialisation below fixes `activation` (`config=`); the translator
  * checks the value against the class annotation and finds the unique block of `__init__` assigning it,
  * reads the binding of `activation_fn` from that same block (`jnp.tanh`, resp.
    `partial(nn.leaky_relu, negative_slope=negative_slope)` with `self.negative_slope = negative_slope` stored unchanged),
  * decides `if self.activation == …` / `!= …` at translation time and refuses a method that raises
    unconditionally in that specialisation (so the tanh variant has the two forward methods only).

`self` is the record `Gen.UnconditionalPlanar` of `Gen/Params.lean` (weight, _act_scale, bias) so that the C11 theorems
about `get_act_scale` apply verbatim; the slope of the leaky-relu variant is the extra parameter `negative_slope`.
"""
import py2lean
import targets_params
from py2lean import Struct, Target, S, V, B, I, T, R

NAME = "Planar"
HEADER = targets_params.HEADER.replace("import Flowjaxv.Prelude.Jnp", "import Flowjaxv.Gen.Params")
assert "import Flowjaxv.Gen.Params" in HEADER and "[NatCast α]" in HEADER

PL = targets_params.PL
Planar = targets_params.Planar  # declared (and emitted) by targets_params; here only used to type `self`
STRUCTS = [Planar]

LRELU = dict(config={"activation": "leaky_relu"}, config_fns=("activation_fn",),
             free=[("negative_slope", S)], consts={"self.negative_slope": ("negative_slope", S)})
TANH = dict(config={"activation": "tanh"}, config_fns=("activation_fn",))
ACT_SCALE = {"self.get_act_scale": ("UnconditionalPlanar.get_act_scale", V, ["self"])}


def method(m, suffix, spec, extra_calls=None):
    xn = "x" if m.startswith("transform") else "y"
    ret = T(V, S) if m.endswith("log_det") else V
    calls = dict(ACT_SCALE)
    calls.update(extra_calls or {})
    return Target(PL, f"_UnconditionalPlanar.{m}", f"UnconditionalPlanar.{m}_{suffix}", [(xn, V)], ret,
                  selfstruct="UnconditionalPlanar", calls=calls, **{k: (dict(v) if isinstance(v, dict) else list(v) if isinstance(v, list) else v) for k, v in spec.items()})


ORDER = [
    "/-! ### activation = \"leaky_relu\": `activation_fn x = leaky_relu x negative_slope` -/\n",
    method("transform", "lrelu", LRELU),
    method("transform_and_log_det", "lrelu", LRELU),
    method("inverse_and_log_det", "lrelu", LRELU),
    method("inverse", "lrelu", LRELU, {"self.inverse_and_log_det": (
        "UnconditionalPlanar.inverse_and_log_det_lrelu", T(V, S), ["self", "negative_slope"], ("condition",))}),
    "/-! ### activation = \"tanh\": `activation_fn = tanh`; `inverse` / `inverse_and_log_det` raise NotImplementedError -/\n",
    method("transform", "tanh", TANH),
    method("transform_and_log_det", "tanh", TANH),
]
# the two methods that must NOT be translatable for tanh (they raise unconditionally); gen.py reports if they become so
REFUSED = [method("inverse", "tanh", TANH, {"self.inverse_and_log_det": ("UnconditionalPlanar.inverse_and_log_det_tanh", T(V, S), ["self"], ("condition",))}),
           method("inverse_and_log_det", "tanh", TANH)]
TARGETS = [t for t in ORDER if isinstance(t, Target)]
