"""Typing sheet for the training loops (`flowjax/train/{train_utils,data_fit,variational_fit}.py`), translated by
`py2loop.py` into `lean/Flowjaxv/Gen/TrainGen.lean`.

What the sheet fixes (and the translator checks against the source): which functions are translated, the Lean type of every
parameter, which parameters are *ambient* (objects the loops only hand on to library calls: the optimiser, the loss function,
the learning rate, the progress-bar switch — their roles are fields of `Train.World`), the import aliases the library calls
are recognised by, the element types of list variables that start as `[]`, and the one guard that is outside the model
(a jaxtyping `isinstance` check).  Everything else — every statement of every listed function — is translated or refused."""
from py2loop import Fn, INT, BOOL, FLOAT, LOSS, KEY, PARAMS, OPT, UNIT, ARR, LARGS, AMBIENT, TL, TO

NAME = "TrainGen"
TU = "flowjax/train/train_utils.py"
DF = "flowjax/train/data_fit.py"
VF = "flowjax/train/variational_fit.py"

# alias -> module the source file must bind it to (only aliases the file actually uses are checked)
IMPORTS = {"jr": "jax.random", "jnp": "jax.numpy", "eqx": "equinox", "optax": "optax", "tqdm": "tqdm.tqdm", "jit": "jax.jit",
           "partial": "functools.partial", "wrappers": "flowjax.wrappers",
           "count_fruitless": "flowjax.train.train_utils.count_fruitless", "get_batches": "flowjax.train.train_utils.get_batches",
           "step": "flowjax.train.train_utils.step", "train_val_split": "flowjax.train.train_utils.train_val_split",
           "MaximumLikelihoodLoss": "flowjax.train.losses.MaximumLikelihoodLoss",
           "Shaped": "jaxtyping.Shaped", "Array": "jaxtyping.Array"}

# decorators that do not change what the function computes
DECORATORS = {"eqx.filter_jit", "partial(jit, static_argnums=1)"}

# guards outside the model: source text of the `if` test -> (Lean Bool, why)
OPAQUE_GUARDS = {
    "not all((isinstance(a, Shaped[Array, ' dim ...']) for a in arrays))":
        ("false", "jaxtyping check that every array has a leading axis; arrays are lists of rows here"),
}

FUNCS = [
    Fn(TU, "count_fruitless", "countFruitless", [("losses", TL(LOSS))]),
    Fn(TU, "_add_batch", "addBatch", [("arr", ARR), ("batch_size", INT)]),
    Fn(TU, "get_batches", "getBatches", [("arrays", TL(ARR)), ("batch_size", INT)]),
    Fn(TU, "train_val_split", "trainValSplit", [("key", KEY), ("arrays", TL(ARR)), ("val_prop", FLOAT)]),
    # `*args, **kwargs` are what the loss function receives after (params, static): one `LossArgs`
    Fn(TU, "step", "step", [("params", PARAMS), ("static", UNIT), ("*args", LARGS), ("optimizer", AMBIENT), ("opt_state", OPT),
                            ("loss_fn", AMBIENT), ("**kwargs", LARGS)]),
    Fn(DF, "fit_to_data", "fitToData",
       [("key", KEY), ("dist", PARAMS), ("x", ARR), ("condition", TO(ARR)), ("loss_fn", AMBIENT), ("max_epochs", INT),
        ("max_patience", INT), ("batch_size", INT), ("val_prop", FLOAT), ("learning_rate", AMBIENT), ("optimizer", AMBIENT),
        ("return_best", BOOL), ("show_progress", AMBIENT)],
       hints={"batch_losses": TL(LOSS), "losses.train": TL(LOSS), "losses.val": TL(LOSS)}),
    Fn(VF, "fit_to_variational_target", "fitToVariationalTarget",
       [("key", KEY), ("dist", PARAMS), ("loss_fn", AMBIENT), ("steps", INT), ("learning_rate", AMBIENT), ("optimizer", AMBIENT),
        ("return_best", BOOL), ("show_progress", AMBIENT)],
       hints={"losses": TL(LOSS)}),
]
