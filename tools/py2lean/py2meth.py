"""py2meth: translate straight-line methods / functions whose statements are library calls into Lean, the library calls getting
their meaning from a hand-written "world" (`Model/LossWorld.lean`, `Model/DistPublicWorld.lean`, `Model/NetWorld.lean`).  Stdlib `ast` only; the source is
parsed, never imported.  Sibling of `py2loop.py` (same discipline, different subset): every statement of every function listed in
a typing sheet (`targets_losses.py`, `targets_dist_public.py`, `targets_families.py` with world `Model/FamiliesWorld.lean`, `targets_net.py`, `targets_jaxtr.py`, `targets_bnafnet.py`, `targets_bisectgen.py` with world `Model/BisectWorld.lean`) is translated or the function is REFUSED (an error entry in the
generation report = a broken tie).

The translation is TYPED: the sheet gives the Lean type of every parameter / class field and a table of primitives
(`P(pattern, argument types, result type, Lean template)`); a Python call, method call, attribute, operator or subscript is
translated only if some table entry with that pattern unifies with the types of its arguments (overloading is resolved by the
types: `dist.log_prob(x, c)` on a point and on a batch are different world functions).  Anything without a table entry is refused.

  statements   `x = e`, `a, b = e`, `if c: raise E(...)` (a guard), `for pat in it: if c: raise E(...)` (a guard over `List.any`),
               `if/elif/else` joins (`e is None` / `e is not None` on an optional-typed pure expression is a `match` that narrows
               that expression in the branch), nested `def` (closures: captured variables become leading parameters; decorated
               `@eqx.filter_vmap`; the `_check_shapes` decorator/wrapper pair), `return e` (last), docstrings; nested tuple targets
               `(a, _), _ = e` on a product-typed value (`_` discards); `InitPart`: the leading guards of an `__init__` and the values
               finally assigned to listed attributes (see the class).
  expressions  names, `self.<field>`, generated properties / methods of `self`, int / bool / None / str constants, shape tuples
               (`()`, `(n,)`, `(*s, 2)`), list displays, `{"k": …}[m.__name__]` (a `match` on an enumeration), `a if c else b`,
               `x or None`, f-strings of strings, single-generator comprehensions, `vmap(f)(…)` / `eqx.filter_vmap(f)(…)`,
               calls of generated functions, `x[:e]` / `x[e:]`, `None` as a tuple component (type `Unit`), `partial(obj.<generated
               method>, kw=e, …)` as a function value, and the primitives of the sheet (a keyword spec `("reqlit", text)` must be
               present literally).

`Ctor` items (sheet `targets_families.py`): a class `__init__` translated statement by statement — local assignments, `self.<f> = e`,
`self.<f>, x = e`, reads of already assigned `self.<f>`, calls of other generated constructors with positional / keyword arguments
(`Affine(loc=minval, scale=maxval - minval)`), `*(f(v) for v in (e1, …, ek))` over a tuple DISPLAY (= the k arguments in order), list
displays whose members are injected into a declared sum type (`UPCAST`), exact source texts containing a lambda (`TEXT_PRIMS`, possibly
raising); the result is a structure of the WORLD built with named fields, every attribute assigned exactly once, anything else refused.
An import alias may be expected per file (`IMPORTS[alias] = {file: binding}`), and a generated constructor is recognised in a client
module only if its name is bound there to what the sheet says (`bound_as`).

A function that contains a guard or calls a primitive that can raise is emitted in the sheet's monad (`Option` / `Except PyErr`)
with explicit `bind`s; every other function is emitted pure.
"""
from __future__ import annotations

import ast
import dataclasses
import os
import re


class Refuse(Exception):
    pass


class No(str):
    """the reason an argument / primitive does not match"""


# ------------------------------------------------------------------ types
NAT, INT, BOOL, CHAR = "Nat", "Int", "Bool", "Char"
UNUSED = "<unused>"
CHARLIT = ("<charlit>",)


def L(t):
    return ("List", t)


def O(t):
    return ("Option", t)


def T(*ts):
    return ("Tup",) + tuple(ts)


def F(args, ret, monadic=False):
    return ("Fn", tuple(args), ret, monadic)


STR = L(CHAR)
SHAPE = L(NAT)
LEAN_KEYWORDS = {"at", "from", "end", "in", "do", "then", "else", "if", "fun", "let", "have", "show", "with", "match", "open",
                 "def", "theorem", "structure", "where", "by", "instance", "class", "namespace", "section", "variable", "W"}


def is_var(t):
    return isinstance(t, str) and t.startswith("?")


def unify(p, a, s):
    """first-order matching of a pattern (may contain `?v`) against an actual type"""
    if is_var(p):
        if p in s:
            return s[p] == a
        s[p] = a
        return True
    if isinstance(p, tuple) and isinstance(a, tuple):
        return len(p) == len(a) and all(unify(x, y, s) for x, y in zip(p, a))
    return p == a


def subst(t, s):
    if is_var(t):
        if t not in s:
            raise Refuse(f"type variable {t} is not determined by the arguments")
        return s[t]
    if isinstance(t, tuple):
        return tuple(subst(x, s) for x in t)
    return t


def rename_vars(t, names):
    """the type variables `names` of a generated function become pattern variables"""
    if isinstance(t, str):
        return "?" + t if t in names else t
    if isinstance(t, tuple):
        return tuple(rename_vars(x, names) for x in t)
    return t


def atomic(s):
    if " " not in s:
        return True
    if s[0] in "([⟨" and s[-1] in ")]⟩":
        depth = 0
        for i, ch in enumerate(s):
            if ch in "([⟨":
                depth += 1
            elif ch in ")]⟩":
                depth -= 1
                if depth == 0 and i != len(s) - 1:
                    return False
        return True
    return False


def paren(s):
    return s if atomic(s) else f"({s})"


def char_lit(ch):
    if ch in "'\\" or not (32 <= ord(ch) < 127):
        raise Refuse(f"character {ch!r} in a string literal")
    return f"'{ch}'"


def str_lit(s):
    return "[" + ", ".join(char_lit(ch) for ch in s) + "]" if s else "([] : List Char)"


# ------------------------------------------------------------------ sheet vocabulary
@dataclasses.dataclass
class P:
    """one primitive: `pattern` is `call:<dotted name>` | `meth:<name>` (args[0] = receiver) | `attr:<name>` | `const:<dotted>` |
    `op:<BinOp>` | `uop:<UnaryOp>` | `cmp:<CmpOp>` | `sub` | `shape0` | `slice_to` | `or_none` | `apply` (args[0] = callee);
    an argument spec is a type (may contain `?v`), CHARLIT (a one-character string constant, passed as a `Char`), or
    `("lit", text)` (the argument must be literally `text`; it is consumed).  `kw`: keyword -> spec (`("lit", text)` keywords are
    optional and consumed, typed keywords are required and appended to the arguments in the order of `kw`)."""
    pattern: str
    args: list
    ret: object
    lean: str
    monadic: bool = False
    kw: dict = dataclasses.field(default_factory=dict)


@dataclasses.dataclass
class Nested:
    """a nested `def`.  kind: `fn` (called directly), `vmap` (decorated `@eqx.filter_vmap`, called directly), `checker` (a decorator
    `def d(method): <wrapper def>; return <wrapper>`), `wrapper` (its `*args` wrapper: only the conditions under which it raises
    are translated, its last statement must be `passthrough`)."""
    params: list
    kind: str = "fn"
    decorators: tuple = ()
    passthrough: str = ""
    result: object = None   # checker: the type of `d(method)`; the Lean template is `result_lean`
    result_lean: str = ""


@dataclasses.dataclass
class Fn:
    file: str
    qual: str               # `func` or `Class.method`
    lean: str
    params: list            # (python name, type | UNUSED), without `self`
    self_ty: object = None  # type of `self` (None: a method that never reads `self`, or a function)
    nested: dict = dataclasses.field(default_factory=dict)
    tyvars: tuple = ()      # type variables this function is polymorphic in (besides the sheet's)
    binders: object = None  # Lean binder text before the parameters (None: the sheet's BINDERS)
    prop: bool = False      # decorated `@property`
    doc: str = ""
    defaults: dict = dataclasses.field(default_factory=dict)  # parameter -> the literal text of its default in the signature (checked); a call may then omit it
    literal_kw: tuple = ()  # parameters that call sites may only pass as a literal constant (anything else is refused)
    inline: bool = False    # a method whose body is a single `return <expr>`: not emitted, expanded at every call site (checked on every run)
    locals: dict = dataclasses.field(default_factory=dict)   # EXTENDED sheets: declared type of a local first bound to `[]`; any sheet: declared type of a
                                                              # local bound to a tuple display (its int literals are adapted to that type: `init_state = (lower, upper, 0)`)
    local_classes: dict = dataclasses.field(default_factory=dict)   # nested `class X(NamedTuple)`: name -> LocalClass (fields / defaults checked against the source)
    returns_none: bool = False   # a procedure (guards only, no `return`): the result is `()`
    ret: object = None      # declared result type: every returned value is injected into it through the sheet's UPCAST (or refused)


@dataclasses.dataclass
class LocalClass:
    """a `class X(NamedTuple)` declared inside a function: `ty` is the (world / generated) structure its instances are, `fields` the
    annotated fields in order (name, type), `defaults` field -> (source text of the default, Lean term).  The class statement must
    declare exactly these fields and defaults; `X(a, kw=e, …)` builds the structure with named fields."""
    ty: object
    fields: list
    defaults: dict = dataclasses.field(default_factory=dict)


@dataclasses.dataclass
class Cls:
    """a class whose `__init__` is `self.<field> = <expr>` statements: emitted as a structure + `<lean>.init`"""
    file: str
    name: str
    lean: str
    tyargs: str             # e.g. "(X α : Type)"
    ty: object              # the type term of an instance, e.g. ("ElboLoss", "X", "α")
    fields: list            # (name, type)
    init_params: list       # (python name, type)
    binders: str = ""


@dataclasses.dataclass
class Ctor:
    """a class whose `__init__` is translated statement by statement (local assignments, `self.<f> = e`, `self.<f>, x = e`, calls of
    raising primitives): the attribute declarations are a structure of the WORLD (`ty`, `fields`); the generated `<lean>` builds it
    with named fields (every field exactly once).  Registered as a callable under `call_as` (the class name); `bound_as`: file ->
    what that name must be bound to at module level of a client file (checked like every import)."""
    file: str
    name: str
    lean: str
    ty: object
    fields: list
    init_params: list
    binders: object = None
    call_as: str = ""
    bound_as: dict = dataclasses.field(default_factory=dict)
    tyvars: tuple = ()
    locals: dict = dataclasses.field(default_factory=dict)   # sheets with `CTOR_STATEMENTS`: declared type of a local first bound to `[]`


@dataclasses.dataclass
class InitPart:
    """part of an `__init__` that is NOT a list of `self.<field> = <expr>` statements: the leading guards `if c: raise E(...)` and the
    value finally assigned to each attribute of `fields`.  Emitted as `<lean> params : M (field₁ × field₂ × …)` (raises iff a guard
    fires).  Accepted only if (i) the guards are the first statements, (ii) no other `raise` / `return` occurs anywhere in the body,
    (iii) the LAST assignment of each listed attribute is a top-level `self.<field> = <expr>` (so it overwrites every earlier one)
    whose right-hand side mentions only parameters that are never reassigned.  Every other statement is skipped: what it computes
    (and whether a library constructor it calls raises) is outside this function."""
    file: str
    cls: str
    lean: str
    params: list            # (python name, type | UNUSED), without `self`
    fields: list            # (attribute, type)
    binders: str = ""
    doc: str = ""


@dataclasses.dataclass
class Frag:
    """ONE assignment statement of a (large) function that is otherwise outside this translator: `<targets> = <expr>`, translated as a
    function of the listed parameters of the enclosing function.  Accepted only if (i) exactly one statement of the whole function
    (at any depth) has the target text `targets`, and it is a top-level statement of the function body, (ii) every free name of
    `<expr>` is a listed parameter (or a checked import / a lambda parameter), (iii) none of those parameters is stored to anywhere
    before that statement, (iv) the function's parameter list contains the listed parameters."""
    file: str
    qual: str
    lean: str
    targets: str            # the unparsed target, e.g. "(params, static)"
    params: list            # (python name, type): the parameters of the enclosing function the expression may read
    binders: object = None
    doc: str = ""


@dataclasses.dataclass
class V:
    ty: object = None
    code: str = ""
    kind: str = "lean"      # lean | none | empty | dict | fn | tuple
    items: object = None
    lit: object = None      # the Python constant, for str / int literals


def dotted_root(n):
    while isinstance(n, ast.Attribute):
        n = n.value
    return n.id if isinstance(n, ast.Name) else None


def proj(code, i, n):
    if n == 1:
        return code
    return f"{code}{'.2' * i}{'.1' if i < n - 1 else ''}"


class Block:
    """the lines of one block: ("let", name, type | None, code) | ("bind", name, code) | ("guard", cond, raise term)"""

    def __init__(self):
        self.lines = []

    @property
    def monadic(self):
        return any(l[0] not in ("let", "early_none") for l in self.lines)


class Tr:
    """translator of one function (or nested function)"""

    def __init__(self, gen, fn, node, lean_name, params, env=None, self_ty=None, nested=None):
        self.gen, self.fn, self.node, self.lean_name = gen, fn, node, lean_name
        self.sheet = gen.sheet
        self.params = params            # (python name, type | UNUSED)
        self.env = dict(env or {})
        self.outer_names = set(self.env)
        self.self_ty = self_ty
        self.nested = nested if nested is not None else fn.nested
        self.blk = Block()
        self.narrow = {}
        self.pure_only = 0              # > 0 inside lambdas / conditional expressions: a raising primitive is refused
        self.frozen = set()             # names captured by a nested def: may not be reassigned afterwards
        self.ret = None
        self.unused = set()
        self.ctor_fields = None         # inside a `Ctor`: attribute name -> V of the `self.<f>` assigned so far
        self.early_types = []                 # types of the values returned early (`if <e> is None: return r`)
        self.whole_body = False         # True while the statements of the function's own body (not of a branch) are translated
        self.ctor_ftypes = None         # inside a `Ctor` of a sheet with `CTOR_STATEMENTS`: attribute -> type; `self.<f>` lives in `env["self.<f>"]`

    # ------------------------------------------------------------------ helpers
    @property
    def ext(self):
        return bool(getattr(self.sheet, "EXTENDED", False))

    def M(self, key):
        return self.sheet.MONAD[key]

    def ty(self, t):
        return self.gen.lean_ty(t)

    def tmp(self, p="t"):
        self.gen.tmpc += 1
        return f"{p}{self.gen.tmpc}"

    def lname(self, name):
        if name == "self":
            return "self_"
        if name.startswith("self.") and self.ctor_ftypes is not None and name[5:] in self.ctor_ftypes:
            return "self_" + name[5:]     # the attribute `self.<f>` of a `Ctor` (sheets with `CTOR_STATEMENTS`)
        if name in LEAN_KEYWORDS or re.fullmatch(r"[tv]\d+|raises|self_", name):
            raise Refuse(f"variable name `{name}` clashes with a reserved name of the translation")
        return name

    def emit_let(self, name, v, ascribe=True):
        self.blk.lines.append(("let", name, v.ty if ascribe else None, v.code))
        return V(v.ty, name)

    def emit_bind(self, name, ty, code):
        if self.pure_only:
            raise Refuse("a primitive that can raise inside a lambda / conditional expression")
        self.blk.lines.append(("bind", name, code))
        return V(ty, name)

    def lean(self, v, what="value"):
        if v.kind == "lean":
            return v
        if v.kind == "tuple":
            unit = getattr(self.sheet, "NONE_IN_TUPLE_IS_UNIT", False)
            items = [V("Unit", "()") if (x.kind == "none" and unit) else self.lean(x) for x in v.items]
            return V(T(*[x.ty for x in items]), "(" + ", ".join(x.code for x in items) + ")")
        if v.kind == "fn" and v.items.get("kind") == "fn" and getattr(self.sheet, "NESTED_AS_VALUES", False):
            # a nested def handed on as a value (`lax.scan(step, …)`): the partial application to its captured variables
            info = v.items
            return V(F([t for _, t in info["params"]], info["ret"], info["monadic"]), " ".join([info["lean"]] + info["captured"]))
        if v.kind == "fn" and self.ext and v.items["kind"] == "fn" and not v.items["monadic"]:
            # a nested def used as a VALUE (returned closure): a lambda over its own parameters, captured variables applied
            info = v.items
            names = [f"a{i}" for i in range(len(info["params"]))]
            return V(F([t for _, t in info["params"]], info["ret"]), f"(fun {' '.join(names)} => {' '.join([info['lean']] + info['captured'] + names)})")
        raise Refuse(f"a {v.kind} value where a Lean {what} is needed")

    def adapt(self, v, ty):
        """an int literal where the sheet's scalar type is expected (`(x, 0)` as the initial carry of a scan whose body adds
        scalars to it: JAX promotes the weakly typed `0`), also inside tuple displays; everything else unchanged"""
        conv = getattr(self.sheet, "INT_LITERAL_AS", {})
        if v.kind == "lean" and isinstance(v.lit, int) and not isinstance(v.lit, bool) and ty in conv and v.ty == NAT:
            return V(ty, conv[ty].format(v.lit))
        if v.kind == "tuple" and isinstance(ty, tuple) and ty[0] == "Tup" and len(ty) - 1 == len(v.items):
            return V(kind="tuple", items=[self.adapt(x, t) for x, t in zip(v.items, ty[1:])])
        return v

    def coerce(self, v, ty):
        """`v` as a value of type `ty` (only an empty display / None change shape)"""
        if v.kind == "empty":
            if isinstance(ty, tuple) and ty[0] == "List":
                return V(ty, f"([] : {self.ty(ty)})")
            raise Refuse(f"`[]` where {ty} is expected")
        if v.kind == "none":
            if isinstance(ty, tuple) and ty[0] == "Option":
                return V(ty, f"(none : {self.ty(ty)})")
            raise Refuse(f"`None` where {ty} is expected")
        v = self.lean(v)
        if v.ty == ty:
            return v
        if isinstance(ty, tuple) and ty[0] == "Option" and v.ty == ty[1]:
            return V(ty, f"some {paren(v.code)}")
        raise Refuse(f"type {v.ty} where {ty} is expected (`{v.code[:60]}`)")

    def join_types(self, a, b):
        """common type of two branches"""
        for x, y in ((a, b), (b, a)):
            if x.kind in ("empty", "none"):
                if y.kind == "lean":
                    if x.kind == "none" and not (isinstance(y.ty, tuple) and y.ty[0] == "Option"):
                        return O(y.ty)
                    return y.ty
                if x.kind == "none" and y.kind == "none":
                    raise Refuse("both branches are `None`")
        a, b = self.lean(a), self.lean(b)
        if a.ty == b.ty:
            return a.ty
        raise Refuse(f"branches of types {a.ty} and {b.ty}")

    # ------------------------------------------------------------------ primitives
    def match_prim(self, pattern, args, kws=(), what=""):
        """args: list of (V | ast node for literal specs).  Returns V (emitting a bind for a monadic primitive)."""
        cands = [p for p in self.sheet.PRIMS if p.pattern == pattern]
        if not cands:
            raise Refuse(f"`{what or pattern}` is outside the subset (no primitive `{pattern}`)")
        why = []
        for p in cands:
            r = self.try_prim(p, args, kws)
            if isinstance(r, V):
                return r
            why.append(r)
        tys = ", ".join(str(a.ty) if isinstance(a, V) and a.kind == "lean" else (a.kind if isinstance(a, V) else "?") for a, _ in args)
        raise Refuse(f"`{what or pattern}`: no primitive `{pattern}` accepts ({tys}){' — ' + '; '.join(why[:3]) if why else ''}")

    def try_prim(self, p, args, kws):
        if len(args) != len(p.args):
            return No(f"{len(p.args)} arguments expected")
        s, codes = {}, []
        for spec, (v, node) in zip(p.args, args):
            r = self.match_arg(spec, v, node, s)
            if isinstance(r, No):
                return r
            if r is not None:
                codes.append(r)
        seen = set()
        for k in kws:
            if k.arg is None or k.arg not in p.kw:
                return No(f"keyword `{k.arg}`")
            seen.add(k.arg)
        extra = {}
        for name, spec in p.kw.items():
            node = next((k.value for k in kws if k.arg == name), None)
            if isinstance(spec, tuple) and spec and spec[0] == "lit":
                if node is not None and ast.unparse(node) != spec[1]:
                    return No(f"keyword `{name}` must be `{spec[1]}`")
                continue
            if isinstance(spec, tuple) and spec and spec[0] == "reqlit":
                if node is None or ast.unparse(node) != spec[1]:
                    return No(f"keyword `{name}={spec[1]}` is required")
                continue
            if node is None:
                return No(f"keyword `{name}` is required")
            try:
                v = self.ex(node)
            except Refuse as ex:
                return No(str(ex))
            r = self.match_arg(spec, v, node, s)
            if isinstance(r, No):
                return r
            extra[name] = r
        codes += [extra[n] for n in p.kw if n in extra]
        try:
            ret = subst(p.ret, s)
        except Refuse as ex:
            return No(str(ex))
        code = p.lean.format(*[paren(c) for c in codes])
        if p.monadic:
            return self.emit_bind(self.tmp(), ret, code)
        return V(ret, code)

    def match_arg(self, spec, v, node, s):
        """code of the argument, None if consumed, or a str = reason for no match"""
        if spec == CHARLIT:
            if isinstance(node, ast.Constant) and isinstance(node.value, str) and len(node.value) == 1:
                return char_lit(node.value)
            return No("a one-character string constant expected")
        if isinstance(spec, tuple) and spec and spec[0] == "lit":
            if node is not None and ast.unparse(node) == spec[1]:
                if getattr(self.sheet, "CHECK_LIT_ROOTS", False):
                    root = spec[1].split(".")[0]
                    if root in self.env:
                        return No(f"`{spec[1]}`: `{root}` is a local variable here")
                    self.need_root(spec[1])
                return None
            return No(f"literally `{spec[1]}` expected")
        if v is None:
            return No("missing argument")
        if v.kind == "unevaluated":
            return No(v.code)
        if v.kind == "empty":
            if isinstance(spec, tuple) and spec[0] == "List":
                try:
                    return f"([] : {self.ty(subst(spec, s))})"
                except Refuse:
                    return No("`[]` of undetermined type")
            return No("`[]` where no list is expected")
        if v.kind == "none":
            if isinstance(spec, tuple) and spec[0] == "Option":
                try:
                    return f"(none : {self.ty(subst(spec, s))})"
                except Refuse:
                    return No("`None` of undetermined type")
            return No("`None` where no optional is expected")
        try:
            try:
                v = self.adapt(v, subst(spec, dict(s)))
            except Refuse:
                pass   # the expected type is not determined yet
            v = self.lean(v)
        except Refuse as ex:
            return No(str(ex))
        if unify(spec, v.ty, s):
            return v.code
        return No(f"{v.ty} does not match {spec}")

    def need_root(self, text):
        root = text.split(".")[0]
        if root in self.sheet.IMPORTS or root in self.sheet.BUILTINS:
            self.gen.need(self.fn.file, root)

    # ------------------------------------------------------------------ expressions
    def ex(self, n) -> V:
        if isinstance(n, (ast.Name, ast.Attribute)):
            key = ast.unparse(n)
            if key in self.narrow:
                return self.narrow[key]
        if isinstance(n, ast.Constant):
            c = n.value
            if c is None:
                return V(kind="none")
            if isinstance(c, bool):
                return V(BOOL, "true" if c else "false", lit=c)
            if isinstance(c, int):
                if c < 0:
                    raise Refuse("negative literal")
                return V(NAT, str(c), lit=c)
            if isinstance(c, str):
                return V(STR, str_lit(c), lit=c)
            if isinstance(c, float) and repr(c) in getattr(self.sheet, "FLOAT_LITERALS", {}):
                ty, code = self.sheet.FLOAT_LITERALS[repr(c)]   # a float literal the sheet gives an exact meaning to (`2.0` is the scalar 2)
                return V(ty, code)
            raise Refuse(f"constant {c!r}")
        if isinstance(n, ast.Name):
            if n.id in self.env:
                if n.id in self.unused:
                    raise Refuse(f"`{n.id}` is declared unused in the sheet but is read")
                return self.env[n.id]
            raise Refuse(f"name `{n.id}` is not defined on every path to this point (or is outside the subset)")
        if isinstance(n, ast.Attribute):
            return self.attribute(n)
        if isinstance(n, ast.Tuple):
            return self.tuple_display(n)
        if isinstance(n, ast.List):
            if not n.elts:
                return V(kind="empty")
            if self.early and any(isinstance(e, ast.Starred) for e in n.elts):
                # `[a, *xs, b]`: the concatenation of the singleton / starred parts, in order
                parts, ety = [], None
                for e in n.elts:
                    if isinstance(e, ast.Starred):
                        v = self.lean(self.ex(e.value))
                        if not (isinstance(v.ty, tuple) and v.ty[0] == "List"):
                            raise Refuse(f"starred element `{ast.unparse(e)[:40]}` of type {v.ty} in a list display")
                        t, code = v.ty[1], paren(v.code)
                    else:
                        v = self.lean(self.ex(e))
                        t, code = v.ty, f"[{v.code}]"
                    if ety is not None and t != ety:
                        raise Refuse("list display with elements of different types")
                    ety = t
                    parts.append(code)
                return V(L(ety), " ++ ".join(parts))
            elif any(isinstance(e, ast.Starred) for e in n.elts):
                # `[a, *xs, b]` (sheets with `STARRED_LIST_DISPLAY`): the concatenation, `xs` a list of the element type
                if not getattr(self.sheet, "STARRED_LIST_DISPLAY", False):
                    raise Refuse("starred element in a list display")
                segs = [(True, self.lean(self.ex(e.value))) if isinstance(e, ast.Starred) else (False, self.lean(self.ex(e))) for e in n.elts]
                tys = {(v.ty[1] if (isinstance(v.ty, tuple) and v.ty[0] == "List") else None) if st else v.ty for st, v in segs}
                if len(tys) != 1 or None in tys:
                    raise Refuse("list display with a starred element that is not a list of the element type")
                chunks, cur = [], []
                for st, v in segs:
                    if st:
                        if cur:
                            chunks.append("[" + ", ".join(cur) + "]")
                            cur = []
                        chunks.append(paren(v.code))
                    else:
                        cur.append(v.code)
                if cur:
                    chunks.append("[" + ", ".join(cur) + "]")
                return V(L(tys.pop()), " ++ ".join(chunks))
            items = [self.lean(self.ex(e)) for e in n.elts]
            up = getattr(self.sheet, "UPCAST", {})
            if any(x.ty != items[0].ty for x in items) and all(x.ty in up for x in items):
                items = [V(up[x.ty][0], up[x.ty][1].format(paren(x.code))) for x in items]   # members of a declared sum type
            if any(x.ty != items[0].ty for x in items):
                raise Refuse("list display with elements of different types")
            return V(L(items[0].ty), "[" + ", ".join(x.code for x in items) + "]")
        if isinstance(n, ast.UnaryOp):
            a = self.ex(n.operand)
            if isinstance(n.op, ast.Not):
                a = self.coerce(a, BOOL)
                return V(BOOL, f"!{paren(a.code)}")
            return self.match_prim(f"uop:{type(n.op).__name__}", [(a, n.operand)], what=ast.unparse(n)[:60])
        if isinstance(n, ast.BoolOp):
            if isinstance(n.op, ast.Or) and len(n.values) == 2 and isinstance(n.values[1], ast.Constant) and n.values[1].value is None:
                return self.match_prim("or_none", [(self.ex(n.values[0]), n.values[0])], what=ast.unparse(n)[:60])
            cs = [paren(self.coerce(self.ex(v), BOOL).code) for v in n.values]
            return V(BOOL, (" && " if isinstance(n.op, ast.And) else " || ").join(cs))
        if isinstance(n, ast.BinOp):
            return self.match_prim(f"op:{type(n.op).__name__}", [(self.ex(n.left), n.left), (self.ex(n.right), n.right)], what=ast.unparse(n)[:60])
        if isinstance(n, ast.Compare):
            return self.compare(n)
        if isinstance(n, ast.IfExp):
            return self.ifexp(n)
        if isinstance(n, ast.Subscript):
            return self.subscript(n)
        if isinstance(n, ast.Call):
            return self.call(n)
        if isinstance(n, (ast.GeneratorExp, ast.ListComp)):
            return self.comp(n)
        if isinstance(n, ast.Lambda):
            return self.lambda_value(n)
        if isinstance(n, ast.JoinedStr):
            parts = []
            for p in n.values:
                if isinstance(p, ast.Constant) and isinstance(p.value, str):
                    parts.append(str_lit(p.value))
                elif isinstance(p, ast.FormattedValue) and p.conversion == -1 and p.format_spec is None:
                    parts.append(paren(self.coerce(self.ex(p.value), STR).code))
                else:
                    raise Refuse("f-string part with a conversion / format spec")
            return V(STR, " ++ ".join(parts) if parts else str_lit(""))
        raise Refuse(f"expression {type(n).__name__}: `{ast.unparse(n)[:60]}`")

    def lambda_value(self, n):
        """`lambda v: e` (sheets with `LAMBDA_PARAMS`: the parameter's type is the sheet's for that NAME; one positional parameter, no
        default, not shadowing a variable): a pure function value"""
        table = getattr(self.sheet, "LAMBDA_PARAMS", None)
        if table is None:
            raise Refuse(f"expression Lambda: `{ast.unparse(n)[:60]}`")
        a = n.args
        if len(a.args) != 1 or a.posonlyargs or a.kwonlyargs or a.vararg or a.kwarg or a.defaults or a.kw_defaults:
            raise Refuse(f"`{ast.unparse(n)[:60]}`: a lambda other than `lambda v: e`")
        name = a.args[0].arg
        if name not in table:
            raise Refuse(f"`{ast.unparse(n)[:60]}`: the lambda parameter `{name}` is not typed by the sheet")
        if name in self.env or any(re.search(rf"\b{re.escape(name)}\b", k) for k in self.narrow):
            raise Refuse(f"`{ast.unparse(n)[:60]}`: the lambda parameter `{name}` shadows a variable")
        ln = self.lname(name)
        self.env[name] = V(table[name], ln)
        self.pure_only += 1
        try:
            body = self.lean(self.ex(n.body))
        finally:
            self.pure_only -= 1
            del self.env[name]
        return V(F([table[name]], body.ty), f"(fun ({ln} : {self.ty(table[name])}) => {body.code})")

    def tuple_display(self, n):
        if not n.elts:
            return V(SHAPE, f"([] : {self.ty(SHAPE)})")
        parts, shape_like, items = [], True, []
        for e in n.elts:
            if isinstance(e, ast.Starred):
                v = self.lean(self.ex(e.value))
                if v.ty != SHAPE:
                    raise Refuse("starred element that is not a shape")
                parts.append(("star", v.code))
                continue
            v = self.ex(e)
            items.append(v)
            if v.kind == "lean" and v.ty == NAT:
                parts.append(("elt", v.code))
            else:
                shape_like = False
        if shape_like and len(parts) == 2 and all(k == "elt" for k, _ in parts) and getattr(self.sheet, "NAT_PAIRS_ARE_TUPLES", False):
            shape_like = False            # `(b0, b1)`: a pair of ints (a block shape), not an array shape
        if shape_like:
            chunks, cur = [], []
            for k, c in parts:
                if k == "elt":
                    cur.append(c)
                else:
                    if cur:
                        chunks.append("[" + ", ".join(cur) + "]")
                        cur = []
                    chunks.append(paren(c))
            if cur:
                chunks.append("[" + ", ".join(cur) + "]")
            return V(SHAPE, " ++ ".join(chunks))
        if any(k == "star" for k, _ in parts):
            raise Refuse("starred element in a tuple that is not a shape")
        return V(kind="tuple", items=items)

    def attribute(self, n):
        if self.ctor_fields is not None and isinstance(n.value, ast.Name) and n.value.id == "self":
            if n.attr in self.ctor_fields:
                return self.ctor_fields[n.attr]
            raise Refuse(f"`self.{n.attr}` is read before `__init__` assigns it")
        root = dotted_root(n)
        if root is not None and root not in self.env and not (root == "self" and self.ctor_fields is not None):
            text = ast.unparse(n)
            self.need_root(text)
            return self.match_prim(f"const:{text}", [], what=text)
        v = self.lean(self.ex(n.value))
        head = v.ty[0] if isinstance(v.ty, tuple) else v.ty
        g = self.gen
        if (head, n.attr) in g.fields:
            ft = g.fields[(head, n.attr)]
            if isinstance(ft, tuple) and ft and ft[0] == "arg":   # the field's type is the i-th argument of the structure's type
                ft = v.ty[ft[1]]
            return V(ft, f"{paren(v.code)}.{n.attr}")
        info = g.methods.get((head, n.attr))
        if info is not None and info["prop"]:
            return self.call_gen(info, [v], [], what=ast.unparse(n))
        if (head, n.attr) in g.refused:
            raise Refuse(f"reads `{n.attr}`, which was refused")
        return self.match_prim(f"attr:{n.attr}", [(v, n.value)], what=ast.unparse(n)[:60])

    def compare(self, n):
        if len(n.ops) != 1:
            raise Refuse("comparison chain")
        op, l, r = type(n.ops[0]).__name__, n.left, n.comparators[0]
        if op in ("Is", "IsNot"):
            a = self.lean(self.ex(l))
            if isinstance(r, ast.Constant) and r.value is None and isinstance(a.ty, tuple) and a.ty[0] == "Option":
                return V(BOOL, f"{paren(a.code)}.{'isNone' if op == 'Is' else 'isSome'}")
            raise Refuse("`is` other than `<optional> is None`")
        return self.match_prim(f"cmp:{op}", [(self.ex(l), l), (self.ex(r), r)], what=ast.unparse(n)[:60])

    def narrow_test(self, t):
        """`e is None` / `e is not None` with `e` an optional-typed name / attribute chain -> (text of e, V of e, True if `is None`)"""
        if (isinstance(t, ast.Compare) and len(t.ops) == 1 and isinstance(t.ops[0], (ast.Is, ast.IsNot)) and isinstance(t.left, (ast.Name, ast.Attribute))
                and isinstance(t.comparators[0], ast.Constant) and t.comparators[0].value is None):
            key = ast.unparse(t.left)
            if key in self.narrow:
                raise Refuse(f"`{key}` is tested for None where it is already known not to be")
            v = self.lean(self.ex(t.left))
            if isinstance(v.ty, tuple) and v.ty[0] == "Option":
                return key, v, isinstance(t.ops[0], ast.Is)
            raise Refuse(f"`{key} is None` on a value of type {v.ty}")
        return None

    def ifexp(self, n):
        self.pure_only += 1
        try:
            nar = self.narrow_test(n.test)
            if nar is not None:
                key, ov, is_none = nar
                none_e, some_e = (n.body, n.orelse) if is_none else (n.orelse, n.body)
                a = self.ex(none_e)
                var = self.tmp("v")
                self.narrow[key] = V(ov.ty[1], var)
                try:
                    b = self.ex(some_e)
                finally:
                    del self.narrow[key]
                ty = self.join_types(a, b)
                a, b = self.coerce(a, ty), self.coerce(b, ty)
                return V(ty, f"match {ov.code} with | none => {a.code} | some {var} => {b.code}")
            c = self.coerce(self.ex(n.test), BOOL)
            a, b = self.ex(n.body), self.ex(n.orelse)
            ty = self.join_types(a, b)
            a, b = self.coerce(a, ty), self.coerce(b, ty)
            return V(ty, f"if {c.code} then {a.code} else {b.code}")
        finally:
            self.pure_only -= 1

    def subscript(self, n):
        # d[m.__name__] on a static dict with string keys: a `match` on the enumeration
        if isinstance(n.value, ast.Name) and n.value.id in self.env and self.env[n.value.id].kind == "dict":
            d = self.env[n.value.id]
            k = self.lean(self.ex(n.slice))
            enum = self.sheet.ENUMS.get(k.ty)
            if enum is None:
                raise Refuse(f"dict lookup by a key of type {k.ty}")
            if set(d.items) != set(enum):
                raise Refuse(f"dict keys {sorted(d.items)} are not exactly {sorted(enum)}")
            vals = [self.lean(d.items[key]) for key in enum]
            if any(x.ty != vals[0].ty for x in vals):
                raise Refuse("dict values of different types")
            arms = " ".join(f"| {ctor} => {x.code}" for ctor, x in zip(enum.values(), vals))
            return V(vals[0].ty, f"match {k.code} with {arms}")
        if isinstance(n.value, ast.Attribute) and n.value.attr == "shape" and isinstance(n.slice, ast.Constant) and n.slice.value == 0 \
                and any(p.pattern == "shape0" for p in self.sheet.PRIMS):
            return self.match_prim("shape0", [(self.ex(n.value.value), n.value.value)], what=ast.unparse(n))
        v = self.ex(n.value)
        if self.ext:
            neg1 = lambda e: isinstance(e, ast.UnaryOp) and isinstance(e.op, ast.USub) and isinstance(e.operand, ast.Constant) and e.operand.value == 1 and not isinstance(e.operand.value, bool)
            if neg1(n.slice):            # xs[-1]
                return self.match_prim("sub_last", [(v, n.value)], what=ast.unparse(n)[:60])
            if isinstance(n.slice, ast.Slice) and n.slice.step is None and n.slice.lower is None and n.slice.upper is not None and neg1(n.slice.upper):   # xs[:-1]
                return self.match_prim("slice_droplast", [(v, n.value)], what=ast.unparse(n)[:60])
            if v.kind == "lean" and isinstance(v.ty, tuple) and v.ty[0] == "Tup" and isinstance(n.slice, ast.Constant) \
                    and isinstance(n.slice.value, int) and not isinstance(n.slice.value, bool) and 0 <= n.slice.value < len(v.ty) - 1:   # pair[0]
                i, k = n.slice.value, len(v.ty) - 1
                return V(v.ty[1 + i], proj(paren(v.code), i, k))
        if isinstance(n.slice, ast.Slice):
            s = n.slice
            if s.step is None and s.lower is not None and s.upper is None:
                return self.match_prim("slice_from", [(v, n.value), (self.ex(s.lower), s.lower)], what=ast.unparse(n)[:60])
            if s.step is not None or s.lower is not None or s.upper is None:
                raise Refuse("slice other than `[:e]` / `[e:]`")
            return self.match_prim("slice_to", [(v, n.value), (self.ex(s.upper), s.upper)], what=ast.unparse(n)[:60])
        return self.match_prim("sub", [(v, n.value), (self.ex(n.slice), n.slice)], what=ast.unparse(n)[:60])

    def comp(self, n):
        if len(n.generators) != 1 or n.generators[0].ifs or n.generators[0].is_async or not isinstance(n.generators[0].target, ast.Name):
            raise Refuse("comprehension other than `f(v) for v in xs`")
        g = n.generators[0]
        it = self.lean(self.ex(g.iter))
        if not (isinstance(it.ty, tuple) and it.ty[0] == "List"):
            raise Refuse(f"comprehension over {it.ty}")
        name = g.target.id
        ln = self.lname(name)
        saved = self.env.get(name)
        self.env[name] = V(it.ty[1], ln)
        self.pure_only += 1
        try:
            body = self.lean(self.ex(n.elt))
        finally:
            self.pure_only -= 1
            if saved is None:
                del self.env[name]
            else:
                self.env[name] = saved
        return V(L(body.ty), f"List.map (fun {ln} => {body.code}) {paren(it.code)}")

    # ------------------------------------------------------------------ calls
    def args_of(self, n):
        if any(k.arg is None for k in n.keywords):
            raise Refuse(f"`**` in the call `{ast.unparse(n)[:60]}`")
        out = []
        for a in n.args:
            if isinstance(a, ast.Starred):
                if isinstance(a.value, ast.GeneratorExp) or not self.ext:
                    out += self.star_args(a, n)
                else:
                    # `f(a, *pair)` (EXTENDED sheets): a starred value of tuple type is spread into its components
                    v = self.lean(self.ex(a.value))
                    if not (isinstance(v.ty, tuple) and v.ty[0] == "Tup"):
                        raise Refuse(f"starred argument `{ast.unparse(a)}` that is not a tuple")
                    k = len(v.ty) - 1
                    out += [(V(t, proj(paren(v.code), i, k)), None) for i, t in enumerate(v.ty[1:])]
            elif isinstance(a, ast.Name) and a.id not in self.env and a.id in self.sheet.BUILTINS and getattr(self.sheet, "BUILTIN_ARGS", False):
                # a builtin passed as an argument (`jnp.asarray(x, float)`): only a literal spec `("lit", "float")` can accept it
                self.gen.need(self.fn.file, a.id)
                out.append((V(kind="builtin"), a))
            elif getattr(self.sheet, "LAZY_LIT_ARGS", False):
                # an argument that only a `("lit", text)` spec can consume (`eqx.is_inexact_array`, a class name) has no value of its own
                try:
                    out.append((self.ex(a), a))
                except Refuse as ex:
                    out.append((V(kind="unevaluated", code=str(ex)), a))
            else:
                out.append((self.ex(a), a))
        return out

    def star_args(self, a, n):
        """`*(f(v) for v in (e1, …, ek))` — a generator over a tuple DISPLAY — is the k arguments `f(e1), …, f(ek)` in that order"""
        g = a.value
        if not (isinstance(g, ast.GeneratorExp) and len(g.generators) == 1 and not g.generators[0].ifs and not g.generators[0].is_async
                and isinstance(g.generators[0].target, ast.Name) and isinstance(g.generators[0].iter, ast.Tuple)
                and not any(isinstance(e, ast.Starred) for e in g.generators[0].iter.elts)):
            raise Refuse(f"`*` in the call `{ast.unparse(n)[:60]}` other than `*(f(v) for v in (e1, …, ek))`")
        name = g.generators[0].target.id
        saved = self.env.get(name)
        out = []
        try:
            for e in g.generators[0].iter.elts:
                self.env[name] = self.lean(self.ex(e))
                out.append((self.ex(g.elt), g.elt))
        finally:
            if saved is None:
                self.env.pop(name, None)
            else:
                self.env[name] = saved
        return out

    def call(self, n):
        text = ast.unparse(n)
        if text in self.sheet.TEXT_PRIMS:   # an exact source text the sheet gives a meaning to (free names checked)
            uses, ret, code = self.sheet.TEXT_PRIMS[text][:3]
            text_monadic = len(self.sheet.TEXT_PRIMS[text]) > 3 and self.sheet.TEXT_PRIMS[text][3]   # the text can raise
            for nm, ty in uses.items():
                if nm not in self.env or (ty is not None and self.lean(self.env[nm]).ty != ty):
                    raise Refuse(f"`{text}`: `{nm}` is not the {ty} the sheet expects")
            for x in ast.walk(n):
                if isinstance(x, ast.Name):
                    self.need_root(x.id)
            if text_monadic:
                return self.emit_bind(self.tmp(), ret, code)
            return V(ret, code)
        f = n.func
        ftext = ast.unparse(f)
        # ---- isinstance(e, Cls): a primitive whose second argument is the literal class name (its binding is checked)
        if ftext == "isinstance" and getattr(self.sheet, "ISINSTANCE_PRIM", False) and "isinstance" in self.sheet.BUILTINS and "isinstance" not in self.env:
            if len(n.args) != 2 or n.keywords or not isinstance(n.args[1], ast.Name) or n.args[1].id in self.env:
                raise Refuse(f"`{text[:60]}`: only `isinstance(<expr>, <class name>)` is in the subset")
            self.need_root("isinstance")
            self.need_root(n.args[1].id)
            return self.match_prim("call:isinstance", [(self.ex(n.args[0]), n.args[0]), (None, n.args[1])], what=text[:60])
        # ---- partial(self.<generated method>, kw=e, …): the method with those parameters fixed, as a function value
        if isinstance(f, ast.Name) and f.id in getattr(self.sheet, "PARTIAL_FUNCS", ()) and f.id not in self.env:
            self.need_root(f.id)
            return self.partial_call(n)
        # ---- vmap(f)(args) / eqx.filter_vmap(f)(args)
        if isinstance(f, ast.Call) and ast.unparse(f.func) in self.sheet.VMAP_FUNCS and len(f.args) == 1 and not f.keywords:
            self.need_root(ast.unparse(f.func))
            return self.vmap_call(self.ex(f.args[0]), n)
        # ---- a local `class X(NamedTuple)`: X(a, kw=e, …) builds the structure
        if isinstance(f, ast.Name) and f.id in self.env and self.env[f.id].kind == "ctor":
            return self.local_ctor(self.env[f.id].items, n)
        # ---- a nested def
        if isinstance(f, ast.Name) and f.id in self.env and self.env[f.id].kind == "fn":
            info = self.env[f.id].items
            if info["kind"] == "vmap":
                return self.vmap_call(self.env[f.id], n)
            if info["kind"] == "checker":
                args = self.args_of(n)
                if len(args) != 1 or n.keywords:
                    raise Refuse(f"call of the decorator `{f.id}`")
                s = {}
                a = self.lean(args[0][0])
                if not unify(info["param_ty"], a.ty, s):
                    raise Refuse(f"`{f.id}` applied to a {a.ty}")
                raises = " ".join([info["lean"]] + info["captured"])
                return V(subst(info["result"], s), info["result_lean"].format(paren(raises), paren(a.code)))
            return self.call_fn(info, self.args_of(n), n.keywords, what=text)
        # ---- callee is an expression that evaluates to a callable value
        if isinstance(f, ast.Call):
            callee = self.ex(f)
            return self.match_prim("apply", [(callee, f)] + self.args_of(n), n.keywords, what=text[:60])
        # ---- a.at[i, j, k].set(v)
        if self.ext and isinstance(f, ast.Attribute) and f.attr == "set" and isinstance(f.value, ast.Subscript) \
                and isinstance(f.value.value, ast.Attribute) and f.value.value.attr == "at" and not n.keywords and len(n.args) == 1:
            idx = f.value.slice
            elts = idx.elts if isinstance(idx, ast.Tuple) else [idx]
            args = [(self.ex(f.value.value.value), f.value.value.value)]
            for e in elts:
                args.append((None, e) if isinstance(e, ast.Slice) else (self.ex(e), e))
            args.append((self.ex(n.args[0]), n.args[0]))
            return self.match_prim("atset", args, what=text[:60])
        # ---- callee is a subscript (`pairs[-1][0](x)`)
        if self.ext and isinstance(f, ast.Subscript):
            callee = self.lean(self.ex(f))
            return self.match_prim("apply", [(callee, f)] + self.args_of(n), n.keywords, what=text[:60])
        # ---- method call on a value
        if isinstance(f, ast.Attribute) and (dotted_root(f) is None or dotted_root(f) in self.env):
            recv = self.ex(f.value)
            if self.ext and recv.kind == "lean":
                head = recv.ty[0] if isinstance(recv.ty, tuple) else recv.ty
                if (head, f.attr) in self.gen.fields:   # a FIELD that holds a callable (`self.cond_linear(c)`), narrowing respected
                    callee = self.lean(self.ex(f))
                    return self.match_prim("apply", [(callee, f)] + self.args_of(n), n.keywords, what=text[:60])
            if recv.kind == "lean":
                head = recv.ty[0] if isinstance(recv.ty, tuple) else recv.ty
                info = self.gen.methods.get((head, f.attr))
                if info is not None and not info["prop"]:
                    return self.call_gen(info, [recv] + [a for a, _ in self.args_of(n)], n.keywords, what=text)
                if (head, f.attr) in self.gen.refused:
                    raise Refuse(f"calls `{f.attr}`, which was refused")
            return self.match_prim(f"meth:{f.attr}", [(recv, f.value)] + self.args_of(n), n.keywords, what=text[:60])
        if not isinstance(f, (ast.Name, ast.Attribute)):
            raise Refuse(f"call of `{ftext[:60]}`")
        if isinstance(f, ast.Name) and f.id in self.env:
            callee = self.lean(self.env[f.id])
            return self.match_prim("apply", [(callee, f)] + self.args_of(n), n.keywords, what=text[:60])
        # ---- module-level function translated from the source
        if ftext in self.gen.funcs:
            info = self.gen.funcs[ftext]
            self.gen.need_fn(self.fn.file, ftext, info)
            return self.call_gen(info, [a for a, _ in self.args_of(n)], n.keywords, what=text)
        if ftext in self.gen.refused_funcs:
            raise Refuse(f"calls `{ftext}`, which was refused")
        # ---- library
        self.need_root(ftext)
        return self.match_prim(f"call:{ftext}", self.args_of(n), n.keywords, what=text[:60])

    def local_ctor(self, spec, n):
        text = ast.unparse(n)[:60]
        if any(k.arg is None for k in n.keywords) or any(isinstance(a, ast.Starred) for a in n.args) or len(n.args) > len(spec.fields):
            raise Refuse(f"`{text}`: arguments of the NamedTuple constructor")
        vals = {}
        for (fname, _), a in zip(spec.fields, n.args):
            vals[fname] = self.ex(a)
        for k in n.keywords:
            if k.arg in vals or k.arg not in dict(spec.fields):
                raise Refuse(f"`{text}`: keyword `{k.arg}`")
            vals[k.arg] = self.ex(k.value)
        parts = []
        for fname, fty in spec.fields:
            if fname in vals:
                code = self.coerce(self.adapt(vals[fname], fty), fty).code
            elif fname in spec.defaults:
                code = spec.defaults[fname][1]
            else:
                raise Refuse(f"`{text}`: field `{fname}` is not given and has no default")
            parts.append(f"{fname} := {code}")
        return V(spec.ty, "({ " + ", ".join(parts) + " } : " + self.ty(spec.ty) + ")")

    def do_local_class(self, st):
        """`class X(NamedTuple): f: T [= default] …` — checked field by field against the sheet, then callable as a constructor"""
        spec = self.fn.local_classes.get(st.name)
        if spec is None:
            raise Refuse(f"nested class `{st.name}` is not in the sheet")
        if [ast.unparse(b) for b in st.bases] != ["NamedTuple"] or st.keywords or st.decorator_list:
            raise Refuse(f"nested class `{st.name}` is not a plain `NamedTuple`")
        self.need_root("NamedTuple")
        have, defaults = [], {}
        for b in st.body:
            if isinstance(b, ast.Expr) and isinstance(b.value, ast.Constant) and isinstance(b.value.value, str):
                continue
            if not (isinstance(b, ast.AnnAssign) and isinstance(b.target, ast.Name) and b.simple):
                raise Refuse(f"nested class `{st.name}`: statement `{ast.unparse(b)[:50]}`")
            have.append(b.target.id)
            if b.value is not None:
                defaults[b.target.id] = ast.unparse(b.value)
        if have != [f for f, _ in spec.fields]:
            raise Refuse(f"nested class `{st.name}` declares the fields {have}, the sheet expects {[f for f, _ in spec.fields]}")
        want = {f: d[0] for f, d in spec.defaults.items()}
        if defaults != want:
            raise Refuse(f"nested class `{st.name}` has the defaults {defaults}, the sheet expects {want}")
        if st.name in self.env:
            raise Refuse(f"nested class `{st.name}` rebinds a name")
        self.env[st.name] = V(kind="ctor", items=spec)

    def partial_call(self, n):
        text = ast.unparse(n)[:60]
        if len(n.args) != 1 or any(k.arg is None for k in n.keywords) or not isinstance(n.args[0], ast.Attribute):
            raise Refuse(f"`{text}`: only `partial(<obj>.<generated method>, kw=e, …)` is in the subset")
        m = n.args[0]
        recv = self.lean(self.ex(m.value))
        head = recv.ty[0] if isinstance(recv.ty, tuple) else recv.ty
        info = self.gen.methods.get((head, m.attr))
        if info is None or info["prop"] or info["monadic"] or info["tyvars"]:
            raise Refuse(f"`{text}`: `{m.attr}` is not a generated pure method of {head}")
        params = info["params"][1:]                      # without the receiver
        names = [p for p, _ in params]
        fixed = {}
        for k in n.keywords:
            if k.arg not in names or k.arg in fixed or dict(params)[k.arg] == UNUSED:
                raise Refuse(f"`{text}`: keyword `{k.arg}`")
            fixed[k.arg] = paren(self.coerce(self.ex(k.value), dict(params)[k.arg]).code)
        free, codes = [], []
        for p, t in params:
            if t == UNUSED:
                raise Refuse(f"`{text}`: `{m.attr}` has an untyped parameter `{p}`")
            if p in fixed:
                codes.append(fixed[p])
            else:
                free.append((f"a{len(free)}", t))
                codes.append(free[-1][0])
        if not free:
            raise Refuse(f"`{text}`: every parameter is fixed")
        body = " ".join([info["lean"]] + (["W"] if info["usesW"] else []) + [paren(recv.code)] + codes)
        return V(F([t for _, t in free], info["ret"]), f"fun {' '.join(a for a, _ in free)} => {body}")

    def call_gen(self, info, args, kws, what=""):
        """call of a generated function / method (`args` starts with the receiver for methods)"""
        names = [p for p, t in info["params"]]
        bound = dict(zip(names, args))
        if len(args) > len(names):
            raise Refuse(f"`{what[:60]}`: too many arguments")
        for k in kws:
            if k.arg not in names or k.arg in bound:
                raise Refuse(f"`{what[:60]}`: keyword `{k.arg}`")
            if k.arg in info.get("literal_kw", ()) and not isinstance(k.value, ast.Constant):
                raise Refuse(f"`{what[:60]}`: keyword `{k.arg}` is not a literal")
            bound[k.arg] = self.ex(k.value)
        for p, txt in info.get("defaults", {}).items():
            if p not in bound:
                bound[p] = self.ex(ast.parse(txt, mode="eval").body)   # the default written in the signature (checked there)
        if info.get("inline"):
            return self.call_inline(info, bound, what)
        s, codes = {}, []
        for p, t in info["params"]:
            if t == UNUSED:
                continue
            if p not in bound:
                raise Refuse(f"`{what[:60]}` is called without `{p}` (defaults are not modelled)")
            r = self.match_arg(rename_vars(t, info["tyvars"]), bound[p], None, s)
            if isinstance(r, No):
                raise Refuse(f"`{what[:60]}`: argument `{p}`: {r}")
            codes.append(paren(r))
        ret = subst(rename_vars(info["ret"], info["tyvars"]), s)
        code = " ".join([info["lean"]] + (["W"] if info["usesW"] else []) + codes)
        if info["monadic"]:
            return self.emit_bind(self.tmp(), ret, code)
        return V(ret, code)

    def call_inline(self, info, bound, what=""):
        """a method whose body is `return <expr>`: the expression is translated in place, its parameters bound to the arguments"""
        for p, t in info["params"]:
            if p not in bound:
                raise Refuse(f"`{what[:60]}` is called without `{p}`")
        saved = (self.env, self.narrow)
        self.env = {("self" if p == "self" else p): v for p, v in bound.items()}
        self.narrow = {}
        try:
            return self.ex(info["ret_expr"])
        finally:
            self.env, self.narrow = saved

    def call_fn(self, info, args, kws, what=""):
        """direct call of a nested def"""
        if kws or len(args) != len(info["params"]):
            raise Refuse(f"`{what[:60]}`: arguments of the nested function")
        codes = []
        for (p, t), (v, _) in zip(info["params"], args):
            codes.append(paren(self.coerce(v, t).code))
        code = " ".join([info["lean"]] + info["captured"] + codes)
        if info["monadic"]:
            return self.emit_bind(self.tmp(), info["ret"], code)
        return V(info["ret"], code)

    def vmap_call(self, fv, n):
        """`vmap(f)(a, b, …)`: an argument of type `List T` where the parameter has type `T` is mapped over, an argument of a
        non-array type equal to the parameter's is passed to every call"""
        args = self.args_of(n)
        if n.keywords:
            raise Refuse("keyword arguments of a vmapped call")
        if fv.kind == "fn":
            info = fv.items
            ptys, ret, monadic = [t for _, t in info["params"]], info["ret"], info["monadic"]
            head = " ".join([info["lean"]] + info["captured"])
        else:
            fv = self.lean(fv)
            if not (isinstance(fv.ty, tuple) and fv.ty[0] == "Fn"):
                raise Refuse(f"vmap of a value of type {fv.ty}")
            ptys, ret, monadic, head = list(fv.ty[1]), fv.ty[2], fv.ty[3], paren(fv.code)
        if len(args) != len(ptys):
            raise Refuse("vmapped call: number of arguments")
        mapped, inner = [], []
        for i, (t, (v, _)) in enumerate(zip(ptys, args)):
            v = self.lean(v)
            if v.ty == L(t):
                nm = f"a{i}"
                mapped.append((nm, v.code))
                inner.append(nm)
            elif v.ty == t and t in self.sheet.NONARRAY:
                inner.append(paren(v.code))
            else:
                raise Refuse(f"vmapped call: argument {i} of type {v.ty} for a parameter of type {t}")
        if not mapped:
            raise Refuse("vmapped call without a mapped argument")
        body = " ".join([head] + inner)
        if len(mapped) == 1 and not monadic:
            if self.ext and isinstance(ret, tuple) and ret[0] == "Tup" and len(ret) == 3:   # a pair of arrays, not an array of pairs
                return V(T(L(ret[1]), L(ret[2])), f"List.unzip (List.map (fun {mapped[0][0]} => {body}) {paren(mapped[0][1])})")
            return V(L(ret), f"List.map (fun {mapped[0][0]} => {body}) {paren(mapped[0][1])}")
        prim = self.sheet.VMAP.get(len(mapped))
        if prim is None:
            raise Refuse(f"vmap over {len(mapped)} arguments")
        if not monadic:
            body = f"{self.M('pure')} ({body})"
        lam = f"(fun {' '.join(nm for nm, _ in mapped)} => {body})"
        return self.emit_bind(self.tmp(), L(ret), " ".join([prim, lam] + [paren(c) for _, c in mapped]))

    # ------------------------------------------------------------------ statements
    def bind_name(self, name, v):
        if name in self.frozen:
            raise Refuse(f"`{name}` is reassigned after a nested function captured it")
        if self.env.get(name) is not None and self.env[name].kind == "fn":
            raise Refuse(f"`{name}` rebinds a nested function")
        for key in [k for k in self.narrow if re.search(rf"\b{re.escape(name)}\b", k)]:
            if getattr(self.sheet, "NARROW_JOIN", False) and key == name:
                del self.narrow[key]      # the right-hand side is already evaluated; the refinement of the OLD value is dropped
                continue
            raise Refuse(f"`{name}` is reassigned while `{key}` is narrowed")
        if v.kind == "dict":
            self.env[name] = v
            return
        if v.kind == "empty" and self.ext and name in self.fn.locals:
            v = self.coerce(v, self.fn.locals[name])
        if v.kind == "tuple" and name in self.fn.locals:
            # a tuple display bound to a local whose type the sheet declares: int literals take the declared component type
            v = self.coerce(self.adapt(v, self.fn.locals[name]), self.fn.locals[name])
        if v.kind == "ctor":
            raise Refuse(f"`{name}` is bound to a class")
        if v.kind in ("empty", "none"):
            raise Refuse(f"`{name} = {'[]' if v.kind == 'empty' else 'None'}`: type unknown")
        v = self.lean(v)
        self.env[name] = self.emit_let(self.lname(name), v)
        self.unused.discard(name)

    def do_assign(self, st):
        if len(st.targets) != 1:
            raise Refuse("chained assignment")
        tgt = st.targets[0]
        if isinstance(tgt, ast.Name) and isinstance(st.value, ast.Dict):
            items = {}
            for k, val in zip(st.value.keys, st.value.values):
                if not (isinstance(k, ast.Constant) and isinstance(k.value, str)) or k.value in items:
                    raise Refuse("dict display with non-string / repeated keys")
                items[k.value] = self.lean(self.ex(val))
            return self.bind_name(tgt.id, V(kind="dict", items=items))
        if isinstance(tgt, ast.Name):
            return self.bind_name(tgt.id, self.ex(st.value))
        if isinstance(tgt, ast.Tuple) and any(isinstance(e, ast.Tuple) for e in tgt.elts) and getattr(self.sheet, "NESTED_TARGETS", False):
            # `(a, b), c = e`: the value is bound once, the names are its projections (no name may occur twice)
            v = self.lean(self.ex(st.value))
            t = v if re.fullmatch(r"t\d+", v.code) else self.emit_let(self.tmp(), v, ascribe=False)
            leaves = []

            def destruct(pat, ty, code):
                if isinstance(pat, ast.Name):
                    leaves.append((pat.id, V(ty, code)))
                elif isinstance(pat, ast.Tuple) and isinstance(ty, tuple) and ty[0] == "Tup" and len(ty) - 1 == len(pat.elts):
                    for i, (q, u) in enumerate(zip(pat.elts, ty[1:])):
                        destruct(q, u, proj(code, i, len(pat.elts)))
                else:
                    raise Refuse(f"target `{ast.unparse(pat)}` does not match a value of type {ty}")

            destruct(tgt, t.ty, t.code)
            names = [nm for nm, _ in leaves]
            if len(set(names)) != len(names):
                raise Refuse(f"a name occurs twice in the target `{ast.unparse(tgt)}`")
            for nm, x in leaves:
                self.bind_name(nm, x)
            return
        if self.ext and isinstance(tgt, ast.Tuple) and all(isinstance(e, ast.Name) for e in tgt.elts) and isinstance(st.value, ast.GeneratorExp):
            # a, b = (f(v) for v in pair): the generator over a tuple of known length, unpacked
            g = st.value
            if len(g.generators) != 1 or g.generators[0].ifs or g.generators[0].is_async or not isinstance(g.generators[0].target, ast.Name):
                raise Refuse("generator other than `f(v) for v in xs`")
            it = self.lean(self.ex(g.generators[0].iter))
            if not (isinstance(it.ty, tuple) and it.ty[0] == "Tup" and len(it.ty) - 1 == len(tgt.elts)):
                raise Refuse(f"unpacking a generator over {it.ty} into {len(tgt.elts)} names")
            nm = g.generators[0].target.id
            if nm in self.env:
                raise Refuse(f"generator variable `{nm}` shadows a variable")
            items = []
            self.pure_only += 1
            try:
                for i, t in enumerate(it.ty[1:]):
                    self.env[nm] = V(t, proj(paren(it.code), i, len(it.ty) - 1))
                    items.append(self.lean(self.ex(g.elt)))
            finally:
                self.pure_only -= 1
                del self.env[nm]
            for e, x in zip(tgt.elts, items):
                self.bind_name(e.id, x)
            return
        if isinstance(tgt, ast.Tuple) and any(isinstance(e, ast.Tuple) for e in tgt.elts):
            return self.destructure(tgt, self.ex(st.value), ast.unparse(st.value)[:50])
        if getattr(self.sheet, "STAR_DISCARD", False) and isinstance(tgt, ast.Tuple) and len(tgt.elts) >= 2 \
                and all(isinstance(e, ast.Name) and e.id != "_" for e in tgt.elts[:-1]) and isinstance(tgt.elts[-1], ast.Starred) \
                and isinstance(tgt.elts[-1].value, ast.Name) and tgt.elts[-1].value.id == "_":
            # `a, *_ = e` on a value of a product type with at least as many components: the leading names, the rest discarded
            v = self.lean(self.ex(st.value))
            k = len(tgt.elts) - 1
            if not (isinstance(v.ty, tuple) and v.ty[0] == "Tup" and len(v.ty) - 1 >= k):
                raise Refuse(f"unpacking `{ast.unparse(st.value)[:50]}` of type {v.ty} into `{ast.unparse(tgt)}`")
            t = v if re.fullmatch(r"t\d+", v.code) else self.emit_let(self.tmp(), v, ascribe=False)
            self.env.pop("_", None)
            for i, e in enumerate(tgt.elts[:-1]):
                self.bind_name(e.id, V(v.ty[1 + i], proj(t.code, i, len(v.ty) - 1)))
            return
        if isinstance(tgt, ast.Tuple) and all(isinstance(e, ast.Name) for e in tgt.elts):
            v = self.ex(st.value)
            if v.kind == "lean" and isinstance(v.ty, tuple) and v.ty[0] == "Tup":
                tys = v.ty[1:]
                t = v if re.fullmatch(r"t\d+", v.code) else self.emit_let(self.tmp(), v, ascribe=False)
                v = V(kind="tuple", items=[V(ty, proj(t.code, i, len(tys))) for i, ty in enumerate(tys)])
            if v.kind != "tuple" or len(v.items) != len(tgt.elts):
                raise Refuse(f"unpacking `{ast.unparse(st.value)[:50]}` into {len(tgt.elts)} names")
            # simultaneous assignment: the right-hand sides are already evaluated (their code mentions the OLD names), so bind
            # them to temporaries first whenever a target name occurs in a later right-hand side
            items = list(v.items)
            names = [e.id for e in tgt.elts]
            for i, x in enumerate(items):
                if x.kind == "lean" and any(re.search(rf"\b{re.escape(self.lname(nm))}\b", x.code) for nm in names[:i]):
                    items[i] = self.emit_let(self.tmp(), x, ascribe=False)
            for nm, x in zip(names, items):
                if self.ext and nm == "_":
                    continue
                self.bind_name(nm, x)
            return
        raise Refuse(f"assignment target `{ast.unparse(tgt)}`")

    def destructure(self, tgt, v, what):
        """nested tuple target `(a, _), _ = e` on a value of a (nested) product type; a target named `_` discards its component
        (and `_` becomes undefined: a later read of it is refused)"""
        v = self.lean(v)
        t = v if re.fullmatch(r"t\d+", v.code) else self.emit_let(self.tmp(), v, ascribe=False)
        names = [x.id for x in ast.walk(tgt) if isinstance(x, ast.Name) and x.id != "_"]
        if len(names) != len(set(names)):
            raise Refuse(f"a name is bound twice in the target `{ast.unparse(tgt)}`")

        def go(pat, ty, code):
            if isinstance(pat, ast.Name):
                if pat.id == "_":
                    self.env.pop("_", None)
                    return
                self.bind_name(pat.id, V(ty, code))
            elif isinstance(pat, ast.Tuple) and isinstance(ty, tuple) and ty[0] == "Tup" and len(ty) - 1 == len(pat.elts):
                for i, (p, pt) in enumerate(zip(pat.elts, ty[1:])):
                    go(p, pt, proj(code, i, len(pat.elts)))
            else:
                raise Refuse(f"unpacking `{what}` of type {ty} into `{ast.unparse(pat)}`")

        go(tgt, t.ty, t.code)

    def raise_term(self, st):
        e = st.exc
        cls = e.func if isinstance(e, ast.Call) else e
        if not isinstance(cls, ast.Name) or cls.id not in self.M("raise"):
            raise Refuse(f"`{ast.unparse(st)[:50]}`: exception class outside the sheet")
        return self.M("raise")[cls.id]

    def is_guard(self, st):
        return isinstance(st, ast.If) and len(st.body) == 1 and isinstance(st.body[0], ast.Raise) and not st.orelse

    def do_guard(self, st):
        c = self.coerce(self.ex(st.test), BOOL)
        self.blk.lines.append(("guard", c.code, self.raise_term(st.body[0])))

    def do_for_guard(self, st):
        """`for pat in it: if c: raise E` — raises iff `c` holds for some element"""
        if st.orelse or len(st.body) != 1 or not self.is_guard(st.body[0]):
            raise Refuse("`for` other than `for pat in it: if c: raise …`")
        it = self.lean(self.ex(st.iter))
        if not (isinstance(it.ty, tuple) and it.ty[0] == "List"):
            raise Refuse(f"iteration over {it.ty}")
        var = self.tmp("v")
        saved = dict(self.env)
        lets = []

        def destruct(pat, ty, code):
            if isinstance(pat, ast.Name):
                ln = self.lname(pat.id)
                lets.append(f"let {ln} := {code}")
                self.env[pat.id] = V(ty, ln)
            elif isinstance(pat, ast.Tuple) and isinstance(ty, tuple) and ty[0] == "Tup" and len(ty) - 1 == len(pat.elts):
                for i, (p, t) in enumerate(zip(pat.elts, ty[1:])):
                    destruct(p, t, proj(code, i, len(pat.elts)))
            else:
                raise Refuse(f"loop target `{ast.unparse(pat)}` does not match elements of type {ty}")

        destruct(st.target, it.ty[1], var)
        self.pure_only += 1
        try:
            c = self.coerce(self.ex(st.body[0].test), BOOL)
        finally:
            self.pure_only -= 1
            self.env = saved
        body = "; ".join(lets + [c.code])
        self.blk.lines.append(("guard", f"List.any {paren(it.code)} (fun {var} => {body})", self.raise_term(st.body[0].body[0])))

    def is_early_none_return(self, st):
        return (getattr(self.sheet, "EARLY_RETURN_NONE", False) and isinstance(st, ast.If) and not st.orelse and len(st.body) == 1
                and isinstance(st.body[0], ast.Return) and st.body[0].value is not None)

    def do_early_none_return(self, st):
        """`if <e> is None: return r` at the top level of a function (sheets with `EARLY_RETURN_NONE`): a `match` whose `none` arm
        is `r` and whose `some v` arm is the REST of the function, which sees `<e>` narrowed to `v`.  Any other test is refused."""
        nar = self.narrow_test(st.test)
        if nar is None or not nar[2]:
            raise Refuse(f"`{ast.unparse(st.test)[:60]}`: an early `return` under a test other than `<optional> is None`")
        if self.pure_only:
            raise Refuse("early return inside a lambda / conditional expression")
        key, ov, _ = nar
        self.pure_only += 1
        try:
            val = self.lean(self.ex(st.body[0].value), "return value")
        finally:
            self.pure_only -= 1
        var = self.tmp("v")
        self.blk.lines.append(("early_none", ov.code, var, val.code))
        self.early_types.append(val.ty)
        self.narrow[key] = V(ov.ty[1], var)

    def do_assert(self, st):
        """`assert <e> is not None`: `none`-arm raises AssertionError, the rest of the block sees `<e>` narrowed"""
        nar = self.narrow_test(st.test)
        if nar is None or nar[2] or st.msg is not None:
            raise Refuse(f"`{ast.unparse(st)[:60]}`: assert other than `assert <optional> is not None`")
        if self.pure_only:
            raise Refuse("assert inside a lambda / conditional expression")
        key, ov, _ = nar
        var = self.tmp("v")
        self.blk.lines.append(("assert_some", ov.code, var, self.M("raise")["AssertionError"]))
        self.narrow[key] = V(ov.ty[1], var)

    def assigned_names(self, stmts):
        out = []
        for st in stmts:
            for x in ast.walk(st):
                if isinstance(x, ast.Name) and isinstance(x.ctx, ast.Store) and x.id not in out:
                    out.append(x.id)
                if isinstance(x, ast.Expr) and isinstance(x.value, ast.Call) and isinstance(x.value.func, ast.Attribute) \
                        and x.value.func.attr in ("append", "extend") and isinstance(x.value.func.value, ast.Name) and x.value.func.value.id not in out:
                    out.append(x.value.func.value.id)
                if isinstance(x, (ast.FunctionDef, ast.Lambda, ast.While, ast.Break, ast.Continue, ast.Return, ast.Global, ast.Nonlocal, ast.Try, ast.With, ast.Raise, ast.Yield, ast.YieldFrom)) \
                        and not (isinstance(x, ast.Raise) and not getattr(self.sheet, "EARLY_RETURN", False)):
                    raise Refuse(f"{type(x).__name__} inside a loop body")
        return out

    def do_for_fold(self, st):
        """`for pat in it: body` — a fold over the variables the body assigns that exist before the loop (`List.foldl`, or the
        monad's `foldlM` when the body can raise); names first bound inside the body are local to one iteration"""
        if st.orelse:
            raise Refuse("`for … else`")
        it = self.lean(self.ex(st.iter))
        if not (isinstance(it.ty, tuple) and it.ty[0] == "List"):
            raise Refuse(f"iteration over {it.ty}")
        targets = [x.id for x in ast.walk(st.target) if isinstance(x, ast.Name)]
        for nm in targets:
            if nm != "_" and nm in self.env:
                raise Refuse(f"loop target `{nm}` shadows a variable")
        assigned = self.assigned_names(st.body)
        if any(nm in targets for nm in assigned):
            raise Refuse("the loop body assigns a loop target")
        if getattr(self.sheet, "LOOP_REBINDS_NESTED", False):
            # `for d in ds: g = wrap(g, d)` with `g` a nested def: from here on `g` is a function VALUE (its closure), carried by the fold
            for nm in assigned:
                if nm in self.env and self.env[nm].kind == "fn" and self.env[nm].items.get("kind") == "fn" and nm not in self.frozen:
                    self.env[nm] = self.emit_let(self.lname(nm), self.lean(self.env[nm]))
        carried = [nm for nm in assigned if nm in self.env and self.env[nm].kind == "lean"]
        for nm in assigned:
            if nm in self.env and self.env[nm].kind != "lean":
                raise Refuse(f"the loop body assigns `{nm}`, which is not a value")
        if not carried:
            raise Refuse("a loop that carries no variable")
        if any(re.search(rf"\b{re.escape(nm)}\b", k) for nm in carried for k in self.narrow):
            raise Refuse("a carried variable is narrowed")
        tys = [self.env[nm].ty for nm in carried]
        acc_ty = tys[0] if len(carried) == 1 else T(*tys)
        acc, var = self.tmp("acc"), self.tmp("v")
        saved = (self.blk, dict(self.env), dict(self.narrow))
        self.blk = Block()
        try:
            for i, nm in enumerate(carried):
                self.env[nm] = self.emit_let(self.lname(nm), V(tys[i], proj(acc, i, len(carried))))

            def destruct(pat, ty, code):
                if isinstance(pat, ast.Name):
                    if pat.id != "_":
                        self.env[pat.id] = self.emit_let(self.lname(pat.id), V(ty, code))
                elif isinstance(pat, ast.Tuple) and isinstance(ty, tuple) and ty[0] == "Tup" and len(ty) - 1 == len(pat.elts):
                    for i, (p, t) in enumerate(zip(pat.elts, ty[1:])):
                        destruct(p, t, proj(code, i, len(pat.elts)))
                else:
                    raise Refuse(f"loop target `{ast.unparse(pat)}` does not match elements of type {ty}")

            destruct(st.target, it.ty[1], var)
            self.block(st.body, in_branch=True)
            for i, nm in enumerate(carried):
                v = self.env.get(nm)
                if v is None or v.kind != "lean" or v.ty != tys[i]:
                    raise Refuse(f"the loop body changes the type of `{nm}` (or leaves it undefined on a path)")
            final = ", ".join(self.env[nm].code for nm in carried)
            final = final if len(carried) == 1 else f"({final})"
            monadic = self.blk.monadic
            body = self.compose(self.blk.lines, final, monadic, multi=False)
        finally:
            self.blk, self.env, self.narrow = saved
        fn = f"(fun ({acc} : {self.ty(acc_ty)}) ({var} : {self.ty(it.ty[1])}) => {body})"
        init = ", ".join(self.env[nm].code for nm in carried)
        init = init if len(carried) == 1 else f"({init})"
        t = self.tmp()
        if monadic:
            self.emit_bind(t, acc_ty, f"{self.M('foldlM')} {fn} {paren(init)} {paren(it.code)}")
        else:
            self.emit_let(t, V(acc_ty, f"List.foldl {fn} {paren(init)} {paren(it.code)}"), ascribe=False)
        for i, nm in enumerate(carried):
            self.bind_name(nm, V(tys[i], proj(t, i, len(carried))))

    def do_if_and(self, st, conj):
        """`if c1 and <e> is not None and …: body` (no else): nested `if` / `match`, the body sees every `<e>` narrowed; the
        variables the body assigns keep their old value on every other path"""
        if st.orelse:
            raise Refuse("`if a and b: … else: …` with a narrowing conjunct")
        heads, nars = [], []
        for t in conj:
            nar = self.narrow_test(t)
            if nar is not None:
                key, ov, is_none = nar
                if is_none:
                    raise Refuse("`… and <e> is None`")
                var = self.tmp("v")
                heads.append(("match", ov.code, var))
                nars.append((key, V(ov.ty[1], var)))
            else:
                heads.append(("if", self.coerce(self.ex(t), BOOL).code))
        saved = (self.blk, dict(self.env), dict(self.narrow))
        self.blk = Block()
        for key, v in nars:
            self.narrow[key] = v
        try:
            self.block(st.body, in_branch=True)
            blk, env = self.blk, self.env
        finally:
            self.blk, self.env, self.narrow = saved
        names = [nm for nm in env if env[nm] is not self.env.get(nm)]
        for nm in names:
            a, b = env[nm], self.env.get(nm)
            if b is None:
                continue   # bound in the body only: undefined afterwards
            if a.kind != "lean" or b.kind != "lean" or a.ty != b.ty:
                raise Refuse(f"`{nm}` changes type in the branch")
        names = [nm for nm in names if self.env.get(nm) is not None]
        if not names:
            if blk.monadic:
                raise Refuse("a branch that can raise but assigns nothing")
            return
        monadic = blk.monadic
        tys = [env[nm].ty for nm in names]
        tup = lambda e: (", ".join(e[nm].code for nm in names)) if len(names) == 1 else "(" + ", ".join(e[nm].code for nm in names) + ")"
        then = "(" + self.compose(blk.lines, tup(env), monadic, multi=False) + ")"
        other = (f"{self.M('pure')} {paren(tup(self.env))}" if monadic else tup(self.env))
        expr = then
        for h in reversed(heads):
            if h[0] == "if":
                expr = f"(if {h[1]} then {expr} else {other})"
            else:
                expr = f"(match {h[1]} with | some {h[2]} => {expr} | none => {other})"
        ty = tys[0] if len(names) == 1 else T(*tys)
        t = self.tmp()
        if monadic:
            self.emit_bind(t, ty, expr)
        else:
            self.emit_let(t, V(ty, expr), ascribe=False)
        for i, nm in enumerate(names):
            self.bind_name(nm, V(tys[i], proj(t, i, len(names))))

    def branch(self, body, narrow=None):
        saved = (self.blk, dict(self.env), dict(self.narrow))
        self.blk = Block()
        if narrow:
            self.narrow[narrow[0]] = narrow[1]
        try:
            self.block(body, in_branch=True)
            return self.blk, self.env, dict(self.narrow)
        finally:
            self.blk, self.env, self.narrow = saved

    def isinstance_test(self, t):
        """`isinstance(<name>, <Class>)` on a value of a SUM type the sheet declares (`ISINSTANCE[type] = (class name, (constructor of
        the instances, their type), (constructor of everything else, its type))`) -> (name, V, yes, no); None for any other test"""
        table = getattr(self.sheet, "ISINSTANCE", None)
        if not (table and isinstance(t, ast.Call) and isinstance(t.func, ast.Name) and t.func.id == "isinstance"):
            return None
        if "isinstance" in self.env or "isinstance" not in self.sheet.BUILTINS:
            raise Refuse("`isinstance` is not the builtin here")
        if len(t.args) != 2 or t.keywords or not isinstance(t.args[0], ast.Name) or not isinstance(t.args[1], ast.Name):
            raise Refuse(f"`{ast.unparse(t)[:60]}`: isinstance other than `isinstance(<name>, <Class>)`")
        v = self.lean(self.ex(t.args[0]))
        spec = table.get(v.ty)
        if spec is None or spec[0] != t.args[1].id or t.args[1].id in self.env or t.args[1].id not in self.sheet.IMPORTS:
            raise Refuse(f"`{ast.unparse(t)[:60]}`: no declared sum type of {v.ty} is split by this class")
        self.gen.need(self.fn.file, "isinstance")
        self.gen.need(self.fn.file, t.args[1].id)
        return t.args[0].id, v, spec[1], spec[2]

    def do_if(self, st):
        if self.is_guard(st):
            return self.do_guard(st)
        if self.ext and isinstance(st.test, ast.BoolOp) and isinstance(st.test.op, ast.And):
            conj = list(st.test.values)
            is_nar = lambda t: isinstance(t, ast.Compare) and len(t.ops) == 1 and isinstance(t.ops[0], (ast.Is, ast.IsNot))
            if any(is_nar(t) for t in conj):
                return self.do_if_and(st, conj)
        nar = self.narrow_test(st.test)
        inst = self.isinstance_test(st.test) if nar is None else None
        if inst is not None:
            # `if isinstance(x, C): A else: B` on a declared sum: a `match`, `x` refined in both branches
            key, xv, (yes_ctor, yes_ty), (no_ctor, no_ty) = inst
            v1, v2 = self.tmp("v"), self.tmp("v")
            r1 = self.branch(st.body, narrow=(key, V(yes_ty, v1)))
            r2 = self.branch(st.orelse, narrow=(key, V(no_ty, v2)))
            heads = (f"match {xv.code} with | {yes_ctor} {v1} => ", f" | {no_ctor} {v2} => ")
        elif nar is not None:
            key, ov, is_none = nar
            var = self.tmp("v")
            some_nar = (key, V(ov.ty[1], var))
            none_body, some_body = (st.body, st.orelse) if is_none else (st.orelse, st.body)
            r1 = self.branch(none_body)
            r2 = self.branch(some_body, narrow=some_nar)
            heads = (f"match {ov.code} with | none => ", f" | some {var} => ")
        else:
            c = self.coerce(self.ex(st.test), BOOL)
            r1 = self.branch(st.body)
            r2 = self.branch(st.orelse)
            heads = (f"if {c.code} then ", " else ")
        before = self.env
        names = []
        for nm in list(dict.fromkeys(list(r1[1]) + list(r2[1]))):
            a, b = r1[1].get(nm), r2[1].get(nm)
            if a is before.get(nm) and b is before.get(nm):
                continue   # untouched by both branches
            if getattr(self.sheet, "NARROW_JOIN", False):
                # a branch that leaves `nm` alone but has REFINED it (`x is not None`, `isinstance(x, C)`) contributes the refined value
                # (the same object, at the type the test established) to the join with a branch that assigns it
                for r in (r1, r2):
                    if r[1].get(nm) is before.get(nm) and nm in r[2] and before.get(nm) is not None:
                        r[1][nm] = r[2][nm]
                a, b = r1[1].get(nm), r2[1].get(nm)
            if a is None or b is None or a.kind != "lean" or b.kind != "lean" or a.ty != b.ty:
                if nm in self.env:
                    del self.env[nm]   # assigned on one path only / with different types: undefined afterwards
                continue
            names.append(nm)
        if not names:
            if r1[0].monadic or r2[0].monadic:
                raise Refuse("a branch that can raise but assigns nothing")
            return
        monadic = r1[0].monadic or r2[0].monadic
        tys = [r1[1][nm].ty for nm in names]

        def value(res):
            vals = ", ".join(res[1][nm].code for nm in names)
            vals = vals if len(names) == 1 else f"({vals})"
            return "(" + self.compose(res[0].lines, vals, monadic, final_pure=True, multi=False) + ")"

        expr = heads[0] + value(r1) + heads[1] + value(r2)
        ty = tys[0] if len(names) == 1 else T(*tys)
        t = self.tmp()
        if monadic:
            self.emit_bind(t, ty, expr)
        else:
            self.emit_let(t, V(ty, expr), ascribe=False)
        for i, nm in enumerate(names):
            self.bind_name(nm, V(tys[i], proj(t, i, len(names))))

    def compose(self, lines, final, monadic, final_pure=True, multi=True, indent="  "):
        """the text of a block: its lines followed by the final value (`pure`d when the block is monadic)"""
        if monadic and final_pure and lines and lines[-1][0] == "bind" and lines[-1][1] == final:
            final, lines, final_pure = lines[-1][2], lines[:-1], False   # `bind e fun t => pure t` is `e`
        out = []
        for l in lines:
            if l[0] == "let":
                out.append((f"let {l[1]} : {self.ty(l[2])} := {l[3]}" if l[2] is not None else f"let {l[1]} := {l[3]}") + ";")
            elif l[0] == "bind":
                out.append(f"{self.M('bind')} ({l[2]}) fun {l[1]} =>")
            elif l[0] == "assert_some":
                out.append(f"match {l[1]} with | none => {l[3]} | some {l[2]} =>")
            elif l[0] == "early_none":
                arm = f"{self.M('pure')} {paren(l[3])}" if monadic else l[3]
                if multi:   # the rest of the function is the right-hand side of `some`: it must not start left of the `|`
                    out.append(f"match {l[1]} with\n{indent}| none => {arm}\n{indent}| some {l[2]} =>")
                else:
                    out.append(f"match {l[1]} with | none => {arm} | some {l[2]} =>")
            else:
                out.append(f"if {l[1]} then {l[2]} else")
        out.append(f"{self.M('pure')} {paren(final)}" if monadic and final_pure else final)
        return ("\n" + indent).join(out) if multi else " ".join(out)

    @property
    def early(self):
        return bool(getattr(self.sheet, "EARLY_RETURN", False))

    def upcast(self, v, ty):
        """`v` injected into the declared result type `ty` (identity, or an entry of the sheet's UPCAST)"""
        v = self.lean(v, "return value")
        if v.ty == ty:
            return v
        up = getattr(self.sheet, "UPCAST", {})
        if v.ty in up and up[v.ty][0] == ty:
            return V(ty, up[v.ty][1].format(paren(v.code)))
        raise Refuse(f"a value of type {v.ty} is returned where {ty} is declared")

    def do_early_return(self, st, rest):
        """`if c: <stmts>; return e` + the rest of the function body (which ends in `return` / `raise` on every path).  `c` may be
        `isinstance(<name>, cls)` with a narrowing entry in the sheet: a `match` that rebinds the name in the branch."""
        if self.pure_only:
            raise Refuse("early return inside a lambda / conditional expression")
        t = st.test
        nar = None
        tab = getattr(self.sheet, "ISINSTANCE_NARROW", {})
        if isinstance(t, ast.Call) and ast.unparse(t.func) == "isinstance" and "isinstance" not in self.env and len(t.args) == 2 and not t.keywords \
                and isinstance(t.args[0], ast.Name) and isinstance(t.args[1], ast.Name) and t.args[0].id in self.env and t.args[1].id not in self.env:
            old = self.env[t.args[0].id]
            if old.kind == "lean" and (old.ty, t.args[1].id) in tab:
                self.need_root("isinstance")
                self.need_root(t.args[1].id)
                nar = (t.args[0].id, old) + tuple(tab[(old.ty, t.args[1].id)])

        def sub(stmts, extra=None):
            saved = (self.blk, dict(self.env), dict(self.narrow), self.ret)
            self.blk, self.ret = Block(), None
            if extra:
                self.env.update(extra)
            try:
                self.block(stmts, top=True)
                if self.ret is None:
                    raise Refuse("a path through the function does not end in `return` / `raise`")
                return self.blk, self.ret
            finally:
                self.blk, self.env, self.narrow, self.ret = saved

        if nar is not None:
            name, old, newty, ctor = nar
            var = self.tmp("v")
            r1 = sub(st.body, {name: V(newty, var)})
            heads = (f"match {old.code} with | {ctor} {var} => ", " | _ => ")
        else:
            c = self.coerce(self.ex(t), BOOL)
            r1 = sub(st.body)
            heads = (f"if {c.code} then ", " else ")
        if not rest:
            raise Refuse("nothing follows the early return (the function would return None)")
        r2 = sub(rest)
        want = self.fn.ret

        def fix(v):
            if v.kind == "raise":
                return v
            return self.upcast(v, want) if want is not None else self.lean(v, "return value")

        a, b = fix(r1[1]), fix(r2[1])
        tys = {x.ty for x in (a, b) if x.kind != "raise"}
        if len(tys) != 1:
            raise Refuse(f"the paths of the function return values of different types ({[x.ty for x in (a, b) if x.kind != 'raise']})")
        ty = tys.pop()

        def value(blk, v):
            if v.kind == "raise":
                return "(" + self.compose(blk.lines, v.code, True, final_pure=False, multi=False) + ")"
            return "(" + self.compose(blk.lines, v.code, True, final_pure=True, multi=False) + ")"

        expr = heads[0] + value(r1[0], a) + heads[1] + value(r2[0], b)
        self.ret = self.emit_bind(self.tmp(), ty, expr)

    def do_while(self, st):
        """`while c: body` — iteration of the body on the variables it assigns that exist before the loop (the sheet monad's `while`:
        see the world); the test is a pure expression of those variables; no `break` / `continue` / `return` / `raise` inside"""
        if st.orelse:
            raise Refuse("`while … else`")
        if self.pure_only:
            raise Refuse("a loop inside a lambda / conditional expression")
        assigned = self.assigned_names(st.body)
        for nm in assigned:
            if nm in self.env and self.env[nm].kind != "lean":
                raise Refuse(f"the loop body assigns `{nm}`, which is not a value")
        carried = [nm for nm in assigned if nm in self.env and self.env[nm].kind == "lean"]
        if not carried:
            raise Refuse("a `while` loop that carries no variable")
        if any(re.search(rf"\b{re.escape(nm)}\b", k) for nm in carried for k in self.narrow):
            raise Refuse("a carried variable is narrowed")
        tys = [self.env[nm].ty for nm in carried]
        acc_ty = tys[0] if len(carried) == 1 else T(*tys)
        acc = self.tmp("acc")
        init = ", ".join(self.env[nm].code for nm in carried)
        init = init if len(carried) == 1 else f"({init})"
        saved = (self.blk, dict(self.env), dict(self.narrow))
        try:
            self.blk = Block()
            for i, nm in enumerate(carried):
                self.env[nm] = V(tys[i], proj(acc, i, len(carried)))
            self.pure_only += 1
            try:
                c = self.coerce(self.ex(st.test), BOOL)
            finally:
                self.pure_only -= 1
            if self.blk.lines:
                raise Refuse("the test of a `while` loop is not a pure expression")
            self.blk = Block()
            for i, nm in enumerate(carried):
                self.env[nm] = self.emit_let(self.lname(nm), V(tys[i], proj(acc, i, len(carried))))
            self.block(st.body, in_branch=True)
            for i, nm in enumerate(carried):
                v = self.env.get(nm)
                if v is None or v.kind != "lean" or v.ty != tys[i]:
                    raise Refuse(f"the loop body changes the type of `{nm}` (or leaves it undefined on a path)")
            final = ", ".join(self.env[nm].code for nm in carried)
            final = final if len(carried) == 1 else f"({final})"
            body = self.compose(self.blk.lines, final, True, multi=False)
        finally:
            self.blk, self.env, self.narrow = saved
        aty = self.ty(acc_ty)
        t = self.tmp()
        self.emit_bind(t, acc_ty, f"{self.M('while')} (fun ({acc} : {aty}) => {c.code}) (fun ({acc} : {aty}) => {body}) {paren(init)}")
        for i, nm in enumerate(carried):
            self.bind_name(nm, V(tys[i], proj(t, i, len(carried))))

    def do_def(self, st):
        spec = self.nested.get(st.name)
        if spec is None:
            raise Refuse(f"nested function `{st.name}` is not in the sheet")
        decs = tuple(ast.unparse(d) for d in st.decorator_list)
        if decs != tuple(spec.decorators):
            raise Refuse(f"decorators {decs} of `{st.name}` differ from the sheet's {tuple(spec.decorators)}")
        for d in st.decorator_list:
            for x in ast.walk(d):
                if isinstance(x, ast.Name):
                    self.need_root(x.id)
        a = st.args
        names = [x.arg for x in a.posonlyargs + a.args] + (["*" + a.vararg.arg] if a.vararg else []) + [x.arg for x in a.kwonlyargs] + (["**" + a.kwarg.arg] if a.kwarg else [])
        if names != [p for p, _ in spec.params] or a.defaults or a.kw_defaults:
            raise Refuse(f"signature of `{st.name}` ({', '.join(names)}) differs from the sheet")
        lean = f"{self.lean_name}_{re.sub(r'_+(.)', lambda m: m.group(1).upper(), st.name.strip('_'))}"
        params = [(p.lstrip("*"), t) for p, t in spec.params]
        if spec.kind == "checker":
            # def d(method): <def wrapper>; return wrapper
            body = [b for b in st.body if not (isinstance(b, ast.Expr) and isinstance(b.value, ast.Constant))]
            if not (len(body) == 2 and isinstance(body[0], ast.FunctionDef) and isinstance(body[1], ast.Return)
                    and isinstance(body[1].value, ast.Name) and body[1].value.id == body[0].name):
                raise Refuse(f"`{st.name}` is not `def {st.name}(f): <def wrapper>; return wrapper`")
            sub = Tr(self.gen, self.fn, body[0], lean, [], env=self.env, nested=self.nested)
            sub.env[params[0][0]] = V(params[0][1], self.lname(params[0][0]))
            info = sub.translate_wrapper(body[0], [params[0][0]])
            info.update(kind="checker", param_ty=params[0][1], result=spec.result, result_lean=spec.result_lean)
            self.frozen |= set(info["captured_py"])
            self.env[st.name] = V(kind="fn", items=info)
            return
        if spec.kind not in ("fn", "vmap"):
            raise Refuse(f"nested function `{st.name}` of kind {spec.kind} outside its decorator")
        sub = Tr(self.gen, self.fn, st, lean, params, env={k: v for k, v in self.env.items() if v.kind in ("lean", "fn", "dict", "ctor")}, nested=self.nested)
        sub.narrow = {k: v for k, v in self.narrow.items() if not any(re.search(rf"\b{re.escape(p)}\b", k) for p, _ in params)}
        info = sub.translate(nested_kind=spec.kind)
        self.frozen |= set(info["captured_py"])
        self.env[st.name] = V(kind="fn", items=info)

    def block(self, stmts, in_branch=False, top=False):
        for i, st in enumerate(stmts):
            last = i == len(stmts) - 1
            if isinstance(st, ast.Expr) and isinstance(st.value, ast.Constant) and isinstance(st.value.value, str):
                continue
            if isinstance(st, ast.Assign) and self.ctor_ftypes is not None and len(st.targets) == 1 and isinstance(st.targets[0], ast.Attribute) \
                    and isinstance(st.targets[0].value, ast.Name) and st.targets[0].value.id == "self":
                # `self.<f> = e` anywhere in a `Ctor` body (sheets with `CTOR_STATEMENTS`): at most once on every path; joined like a variable
                f = st.targets[0].attr
                if f not in self.ctor_ftypes or ("self." + f) in self.env:
                    raise Refuse(f"`__init__` assigns `self.{f}` (twice on a path, or not an attribute of the sheet)")
                self.bind_name("self." + f, self.coerce(self.ex(st.value), self.ctor_ftypes[f]))
            elif isinstance(st, ast.Assign):
                self.do_assign(st)
            elif top and not self.early and self.is_early_none_return(st):
                self.do_early_none_return(st)
            elif self.early and top and isinstance(st, ast.If) and not st.orelse and st.body and isinstance(st.body[-1], ast.Return):
                # `if c: …; return e` followed by the rest of the function: the function's value is a conditional
                self.do_early_return(st, stmts[i + 1:])
                return
            elif self.early and top and last and isinstance(st, ast.Raise):
                self.ret = V(kind="raise", code=self.raise_term(st))
            elif self.early and top and last and isinstance(st, ast.Expr) and isinstance(st.value, ast.YieldFrom) and self.whole_body \
                    and len([b for b in stmts if not (isinstance(b, ast.Expr) and isinstance(b.value, ast.Constant))]) == 1:
                # a generator whose whole body is `yield from xs`: iterating it yields the elements of the list `xs` in order
                v = self.lean(self.ex(st.value.value), "iterable")
                if not (isinstance(v.ty, tuple) and v.ty[0] == "List"):
                    raise Refuse(f"`yield from` a value of type {v.ty}")
                self.ret = v
            elif self.early and isinstance(st, ast.While):
                self.do_while(st)
            elif self.ext and isinstance(st, ast.Expr) and isinstance(st.value, ast.Call) and isinstance(st.value.func, ast.Attribute) \
                    and st.value.func.attr == "extend" and isinstance(st.value.func.value, ast.Name):
                # xs.extend(ys) on a declared LOCAL list: xs = xs ++ ys
                nm = st.value.func.value.id
                cur = self.env.get(nm)
                if cur is None or cur.kind != "lean" or not (isinstance(cur.ty, tuple) and cur.ty[0] == "List") or nm not in self.fn.locals:
                    raise Refuse(f"`{nm}.extend` on something that is not a declared local list")
                if len(st.value.args) != 1 or st.value.keywords:
                    raise Refuse("arguments of `.extend`")
                e = self.coerce(self.ex(st.value.args[0]), cur.ty)
                self.bind_name(nm, V(cur.ty, f"{paren(cur.code)} ++ {paren(e.code)}"))
            elif isinstance(st, ast.If):
                self.do_if(st)
            elif isinstance(st, ast.For):
                if self.ext and not (len(st.body) == 1 and self.is_guard(st.body[0])):
                    self.do_for_fold(st)
                else:
                    self.do_for_guard(st)
            elif self.ext and isinstance(st, ast.AugAssign) and isinstance(st.target, ast.Name):
                # x += e  is  x = x + e  (for the immutable array / number types of the sheets)
                old = self.ex(st.target)
                new = self.match_prim(f"op:{type(st.op).__name__}", [(old, st.target), (self.ex(st.value), st.value)], what=ast.unparse(st)[:60])
                self.bind_name(st.target.id, new)
            elif self.ext and isinstance(st, ast.Expr) and isinstance(st.value, ast.Call) and isinstance(st.value.func, ast.Attribute) \
                    and st.value.func.attr == "append" and isinstance(st.value.func.value, ast.Name):
                # xs.append(e) on a LOCAL list (never aliased: locals are only bound to fresh displays): xs = xs ++ [e]
                nm = st.value.func.value.id
                cur = self.env.get(nm)
                if cur is None or cur.kind != "lean" or not (isinstance(cur.ty, tuple) and cur.ty[0] == "List") or nm not in self.fn.locals:
                    raise Refuse(f"`{nm}.append` on something that is not a declared local list")
                if len(st.value.args) != 1 or st.value.keywords:
                    raise Refuse("arguments of `.append`")
                e = self.coerce(self.ex(st.value.args[0]), cur.ty[1])
                self.bind_name(nm, V(cur.ty, f"{paren(cur.code)} ++ [{e.code}]"))
            elif self.ext and isinstance(st, ast.Assert):
                self.do_assert(st)
            elif isinstance(st, ast.FunctionDef):
                if in_branch:
                    raise Refuse("nested function inside a branch")
                self.do_def(st)
            elif isinstance(st, ast.ClassDef) and self.fn.local_classes:
                if in_branch:
                    raise Refuse("nested class inside a branch")
                self.do_local_class(st)
            elif isinstance(st, ast.Return):
                if not (top and last) or st.value is None:
                    raise Refuse("`return` that is not the last statement of the function")
                self.ret = self.lean(self.ex(st.value), "return value")
            elif isinstance(st, ast.Pass):
                pass
            else:
                raise Refuse(f"statement {type(st).__name__}: `{ast.unparse(st)[:60]}`")

    # ------------------------------------------------------------------ the function
    def check_signature(self, node, is_method):
        a = node.args
        names = [x.arg for x in a.posonlyargs + a.args] + (["*" + a.vararg.arg] if a.vararg else []) + [x.arg for x in a.kwonlyargs] + (["**" + a.kwarg.arg] if a.kwarg else [])
        want = (["self"] if is_method else []) + [p for p, _ in self.params]
        if names != want:
            raise Refuse(f"signature ({', '.join(names)}) differs from the sheet ({', '.join(want)})")

    def captured(self, text):
        """outer variables whose Lean name occurs in the generated text (in the order of the outer environment)"""
        caps = []
        text = re.sub(r"(?<=[{,] )\w+ := ", "", text)   # field labels of a structure literal `{ f := e, … }` are not variable occurrences
        local = {p for p, _ in self.params} | {x.id for x in ast.walk(self.node) if isinstance(x, ast.Name) and isinstance(x.ctx, ast.Store)}
        for nm in self.env_at_entry:
            v = self.env_at_entry.get(nm)
            if nm in local or nm not in self.outer_names:
                continue
            if v is not None and v.kind == "lean" and re.fullmatch(r"\w+", v.code) and re.search(rf"(?<![\w.]){re.escape(v.code)}(?!\w)", text):
                caps.append((nm, v))
        return caps

    def enter(self):
        self.env_at_entry = dict(self.env)
        for p, t in self.params:
            if t == UNUSED:
                self.env[p] = V(kind="none")
                self.unused.add(p)
            else:
                self.env[p] = V(t, self.lname(p))

    def translate(self, nested_kind=None, is_method=False):
        """emit the definition; returns the call information"""
        fn, gen = self.fn, self.gen
        if nested_kind is None:
            self.check_signature(self.node, is_method)
            decs = [ast.unparse(d) for d in self.node.decorator_list]
            for d in decs:
                if d not in self.sheet.DECORATORS and not (d == "property" and fn.prop):
                    raise Refuse(f"decorator `{d}`")
            if fn.prop != ("property" in decs):
                raise Refuse("`@property` differs from the sheet")
            a = self.node.args
            pos = a.posonlyargs + a.args
            have = {x.arg: ast.unparse(d) for x, d in zip(pos[len(pos) - len(a.defaults):], a.defaults)}
            have.update({x.arg: ast.unparse(d) for x, d in zip(a.kwonlyargs, a.kw_defaults) if d is not None})
            for p, txt in fn.defaults.items():
                if have.get(p) != txt:
                    raise Refuse(f"the default of `{p}` is `{have.get(p)}`, the sheet expects `{txt}`")
            for p in fn.literal_kw:
                if p not in [x.arg for x in a.kwonlyargs]:
                    raise Refuse(f"`{p}` is not a keyword-only parameter")
            for d in self.node.decorator_list:
                for x in ast.walk(d):
                    if isinstance(x, ast.Name):
                        self.need_root(x.id)
        self.enter()
        if is_method and self.self_ty is not None:
            self.env["self"] = V(self.self_ty, "self_")
        self.whole_body = True
        self.block(self.node.body, top=True)
        if self.ret is None and nested_kind is None and fn.returns_none:
            self.ret = V("Unit", "()")   # a procedure: falls off the end, returning None
        if self.ret is None:
            raise Refuse("function does not end in `return`")
        for t in self.early_types:
            if t != self.ret.ty:
                raise Refuse(f"an early `return` of type {t} in a function returning {self.ret.ty}")
        if self.ret.kind == "raise":
            raise Refuse("function ends in an unconditional `raise`")
        if fn.ret is not None and nested_kind is None:
            self.ret = self.upcast(self.ret, fn.ret)
        monadic = self.blk.monadic
        body = self.compose(self.blk.lines, self.ret.code, monadic)
        caps = self.captured(body) if nested_kind is not None else []
        ptxt = [f"({v.code} : {self.ty(v.ty)})" for _, v in caps]
        if is_method and self.self_ty is not None:
            ptxt.append(f"(self_ : {self.ty(self.self_ty)})")
        ptxt += [f"({self.lname(p)} : {self.ty(t)})" for p, t in self.params if t != UNUSED]
        binders = self.sheet.BINDERS if fn.binders is None else fn.binders
        usesW = "(W :" in binders
        rty = self.ty(self.ret.ty)
        if monadic:
            rty = self.M("type").format(paren(rty))
        what = f"`{fn.file}` :: `{fn.qual}`" + (f" :: nested `{self.node.name}`" if nested_kind is not None else "")
        doc = f"/-- {what}{(' — ' + fn.doc) if fn.doc and nested_kind is None else ''} -/"
        gen.emit("\n".join([doc, f"def {self.lean_name} {binders}{' ' if binders else ''}{' '.join(ptxt)} : {rty} :=", "  " + body, ""]))
        params = ([("self", self.self_ty)] if is_method and self.self_ty is not None else []) + list(self.params)
        return dict(lean=self.lean_name, params=params, ret=self.ret.ty, monadic=monadic, usesW=usesW, tyvars=fn.tyvars, prop=fn.prop,
                    kind=nested_kind or "top", captured=(["W"] if usesW and nested_kind is not None else []) + [v.code for _, v in caps],
                    captured_py=[nm for nm, _ in caps], file=fn.file, defaults=dict(fn.defaults) if nested_kind is None else {},
                    literal_kw=tuple(fn.literal_kw) if nested_kind is None else ())

    def translate_wrapper(self, node, extra_params):
        """the `*args` wrapper of a decorator: only `<name>_raises : Bool` is emitted (its last statement hands on to the method)"""
        spec = self.nested.get(node.name)
        if spec is None or spec.kind != "wrapper":
            raise Refuse(f"wrapper `{node.name}` is not in the sheet")
        decs = tuple(ast.unparse(d) for d in node.decorator_list)
        if decs != tuple(spec.decorators):
            raise Refuse(f"decorators {decs} of `{node.name}` differ from the sheet's")
        for d in node.decorator_list:
            for x in ast.walk(d):
                if isinstance(x, ast.Name):
                    self.need_root(x.id)
        self.params = [(p.lstrip("*"), t) for p, t in spec.params]
        self.node = node
        a = node.args
        names = [x.arg for x in a.args] + (["*" + a.vararg.arg] if a.vararg else []) + (["**" + a.kwarg.arg] if a.kwarg else [])
        if names != [p for p, _ in spec.params]:
            raise Refuse(f"signature of `{node.name}` differs from the sheet")
        self.outer_names = set(self.env)
        self.enter()
        body = [b for b in node.body if not (isinstance(b, ast.Expr) and isinstance(b.value, ast.Constant))]
        if not body or ast.unparse(body[-1]) != spec.passthrough:
            raise Refuse(f"`{node.name}` does not end in `{spec.passthrough}`")
        self.block(body[:-1])
        if any(l[0] == "bind" for l in self.blk.lines):
            raise Refuse(f"`{node.name}` calls a primitive that can raise")
        out = ["let raises := false;"]
        for l in self.blk.lines:
            out.append(f"let {l[1]} := {l[3]};" if l[0] == "let" else f"let raises := raises || {paren(l[1])};")
        text = "\n  ".join(out + ["raises"])
        caps = self.captured(text)
        ptxt = [f"({v.code} : {self.ty(v.ty)})" for _, v in caps] + [f"({self.lname(p)} : {self.ty(t)})" for p, t in self.params if t != UNUSED]
        name = f"{self.lean_name}_{re.sub(r'_+(.)', lambda m: m.group(1).upper(), node.name.strip('_'))}_raises"
        self.gen.emit("\n".join([f"/-- `{self.fn.file}` :: `{self.fn.qual}` :: the conditions under which the wrapper `{node.name}` raises (it then returns `{spec.passthrough[7:]}`) -/",
                                 f"def {name} {' '.join(ptxt)} : Bool :=", "  " + text, ""]))
        return dict(lean=name, captured=[v.code for _, v in caps], captured_py=[nm for nm, _ in caps])


class Gen:
    def __init__(self, repo, sheet):
        self.repo, self.sheet = repo, sheet
        self.out = []
        self.funcs = {}          # module-level python name -> call info
        self.methods = {}        # (type head of self, method name) -> call info
        self.fields = {}         # (type head, field) -> type
        self.refused, self.refused_funcs = set(), set()
        self.trees, self.needed, self.needed_fns = {}, {}, {}
        self.tmpc = 0

    def emit(self, text):
        self.out.append(text)

    def lean_ty(self, t):
        names = self.sheet.TYPE_NAMES
        if isinstance(t, str):
            return names.get(t, t)
        if t[0] == "Tup":
            return " × ".join(paren(self.lean_ty(x)) for x in t[1:])
        if t[0] == "Fn":
            ret = self.lean_ty(t[2])
            if t[3]:
                ret = self.sheet.MONAD["type"].format(paren(ret))
            return " → ".join([paren(self.lean_ty(x)) for x in t[1]] + [ret])
        return " ".join([names.get(t[0], t[0])] + [paren(self.lean_ty(x)) for x in t[1:]])

    def need(self, file, alias):
        self.needed.setdefault(file, set()).add(alias)

    def need_fn(self, file, name, info):
        self.needed_fns.setdefault(file, {})[name] = info

    def tree(self, rel):
        if rel not in self.trees:
            self.trees[rel] = ast.parse(open(os.path.join(self.repo, rel)).read())
        return self.trees[rel]

    def bindings(self, rel):
        b, count = {}, {}

        def put(nm, what):
            b[nm] = what
            count[nm] = count.get(nm, 0) + 1

        for node in self.tree(rel).body:
            if isinstance(node, ast.Import):
                for a in node.names:
                    put(a.asname or a.name.split(".")[0], a.name if a.asname else a.name.split(".")[0])
            elif isinstance(node, ast.ImportFrom):
                for a in node.names:
                    put(a.asname or a.name, f"{node.module}.{a.name}")
            elif isinstance(node, (ast.FunctionDef, ast.ClassDef)):
                put(node.name, f"<def {node.name}>")
            elif isinstance(node, (ast.Assign, ast.AugAssign, ast.AnnAssign)):
                for x in ast.walk(node):
                    if isinstance(x, ast.Name) and isinstance(x.ctx, ast.Store):
                        put(x.id, "<assigned>")
        return b, count

    def check_bindings(self, file):
        b, count = self.bindings(file)
        for alias in sorted(self.needed.get(file, ())):
            if alias in self.sheet.BUILTINS:
                if alias in b:
                    raise Refuse(f"the builtin `{alias}` is rebound at module level in {file} (`{b[alias]}`)")
                continue
            want = self.sheet.IMPORTS[alias]
            if isinstance(want, dict):      # per file
                want = want.get(file)
            if b.get(alias) != want or count.get(alias, 0) != 1:
                raise Refuse(f"`{alias}` is bound to `{b.get(alias)}` in {file} ({count.get(alias, 0)} bindings), the sheet expects `{want}`")
        for name, info in self.needed_fns.get(file, {}).items():
            want = f"<def {name}>" if info["file"] == file else info["file"][:-3].replace("/", ".") + "." + name
            want = info.get("bound_as", {}).get(file, want)
            if b.get(name) != want or count.get(name, 0) != 1:
                raise Refuse(f"`{name}` is bound to `{b.get(name)}` in {file}, expected `{want}`")

    def find(self, file, qual):
        parts = qual.split(".")
        body = self.tree(file).body
        node = None
        for i, part in enumerate(parts):
            kind = ast.ClassDef if i < len(parts) - 1 else ast.FunctionDef
            found = [x for x in body if isinstance(x, kind) and x.name == part]
            if len(found) != 1:
                raise Refuse(f"`{qual}`: `{part}` is defined {len(found)} times")
            node = found[0]
            body = node.body
        return node

    def do_class(self, c):
        """structure of the fields + `init` from the `self.f = e` statements of `__init__`"""
        node = self.find(c.file, c.name + ".__init__")
        fn = Fn(c.file, c.name + ".__init__", c.lean + ".init", c.init_params, binders=c.binders)
        tr = Tr(self, fn, node, c.lean + ".init", c.init_params)
        tr.check_signature(node, True)
        if node.decorator_list:
            raise Refuse("decorated `__init__`")
        tr.enter()
        vals = {}
        for st in node.body:
            if isinstance(st, ast.Expr) and isinstance(st.value, ast.Constant):
                continue
            if not (isinstance(st, ast.Assign) and len(st.targets) == 1 and isinstance(st.targets[0], ast.Attribute)
                    and isinstance(st.targets[0].value, ast.Name) and st.targets[0].value.id == "self"):
                raise Refuse(f"`__init__` statement `{ast.unparse(st)[:60]}` is not `self.<field> = <expr>`")
            f = st.targets[0].attr
            if f in vals or f not in dict(c.fields):
                raise Refuse(f"`__init__` assigns `self.{f}` (twice, or not a field of the sheet)")
            vals[f] = tr.coerce(tr.ex(st.value), dict(c.fields)[f])
        if tr.blk.lines or set(vals) != {f for f, _ in c.fields}:
            raise Refuse("`__init__` does not assign exactly the fields of the sheet")
        ptxt = " ".join(f"({tr.lname(p)} : {self.lean_ty(t)})" for p, t in c.init_params)
        self.emit("\n".join([f"/-- `{c.file}` :: class `{c.name}`: the attributes `__init__` sets -/",
                             f"structure {c.lean} {c.tyargs} where"] + [f"  {f} : {self.lean_ty(t)}" for f, t in c.fields] + [""]))
        self.emit("\n".join([f"/-- `{c.file}` :: `{c.name}.__init__` -/",
                             f"def {c.lean}.init {c.binders}{' ' if c.binders else ''}{ptxt} : {self.lean_ty(c.ty)} :=",
                             "  ⟨" + ", ".join(vals[f].code for f, _ in c.fields) + "⟩", ""]))
        self.check_bindings(c.file)
        for f, t in c.fields:
            self.fields[(c.ty[0] if isinstance(c.ty, tuple) else c.ty, f)] = t

    def do_ctor(self, c):
        """`__init__` statement by statement; the result is the world's structure `c.ty` built with named fields"""
        node = self.find(c.file, c.name + ".__init__")
        fn = Fn(c.file, c.name + ".__init__", c.lean, c.init_params, binders=c.binders, tyvars=c.tyvars, locals=dict(c.locals))
        tr = Tr(self, fn, node, c.lean, c.init_params)
        tr.check_signature(node, True)
        if node.decorator_list:
            raise Refuse("decorated `__init__`")
        tr.enter()
        tr.ctor_fields = {}
        ftypes = dict(c.fields)
        statements = bool(getattr(self.sheet, "CTOR_STATEMENTS", False))
        if statements:
            # every statement form of the (EXTENDED) subset; `self.<f> = e` may sit in branches (see `Tr.block`); `self.<f>` is never read
            for x in ast.walk(node):
                if isinstance(x, (ast.Return, ast.Try, ast.While, ast.With, ast.Global, ast.Nonlocal, ast.Delete)):
                    raise Refuse(f"`{type(x).__name__.lower()}` in `__init__`")
            tr.ctor_ftypes = ftypes
            tr.block(node.body)
            missing = sorted(f for f in ftypes if ("self." + f) not in tr.env)
            if missing:
                raise Refuse(f"`__init__` does not assign the attributes {missing} on every path")
            tr.ctor_fields = {f: tr.env["self." + f] for f in ftypes}

        def set_field(f, v):
            if f in tr.ctor_fields or f not in ftypes:
                raise Refuse(f"`__init__` assigns `self.{f}` (twice, or not an attribute of the sheet)")
            v = tr.coerce(v, ftypes[f])
            tr.ctor_fields[f] = tr.emit_let(f"self_{f}", v)

        def is_self_attr(t):
            return isinstance(t, ast.Attribute) and isinstance(t.value, ast.Name) and t.value.id == "self"

        for st in ([] if statements else node.body):
            if isinstance(st, ast.Expr) and isinstance(st.value, ast.Constant) and isinstance(st.value.value, str):
                continue
            if not (isinstance(st, ast.Assign) and len(st.targets) == 1):
                raise Refuse(f"`__init__` statement {type(st).__name__}: `{ast.unparse(st)[:60]}`")
            tgt = st.targets[0]
            if is_self_attr(tgt):
                set_field(tgt.attr, tr.ex(st.value))
            elif isinstance(tgt, ast.Tuple) and any(is_self_attr(e) for e in tgt.elts):
                if not all(is_self_attr(e) or isinstance(e, ast.Name) for e in tgt.elts):
                    raise Refuse(f"assignment target `{ast.unparse(tgt)}`")
                v = tr.lean(tr.ex(st.value))
                if not (isinstance(v.ty, tuple) and v.ty[0] == "Tup" and len(v.ty) - 1 == len(tgt.elts)):
                    raise Refuse(f"unpacking `{ast.unparse(st.value)[:50]}` into {len(tgt.elts)} targets")
                t = v if re.fullmatch(r"t\d+", v.code) else tr.emit_let(tr.tmp(), v, ascribe=False)
                for i, e in enumerate(tgt.elts):
                    x = V(v.ty[1 + i], proj(t.code, i, len(tgt.elts)))
                    if is_self_attr(e):
                        set_field(e.attr, x)
                    else:
                        tr.bind_name(e.id, x)
            else:
                tr.do_assign(st)
        if set(tr.ctor_fields) != set(ftypes):
            raise Refuse(f"`__init__` does not assign exactly the attributes of the sheet (missing {sorted(set(ftypes) - set(tr.ctor_fields))})")
        monadic = tr.blk.monadic
        final = "{ " + ", ".join(f"{f} := {tr.ctor_fields[f].code}" for f, _ in c.fields) + " }"
        body = tr.compose(tr.blk.lines, final, monadic)
        binders = self.sheet.BINDERS if c.binders is None else c.binders
        ptxt = " ".join(f"({tr.lname(p)} : {self.lean_ty(t)})" for p, t in c.init_params if t != UNUSED)
        rty = self.lean_ty(c.ty)
        if monadic:
            rty = self.sheet.MONAD["type"].format(paren(rty))
        self.emit("\n".join([f"/-- `{c.file}` :: `{c.name}.__init__` -/",
                             f"def {c.lean} {binders}{' ' if binders else ''}{ptxt} : {rty} :=", "  " + body, ""]))
        self.check_bindings(c.file)
        self.funcs[c.call_as or c.name] = dict(lean=c.lean, params=list(c.init_params), ret=c.ty, monadic=monadic, usesW="(W :" in binders,
                                               tyvars=c.tyvars, prop=False, kind="top", captured=[], captured_py=[], file=c.file,
                                               bound_as=dict(c.bound_as))

    def do_init_part(self, c):
        node = self.find(c.file, c.cls + ".__init__")
        fn = Fn(c.file, c.cls + ".__init__", c.lean, c.params, binders=c.binders)
        tr = Tr(self, fn, node, c.lean, c.params)
        tr.check_signature(node, True)
        if node.decorator_list:
            raise Refuse("decorated `__init__`")
        tr.enter()
        body = [b for b in node.body if not (isinstance(b, ast.Expr) and isinstance(b.value, ast.Constant))]
        k = 0
        while k < len(body) and tr.is_guard(body[k]):
            tr.do_guard(body[k])
            k += 1
        rest = body[k:]
        for st in rest:
            for x in ast.walk(st):
                if isinstance(x, (ast.Raise, ast.Return, ast.Try, ast.While, ast.With)):
                    raise Refuse(f"`{type(x).__name__.lower()}` after the leading guards of `__init__`: `{ast.unparse(x)[:50]}`")
        stored = {x.id for st in body for x in ast.walk(st) if isinstance(x, ast.Name) and isinstance(x.ctx, ast.Store)}
        pnames = {p for p, t in c.params if t != UNUSED}

        def assigns(st, f):
            return any(isinstance(x, ast.Attribute) and isinstance(x.ctx, ast.Store) and x.attr == f and isinstance(x.value, ast.Name)
                       and x.value.id == "self" for x in ast.walk(st))

        vals = []
        for f, t in c.fields:
            idx = [i for i, st in enumerate(rest) if assigns(st, f)]
            if not idx:
                raise Refuse(f"`__init__` never assigns `self.{f}`")
            st = rest[idx[-1]]
            if not (isinstance(st, ast.Assign) and len(st.targets) == 1 and isinstance(st.targets[0], ast.Attribute)
                    and isinstance(st.targets[0].value, ast.Name) and st.targets[0].value.id == "self" and st.targets[0].attr == f):
                raise Refuse(f"the last assignment of `self.{f}` is not a top-level `self.{f} = <expr>`: `{ast.unparse(st)[:60]}`")
            for x in ast.walk(st.value):
                if isinstance(x, ast.Name) and (x.id not in pnames or x.id in stored):
                    raise Refuse(f"`self.{f} = {ast.unparse(st.value)[:50]}` mentions `{x.id}`, which is not a never-reassigned parameter")
            tr.pure_only += 1
            try:
                vals.append(tr.coerce(tr.ex(st.value), t))
            finally:
                tr.pure_only -= 1
        if any(l[0] != "guard" for l in tr.blk.lines):
            raise Refuse("a guard of `__init__` calls a primitive that can raise")
        final = vals[0].code if len(vals) == 1 else "(" + ", ".join(v.code for v in vals) + ")"
        monadic = bool(tr.blk.lines)
        text = tr.compose(tr.blk.lines, final, monadic)
        rty = " × ".join(paren(self.lean_ty(t)) for _, t in c.fields)
        if monadic:
            rty = self.sheet.MONAD["type"].format(paren(rty))
        ptxt = " ".join(f"({tr.lname(p)} : {self.lean_ty(t)})" for p, t in c.params if t != UNUSED)
        what = ", ".join(f"`self.{f}`" for f, _ in c.fields)
        self.emit("\n".join([f"/-- `{c.file}` :: `{c.cls}.__init__`: the leading guards and the values finally assigned to {what}{(' — ' + c.doc) if c.doc else ''} -/",
                             f"def {c.lean} {c.binders}{' ' if c.binders else ''}{ptxt} : {rty} :=", "  " + text, ""]))
        self.check_bindings(c.file)

    def do_frag(self, c):
        node = self.find(c.file, c.qual)
        a = node.args
        have = [x.arg for x in a.posonlyargs + a.args + a.kwonlyargs]
        for p, _ in c.params:
            if p not in have:
                raise Refuse(f"`{c.qual}` has no parameter `{p}`")
        hits = [x for x in ast.walk(node) if isinstance(x, ast.Assign) and len(x.targets) == 1 and ast.unparse(x.targets[0]) == c.targets]
        if len(hits) != 1 or hits[0] not in node.body:
            raise Refuse(f"`{c.qual}` has {len(hits)} statements `{c.targets} = …` (exactly one, at the top level of the body, is expected)")
        st = hits[0]
        pnames = {p for p, _ in c.params}
        for prev in node.body[:node.body.index(st)]:
            for x in ast.walk(prev):
                if isinstance(x, ast.Name) and isinstance(x.ctx, (ast.Store, ast.Del)) and x.id in pnames:
                    raise Refuse(f"`{x.id}` is assigned before `{c.targets} = …`")
                if isinstance(x, (ast.FunctionDef, ast.Lambda)) and any(y.arg in pnames for y in ast.walk(x.args) if isinstance(y, ast.arg)):
                    raise Refuse(f"a parameter name is shadowed before `{c.targets} = …`")
        fn = Fn(c.file, c.qual, c.lean, c.params, binders=c.binders)
        tr = Tr(self, fn, node, c.lean, c.params)
        tr.enter()
        tr.pure_only += 1
        val = tr.lean(tr.ex(st.value))
        if tr.blk.lines:
            raise Refuse("the expression needs statements")
        binders = self.sheet.BINDERS if c.binders is None else c.binders
        ptxt = " ".join(f"({tr.lname(p)} : {self.lean_ty(t)})" for p, t in c.params)
        self.emit("\n".join([f"/-- `{c.file}` :: `{c.qual}` :: the statement `{c.targets} = …` (l. {st.lineno}){(' — ' + c.doc) if c.doc else ''} -/",
                             f"def {c.lean} {binders}{' ' if binders else ''}{ptxt} : {self.lean_ty(val.ty)} :=", "  " + val.code, ""]))
        self.check_bindings(c.file)

    def run(self):
        sheet, errors = self.sheet, []
        for (head, f), t in getattr(sheet, "FIELDS", {}).items():
            self.fields[(head, f)] = t
        for cname, want in getattr(sheet, "CLASS_FIELDS", {}).items():
            # the annotated fields of a class whose structure is hand-declared in the world must be exactly the sheet's
            cfile = sheet.FILE
            if isinstance(want, tuple):
                cfile, want = want
            try:
                found = [x for x in self.tree(cfile).body if isinstance(x, ast.ClassDef) and x.name == cname]
                if len(found) != 1:
                    raise Refuse(f"class `{cname}` is defined {len(found)} times")
                have = [st.target.id for st in found[0].body if isinstance(st, ast.AnnAssign) and isinstance(st.target, ast.Name)]
                if have != list(want):
                    raise Refuse(f"class `{cname}` declares the fields {have}, the sheet expects {list(want)}")
            except (Refuse, OSError, SyntaxError) as ex:
                errors.append({"target": cname, "error": f"{cfile}::{cname}: {ex}"})
                self.emit(f"-- UNTRANSLATABLE class {cname}: {ex}\n")
        for item in sheet.ITEMS:
            mark = len(self.out)
            name = item.lean
            saved = (dict(self.needed), dict(self.needed_fns))
            try:
                if isinstance(item, Cls):
                    self.do_class(item)
                    continue
                if isinstance(item, Ctor):
                    self.do_ctor(item)
                    continue
                if isinstance(item, InitPart):
                    self.do_init_part(item)
                    continue
                if isinstance(item, Frag):
                    self.do_frag(item)
                    continue
                node = self.find(item.file, item.qual)
                is_method = "." in item.qual
                if item.inline:
                    tr = Tr(self, item, node, item.lean, item.params, self_ty=item.self_ty)
                    tr.check_signature(node, is_method)
                    body = [b for b in node.body if not (isinstance(b, ast.Expr) and isinstance(b.value, ast.Constant))]
                    if node.decorator_list or not is_method or item.self_ty is None or not (len(body) == 1 and isinstance(body[0], ast.Return) and body[0].value is not None):
                        raise Refuse("an inlined method must be undecorated and consist of a single `return <expr>`")
                    head = item.self_ty[0] if isinstance(item.self_ty, tuple) else item.self_ty
                    self.methods[(head, item.qual.split(".")[-1])] = dict(
                        inline=True, prop=False, ret_expr=body[0].value, params=[("self", item.self_ty)] + list(item.params), file=item.file)
                    self.emit(f"-- `{item.file}` :: `{item.qual}` is expanded in place at every call site (`return {ast.unparse(body[0].value)}`)\n")
                    continue
                tr = Tr(self, item, node, item.lean, item.params, self_ty=item.self_ty)
                info = tr.translate(is_method=is_method)
                self.check_bindings(item.file)
                if is_method:
                    if item.self_ty is not None:
                        head = item.self_ty[0] if isinstance(item.self_ty, tuple) else item.self_ty
                        self.methods[(head, item.qual.split(".")[-1])] = info
                else:
                    self.funcs[item.qual] = info
            except (Refuse, OSError, SyntaxError) as ex:
                del self.out[mark:]
                self.needed, self.needed_fns = saved
                errors.append({"target": name, "error": f"{item.file}::{getattr(item, 'qual', getattr(item, 'name', getattr(item, 'cls', '?')))}: {ex}"})
                self.emit(f"-- UNTRANSLATABLE {name}: {ex}\n")
                if isinstance(item, Fn):
                    if "." in item.qual and item.self_ty is not None:
                        self.refused.add((item.self_ty[0] if isinstance(item.self_ty, tuple) else item.self_ty, item.qual.split(".")[-1]))
                    else:
                        self.refused_funcs.add(item.qual)
                if isinstance(item, Ctor):
                    self.refused_funcs.add(item.call_as or item.name)
        text = "\n".join(list(sheet.HEADER) + self.out + [f"end {sheet.NAMESPACE}", ""])
        return {"text": text, "errors": errors, "targets": [i.lean for i in sheet.ITEMS]}


SHEETS = ["targets_losses", "targets_dist_public", "targets_jaxtr", "targets_families", "targets_bnafnet", "targets_net", "targets_unwrap", "targets_bisectgen", "targets_merge", "targets_bnafinit", "targets_planarinit"]


def generate(repo: str) -> dict:
    import importlib
    out = {}
    for m in SHEETS:
        mod = importlib.import_module(m)
        importlib.reload(mod)
        out[mod.NAME] = Gen(repo, mod).run()
    return out


if __name__ == "__main__":
    import sys
    sys.path.insert(0, os.path.dirname(os.path.abspath(__file__)))
    import py2meth   # the sheets import the vocabulary from the module `py2meth`, not from `__main__`
    res = py2meth.generate(sys.argv[1] if len(sys.argv) > 1 else "/repo")
    for name, r in res.items():
        if len(sys.argv) <= 2 or sys.argv[2] == name:
            sys.stdout.write(r["text"])
        for e in r["errors"]:
            sys.stderr.write(f"REFUSED {e['target']}: {e['error']}\n")
