"""py2flows: the constructs of `triangular_spline_flow.make_layer` / `get_splines` (flowjax/flows.py) — a subclass of
`py2lean.Tr` selected by the typing sheet `targets_flows.py` through `TR = py2flows.FTr`.  Every other target of the sheet
translates exactly as before (the subclass only ADDS forms; each is matched literally and anything else falls through to
`py2lean.Tr`, which refuses it).

Accepted beyond `py2lean.Tr`
  a, b, c = jr.split(key, 3)              `Flows.jrSplit3 key` (the literal must be 3 = the number of targets; the typing
                                          sheet gives the three component types, so a key used at the wrong place is a
                                          Lean type error)
  M.at[jnp.diag_indices(n)].set(<int literal>)   on a matrix: `Flows.atSet M (Flows.diagIndices n) (<literal> : α)`
                                          (the literal is passed on as written; numerals outside {0,1,2,4} are refused)
  eqx.tree_at(lambda t: t.<f>, <record>, replace_fn=<F>)   `{ <record> with <f> := (<F'> <record>.<f>) }` — `<F>` must be a
                                          callee the sheet maps (`calls`), `<f>` a modelled field whose type `<F'>` preserves;
                                          without `replace_fn` (or with `replace`) the form is not this one and is refused
  partial(<Class>, k1=e1, …)              a thunk `fun (_ : Unit) => <ctor> e1 …`: `<Class>` and the EXACT keyword list come
                                          from the sheet (`calls["partial(<Class>)"]`), values are translated as written
  eqx.filter_vmap(<thunk>, axis_size=n)() `Flows.filterVmapN <thunk> n`: n independently constructed objects
  Vmap(<objs>, in_axes=eqx.if_array(0))   `Flows.vmapOf <objs>` (exactly this `in_axes`)
  Linear(a, b, use_bias=False, key=k)     `Flows.linearNoBias a b k` (`use_bias` must be the literal False)
  [e1, …] with a stored TriangularAffine  an element of the record type `Flows.TriAffP` inside a list of bijections is the
                                          bijection of its unwrapped object: `Flows.triAffBij e`
  if <opt> is not None:                   `<opt> : Option Nat`, body = assignments of fresh names followed by exactly one
      v = e; L.append(v)                  `L.append(<expr>)` on a bound list `L` whose element type the argument has:
                                          `let L := match <opt> with | some <opt> => (let v := e; L ++ [v]) | none => L`
"""
from __future__ import annotations

import ast

import py2lean
from py2lean import Untranslatable, B, T, R

NAT = "Nat"
OPTNAT = "Option Nat"
MAT = "List (List α)"
TRIAFFP = R("Flows.TriAffP")


def THUNK(t):
    return ("THUNK", t)


class FTr(py2lean.Tr):
    BIJ = "Flows.VBij α"

    # ------------------------------------------------------------------ expressions
    def _e(self, n, gen_ok=False):
        if isinstance(n, ast.List) and n.elts:
            parts = [self.es(x) for x in n.elts]
            if any(t == TRIAFFP for _, t in parts) and all(t in (TRIAFFP, self.BIJ) for _, t in parts):
                return "[" + ", ".join(f"(Flows.triAffBij {c})" if t == TRIAFFP else c for c, t in parts) + "]", ("L", self.BIJ)
        return super()._e(n, gen_ok)

    def call(self, n: ast.Call):
        fn = ast.unparse(n.func)
        f = n.func
        # eqx.filter_vmap(<thunk>, axis_size=n)()
        if isinstance(f, ast.Call) and ast.unparse(f.func) == "eqx.filter_vmap" and fn not in self.tgt.calls:
            if n.args or n.keywords:
                raise Untranslatable("eqx.filter_vmap(fn, axis_size=n)(...): the vmapped function is called with arguments")
            if len(f.args) != 1 or [k.arg for k in f.keywords] != ["axis_size"]:
                raise Untranslatable("eqx.filter_vmap form: expected (fn, axis_size=n)")
            c, t = self._e(f.args[0])
            if not (isinstance(t, tuple) and t[0] == "THUNK"):
                raise Untranslatable(f"eqx.filter_vmap of {t}: not a `partial(<Class>, …)` thunk")
            k, tk = self._e(f.keywords[0].value)
            if tk != NAT:
                raise Untranslatable(f"eqx.filter_vmap axis_size of type {tk}")
            return f"(Flows.filterVmapN {c} {k})", ("L", t[1])
        if fn in ("partial", "functools.partial"):
            if len(n.args) != 1 or not isinstance(n.args[0], ast.Name):
                raise Untranslatable("partial form: expected partial(<Class>, k=…)")
            key = f"partial({n.args[0].id})"
            if key not in self.tgt.calls:
                raise Untranslatable(f"{key}: not declared in the typing sheet")
            lname, rt, kworder = self.tgt.calls[key]
            if [k.arg for k in n.keywords] != list(kworder):
                raise Untranslatable(f"{key}: keywords {[k.arg for k in n.keywords]} (expected {list(kworder)})")
            argc = [self.es(k.value)[0] for k in n.keywords]
            return "(fun (_ : Unit) => " + " ".join([lname] + argc) + ")", THUNK(rt)
        if fn == "jr.split" and len(n.args) == 2 and "jr.split/3" in self.tgt.calls:
            if n.keywords or not (isinstance(n.args[1], ast.Constant) and n.args[1].value == 3 and not isinstance(n.args[1].value, bool)):
                raise Untranslatable("jr.split(key, k): only the literal 3 is translated")
            lname, rt = self.tgt.calls["jr.split/3"]
            return f"({lname} {self.es(n.args[0])[0]})", rt
        if (isinstance(f, ast.Attribute) and f.attr == "set" and isinstance(f.value, ast.Subscript)
                and isinstance(f.value.value, ast.Attribute) and f.value.value.attr == "at"
                and isinstance(f.value.slice, ast.Call) and ast.unparse(f.value.slice.func) == "jnp.diag_indices"):
            base, bt = self._e(f.value.value.value)
            ix = f.value.slice
            if bt != MAT or len(ix.args) != 1 or ix.keywords or len(n.args) != 1 or n.keywords:
                raise Untranslatable(f".at[jnp.diag_indices(n)].set(v) form: {ast.unparse(n)}")
            k, tk = self._e(ix.args[0])
            v = n.args[0]
            if tk != NAT or not (isinstance(v, ast.Constant) and isinstance(v.value, int) and not isinstance(v.value, bool) and v.value >= 0):
                raise Untranslatable(f".at[jnp.diag_indices({tk})].set({ast.unparse(v)}): expected a dimension and a non-negative integer literal")
            self.numerals.add(v.value)
            return f"(Flows.atSet {base} (Flows.diagIndices {k}) ({v.value} : α))", MAT
        if fn == "eqx.tree_at" and any(k.arg == "replace_fn" for k in n.keywords):
            return self.tree_at_fn(n)
        if fn == "Vmap":
            if len(n.args) != 1 or [k.arg for k in n.keywords] != ["in_axes"] or ast.unparse(n.keywords[0].value) != "eqx.if_array(0)":
                raise Untranslatable("Vmap form: expected Vmap(<stacked>, in_axes=eqx.if_array(0))")
            if "Vmap" not in self.tgt.calls:
                raise Untranslatable("Vmap: not declared in the typing sheet")
            lname, rt, elem = self.tgt.calls["Vmap"]
            c, t = self._e(n.args[0])
            if t != ("L", elem):
                raise Untranslatable(f"Vmap of {t}")
            return f"({lname} {c})", rt
        if fn == "Linear":
            kws = {k.arg: k.value for k in n.keywords}
            if (len(n.args) != 2 or [k.arg for k in n.keywords] != ["use_bias", "key"]
                    or not (isinstance(kws["use_bias"], ast.Constant) and kws["use_bias"].value is False)):
                raise Untranslatable("Linear form: expected Linear(in, out, use_bias=False, key=k)")
            if "Linear" not in self.tgt.calls:
                raise Untranslatable("Linear: not declared in the typing sheet")
            lname, rt = self.tgt.calls["Linear"]
            argc = [self._nat_arg(a) for a in n.args] + [self.es(kws["key"])[0]]
            return "(" + " ".join([lname] + argc) + ")", rt
        return super().call(n)

    def _nat_arg(self, a):
        c, t = self._e(a)
        if t != NAT:
            raise Untranslatable(f"size argument of type {t}")
        return c

    def tree_at_fn(self, n: ast.Call):
        """`eqx.tree_at(lambda t: t.<field>, <record>, replace_fn=<F>)` -> `{ <record> with <field> := (<F'> <record>.<field>) }`"""
        if len(n.args) != 2 or [k.arg for k in n.keywords] != ["replace_fn"]:
            raise Untranslatable("eqx.tree_at(where, pytree, replace_fn=…) form")
        lam, obj = n.args
        if not (isinstance(lam, ast.Lambda) and len(lam.args.args) == 1 and isinstance(lam.body, ast.Attribute)
                and isinstance(lam.body.value, ast.Name) and lam.body.value.id == lam.args.args[0].arg):
            raise Untranslatable("eqx.tree_at: where is not `lambda t: t.<field>`")
        if not isinstance(obj, ast.Name):
            raise Untranslatable("eqx.tree_at: the pytree is not a bound name")
        base, bt = self._e(obj)
        if not (isinstance(bt, tuple) and bt[0] == "R" and bt[1] in self.structs):
            raise Untranslatable(f"eqx.tree_at on {bt}")
        ftypes = dict(self.structs[bt[1]].fields)
        fld = lam.body.attr
        if fld not in ftypes:
            raise Untranslatable(f"eqx.tree_at: {bt[1]} has no modelled field {fld}")
        fname = ast.unparse(n.keywords[0].value)
        if fname not in self.tgt.calls:
            raise Untranslatable(f"eqx.tree_at: replace_fn {fname} is not declared in the typing sheet")
        lname, rt = self.tgt.calls[fname][:2]
        if rt != ftypes[fld]:
            raise Untranslatable(f"eqx.tree_at: {fname} maps {fld} : {ftypes[fld]} to {rt}")
        return f"({{ {base} with {fld} := ({lname} {base}.{fld}) }})", bt

    # ------------------------------------------------------------------ statements
    def stmt_ext(self, st):
        if not (isinstance(st, ast.If) and isinstance(st.test, ast.Compare) and len(st.test.ops) == 1
                and isinstance(st.test.ops[0], ast.IsNot) and isinstance(st.test.comparators[0], ast.Constant)
                and st.test.comparators[0].value is None and isinstance(st.test.left, ast.Name)
                and self.env.get(st.test.left.id) == OPTNAT):
            return None
        opt = st.test.left.id
        if st.orelse or not st.body:
            raise Untranslatable("`if <opt> is not None:` with an else branch / empty body")
        last = st.body[-1]
        if not (isinstance(last, ast.Expr) and isinstance(last.value, ast.Call) and isinstance(last.value.func, ast.Attribute)
                and last.value.func.attr == "append" and isinstance(last.value.func.value, ast.Name)
                and len(last.value.args) == 1 and not last.value.keywords):
            raise Untranslatable("`if <opt> is not None:` body must end with `<list>.append(<expr>)`")
        lst = last.value.func.value.id
        lt = self.env.get(lst)
        if not (isinstance(lt, tuple) and lt[0] == "L"):
            raise Untranslatable(f"append to {lst} : {lt}")
        saved = dict(self.env)
        self.env[opt] = NAT
        lines = []
        for b in st.body[:-1]:
            if not (isinstance(b, ast.Assign) and len(b.targets) == 1 and isinstance(b.targets[0], ast.Name)
                    and b.targets[0].id not in saved):
                raise Untranslatable("`if <opt> is not None:` body: only assignments of fresh names before the append")
            lines += self.assign(b.targets[0], b.value)
        c, t = self.es(last.value.args[0])
        if t != lt[1]:
            raise Untranslatable(f"append of {t} to a list of {lt[1]}")
        self.env = saved
        inner = "; ".join(lines + [f"{lst} ++ [{c}]"])
        return [f"let {lst} := (match {opt} with | some {opt} => ({inner}) | none => {lst})"]
