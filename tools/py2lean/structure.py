"""structure.py: extract the *class structure* that flowjax's argument checking depends on, as Lean data.

Only `ast` is used: every `.py` file under `<repo>/flowjax/` is parsed, never imported or executed.

Emits two generated modules (through gen.py):

  Gen/Structure.lean   (data only)
    * `bijectionTable` : one `ClassRow` per class that transitively subclasses `AbstractBijection`
      (name, file, bases, which of the four public method names are bound in the class BODY by a plain
      undecorated `def`, which by an `@abstractmethod def`, which by anything else — alias assignment,
      other decorators, nested class, import, loop target … — and whether the class defines its own
      `__init_subclass__` / has class decorators / metaclass keywords);
    * the facts about `AbstractBijection.__init_subclass__` (the literal `wrap_methods`, the loop, the guard,
      the action) and about `_unwrap_check_and_cast` (decorators of the inner wrapper, its parameters, the
      return expression), as normalised source strings + the literal list;
    * module-level hazards: every `setattr(…)` call that could (re)bind one of the four names, every dynamic
      `type(name, bases, dict)` call, duplicate class names;
    * `distributionTable` (every transitive subclass of `AbstractDistribution`, with the public/vectorising
      names it overrides) and the facts about `AbstractDistribution.log_prob/sample/sample_and_log_prob`
      (first statement `self = unwrap(self)`, the vectorised call goes through `self._vectorize(self._m)`),
      and about `_vectorize._check_shapes` (comparison and exception class).

  Gen/ArgCheckGen.lean (code)
    the two inner functions `_check_x` and `_check_condition` of `_unwrap_check_and_cast`, translated statement by
    statement into `Except Err Val` programs over `Prelude/PyShape.lean` (a tiny, refusing translator: anything
    outside `if/elif/else`, `raise Exc(..)`, `name = arraylike_to_array(name, ..)`, `return name`, `is [not] None`,
    `==`, `!=`, `and`, `or`, `not`, `.shape`, `bijection.shape`, `bijection.cond_shape` is an error).
"""
from __future__ import annotations

import ast
import os

FOUR = ["transform", "transform_and_log_det", "inverse", "inverse_and_log_det"]
DIST_PUBLIC = ["log_prob", "sample", "sample_and_log_prob", "_vectorize", "_get_sample_keys"]
ROOT_BIJ = "AbstractBijection"
ROOT_DIST = "AbstractDistribution"


class StructureError(Exception):
    pass


# ----------------------------------------------------------------------------- helpers
def lean_str(s: str) -> str:
    out = []
    for ch in s:
        if ch == "\\":
            out.append("\\\\")
        elif ch == '"':
            out.append('\\"')
        elif ch == "\n":
            out.append("\\n")
        elif ch == "\t":
            out.append("\\t")
        elif ord(ch) < 32:
            out.append("\\x%02x" % ord(ch))
        else:
            out.append(ch)
    return '"' + "".join(out) + '"'


def lean_strs(xs) -> str:
    return "[" + ", ".join(lean_str(x) for x in xs) + "]"


def lean_bool(b) -> str:
    return "true" if b else "false"


def base_simple(expr: ast.expr) -> str:
    """`pkg.mod.Name[...]` -> `Name` (generic subscripts dropped)"""
    while isinstance(expr, ast.Subscript):
        expr = expr.value
    if isinstance(expr, ast.Attribute):
        return expr.attr
    if isinstance(expr, ast.Name):
        return expr.id
    return ast.unparse(expr)


def strip_doc(body):
    if body and isinstance(body[0], ast.Expr) and isinstance(body[0].value, ast.Constant) and isinstance(body[0].value.value, str):
        return body[1:]
    return body


class _MsgStripper(ast.NodeTransformer):
    """`raise Exc(<message…>)` -> `raise Exc` so that rewording a message does not change the structure."""

    def visit_Raise(self, node):
        if isinstance(node.exc, ast.Call):
            return ast.copy_location(ast.Raise(exc=node.exc.func, cause=None), node)
        return node


def norm_src(node_or_body) -> str:
    """normalised source: docstrings removed, comments gone (AST), exception messages stripped"""
    if isinstance(node_or_body, list):
        body = strip_doc(node_or_body)
        mod = ast.Module(body=[_MsgStripper().visit(ast.parse(ast.unparse(s)).body[0]) for s in body], type_ignores=[])
        return ast.unparse(ast.fix_missing_locations(mod))
    return ast.unparse(node_or_body)


def scope_walk(nodes):
    """walk statements of a class body without entering nested function / lambda / class / comprehension scopes
    (names bound there are not class attributes).  Yields every node that executes in the class scope."""
    stack = list(nodes)
    while stack:
        n = stack.pop()
        yield n
        if isinstance(n, (ast.FunctionDef, ast.AsyncFunctionDef, ast.ClassDef)):
            # decorators / defaults / bases execute in the class scope, the body does not
            for d in getattr(n, "decorator_list", []):
                stack.append(d)
            continue
        if isinstance(n, (ast.Lambda, ast.ListComp, ast.SetComp, ast.DictComp, ast.GeneratorExp)):
            continue
        stack.extend(ast.iter_child_nodes(n))


def is_abstract_deco(d: ast.expr) -> bool:
    return (isinstance(d, ast.Name) and d.id == "abstractmethod") or (
        isinstance(d, ast.Attribute) and d.attr == "abstractmethod")


def body_bindings(cls: ast.ClassDef, names):
    """-> (plain, abstract, other) for the given attribute names, in source order, deduplicated"""
    plain, abstract, other = [], [], []

    def add(lst, item):
        if item not in lst:
            lst.append(item)

    for n in scope_walk(cls.body):
        if isinstance(n, (ast.FunctionDef, ast.AsyncFunctionDef)) and n.name in names:
            if isinstance(n, ast.AsyncFunctionDef):
                add(other, f"{n.name}:async-def")
            elif not n.decorator_list:
                add(plain, n.name)
            elif len(n.decorator_list) == 1 and is_abstract_deco(n.decorator_list[0]):
                add(abstract, n.name)
            else:
                add(other, f"{n.name}:decorated[" + ",".join(ast.unparse(d) for d in n.decorator_list) + "]")
        elif isinstance(n, ast.ClassDef) and n.name in names:
            add(other, f"{n.name}:class")
        elif isinstance(n, ast.Name) and isinstance(n.ctx, (ast.Store, ast.Del)) and n.id in names:
            add(other, f"{n.id}:" + ("del" if isinstance(n.ctx, ast.Del) else "assign"))
        elif isinstance(n, (ast.Import, ast.ImportFrom)):
            for a in n.names:
                bound = a.asname or a.name.split(".")[0]
                if bound in names:
                    add(other, f"{bound}:import")
        elif isinstance(n, ast.ExceptHandler) and n.name in names:
            add(other, f"{n.name}:except-as")
        elif isinstance(n, (ast.MatchAs, ast.MatchStar)) and getattr(n, "name", None) in names:
            add(other, f"{n.name}:match")
    # a plain def that is ALSO rebound by something else is not reliably wrapped: keep it in `plain`, the `other`
    # entry makes the class fail `no_alias_bindings`
    # several defs of the same name: a later abstract/decorated def overrides an earlier plain one
    order = [(n.name, n) for n in cls.body if isinstance(n, ast.FunctionDef) and n.name in names]
    last = {}
    for nm, node in order:
        last[nm] = node
    for nm, node in last.items():
        if nm in plain and node.decorator_list:
            plain.remove(nm)
    key = {n: i for i, n in enumerate(names)}
    plain.sort(key=key.get)
    abstract.sort(key=key.get)
    other.sort()
    return plain, abstract, other


# ----------------------------------------------------------------------------- scan
class Scan:
    def __init__(self, repo: str):
        self.repo = repo
        self.errors: list = []
        self.files: dict = {}
        pkg = os.path.join(repo, "flowjax")
        paths = []
        for d, dirs, fs in os.walk(pkg):
            dirs.sort()
            dirs[:] = [x for x in dirs if x != "__pycache__"]
            for f in sorted(fs):
                if f.endswith(".py"):
                    paths.append(os.path.join(d, f))
        for p in sorted(paths):
            rel = os.path.relpath(p, repo)
            try:
                self.files[rel] = ast.parse(open(p).read(), filename=p)
            except (OSError, SyntaxError) as ex:
                self.errors.append({"target": rel, "error": f"cannot parse: {ex}"})
        # every class definition anywhere (classes nested in a class / function are flagged `nested`)
        self.classes = []  # (rel, qualname, node, nested)
        for rel, tree in self.files.items():
            self._collect(rel, tree, "", False)

    def _collect(self, rel, node, prefix, nested):
        for child in ast.iter_child_nodes(node):
            if isinstance(child, ast.ClassDef):
                self.classes.append((rel, prefix + child.name, child, nested))
                self._collect(rel, child, prefix + child.name + ".", True)
            elif isinstance(child, (ast.FunctionDef, ast.AsyncFunctionDef, ast.Lambda)):
                self._collect(rel, child, prefix + getattr(child, "name", "<lambda>") + ".<locals>.", True)
            else:
                self._collect(rel, child, prefix, nested)

    def descendants(self, root: str):
        """classes transitively deriving from `root` (by simple base name), in (file, line) order; root first"""
        by_name = {}
        for rel, q, node, nested in self.classes:
            by_name.setdefault(node.name, []).append((rel, q, node, nested))
        known = {root}
        changed = True
        while changed:
            changed = False
            for rel, q, node, nested in self.classes:
                if node.name not in known and any(base_simple(b) in known for b in node.bases):
                    known.add(node.name)
                    changed = True
        rows = [(rel, q, node, nested) for rel, q, node, nested in self.classes if node.name in known]
        rows.sort(key=lambda r: (r[2].name != root, r[0], r[2].lineno))
        dups = sorted(n for n in known if len(by_name.get(n, [])) > 1)
        return rows, dups

    def ancestors_outside(self, rows):
        """in-repo classes that are (transitive) bases of `rows` but not in `rows`, and base names not defined in the repo"""
        by_name = {}
        for rel, q, node, nested in self.classes:
            by_name.setdefault(node.name, []).append((rel, q, node, nested))
        have = {r[2].name for r in rows}
        aux, external, todo = [], set(), [b for r in rows for b in r[2].bases]
        while todo:
            b = base_simple(todo.pop())
            if b in have:
                continue
            if b in by_name:
                have.add(b)
                for rec in by_name[b]:
                    aux.append(rec)
                    todo.extend(rec[2].bases)
            else:
                external.add(b)
        aux.sort(key=lambda r: (r[0], r[2].lineno))
        return aux, sorted(external)

    def find_class(self, name):
        for rel, q, node, nested in self.classes:
            if q == name and not nested:
                return rel, node
        return None, None


def find_func(body, name):
    for n in body:
        if isinstance(n, (ast.FunctionDef, ast.AsyncFunctionDef)) and n.name == name:
            return n
    return None


def module_func(scan: Scan, name):
    for rel, tree in scan.files.items():
        f = find_func(tree.body, name)
        if f is not None:
            return rel, f
    return None, None


# ----------------------------------------------------------------------------- hook + wrapper facts
def hook_facts(scan: Scan):
    facts = dict(wrap=[], loop_var="", loop_iter="", guard="", action="", extra="", found=False)
    rel, cls = scan.find_class(ROOT_BIJ)
    if cls is None:
        scan.errors.append({"target": "AbstractBijection", "error": "class not found"})
        return facts
    fn = find_func(cls.body, "__init_subclass__")
    if fn is None:
        scan.errors.append({"target": "__init_subclass__", "error": "AbstractBijection defines no __init_subclass__ hook"})
        return facts
    facts["found"] = True
    body = strip_doc(fn.body)
    rest = []
    for st in body:
        if (isinstance(st, ast.Assign) and len(st.targets) == 1 and isinstance(st.targets[0], ast.Name)
                and st.targets[0].id == "wrap_methods" and isinstance(st.value, (ast.List, ast.Tuple))
                and all(isinstance(e, ast.Constant) and isinstance(e.value, str) for e in st.value.elts)):
            facts["wrap"] = [e.value for e in st.value.elts]
        elif isinstance(st, ast.For) and not st.orelse and len(st.body) == 1 and isinstance(st.body[0], ast.If) \
                and not st.body[0].orelse and len(st.body[0].body) == 1:
            facts["loop_var"] = ast.unparse(st.target)
            facts["loop_iter"] = ast.unparse(st.iter)
            facts["guard"] = ast.unparse(st.body[0].test)
            facts["action"] = ast.unparse(st.body[0].body[0])
        else:
            rest.append(ast.unparse(st))
    facts["extra"] = "; ".join(rest)
    facts["decorators"] = [ast.unparse(d) for d in fn.decorator_list]
    facts["params"] = [a.arg for a in fn.args.args]
    if not facts["wrap"]:
        scan.errors.append({"target": "__init_subclass__", "error": "no literal `wrap_methods = [...]` list"})
    if not facts["guard"]:
        scan.errors.append({"target": "__init_subclass__", "error": "no `for m in …: if …: <one statement>` loop"})
    return facts


def wrapper_facts(scan: Scan):
    facts = dict(found=False, outer_params=[], inner_name="", inner_decorators=[], inner_params=[], inner_defaults=[],
                 ret="", extra="", returns_inner=False, inner_funcs=[])
    rel, fn = module_func(scan, "_unwrap_check_and_cast")
    if fn is None:
        scan.errors.append({"target": "_unwrap_check_and_cast", "error": "function not found"})
        return facts, None
    facts["found"] = True
    facts["outer_params"] = [a.arg for a in fn.args.args]
    body = strip_doc(fn.body)
    inner = [s for s in body if isinstance(s, ast.FunctionDef)]
    if len(inner) != 1 or not isinstance(body[-1], ast.Return):
        scan.errors.append({"target": "_unwrap_check_and_cast", "error": "expected exactly one inner function and a return"})
        return facts, None
    w = inner[0]
    facts["inner_name"] = w.name
    facts["returns_inner"] = isinstance(body[-1].value, ast.Name) and body[-1].value.id == w.name and len(body) == 2
    facts["inner_decorators"] = [ast.unparse(d) for d in w.decorator_list]
    facts["inner_params"] = [a.arg for a in w.args.args]
    facts["inner_defaults"] = [ast.unparse(d) for d in w.args.defaults]
    wbody = strip_doc(w.body)
    rest = []
    for st in wbody:
        if isinstance(st, ast.FunctionDef):
            facts["inner_funcs"].append(st.name)
        elif isinstance(st, ast.Return):
            facts["ret"] = ast.unparse(st.value)
        else:
            rest.append(ast.unparse(st))
    facts["extra"] = "; ".join(rest)
    return facts, w


# ----------------------------------------------------------------------------- tiny translator for the two checks
class CheckTr:
    """Python (shape-check subset) -> Lean `Except Err Val` program; refuses everything else.

    typing: parameters are `Val` (None | array of a shape | something that is not array-like);
    `bijection.shape : Shape`, `bijection.cond_shape : Option Shape`; `<Val>.shape : Shape` (AttributeError on None)."""

    EXC = {"ValueError": "Err.valueError", "TypeError": "Err.typeError", "IndexError": "Err.indexError",
           "AttributeError": "Err.attributeError"}

    def __init__(self, params):
        self.vals = set(params)

    def expr(self, n):
        """-> (lean code of type Except Err τ, τ) with τ in Val|Shape|OptShape|Bool"""
        if isinstance(n, ast.Name) and n.id in self.vals:
            return f"(Except.ok {n.id})", "Val"
        if isinstance(n, ast.Constant) and n.value is None:
            return "(Except.ok Val.none)", "Val"
        if isinstance(n, ast.Attribute) and isinstance(n.value, ast.Name) and n.value.id == "bijection":
            if n.attr == "shape":
                return "(Except.ok bshape)", "Shape"
            if n.attr == "cond_shape":
                return "(Except.ok bcond)", "OptShape"
            raise StructureError(f"bijection.{n.attr}")
        if isinstance(n, ast.Attribute) and n.attr == "shape":
            c, t = self.expr(n.value)
            if t != "Val":
                raise StructureError(".shape of a " + t)
            return f"(Except.bind {c} PyShape.shapeOf)", "Shape"
        if isinstance(n, ast.Call) and isinstance(n.func, ast.Name) and n.func.id == "arraylike_to_array":
            if len(n.args) != 1:
                raise StructureError("arraylike_to_array arity")
            for k in n.keywords:
                if k.arg not in ("err_name", "dtype"):
                    raise StructureError(f"arraylike_to_array keyword {k.arg}")
            c, t = self.expr(n.args[0])
            if t != "Val":
                raise StructureError("arraylike_to_array of a " + t)
            return f"(Except.bind {c} PyShape.arraylikeToArray)", "Val"
        if isinstance(n, ast.Compare) and len(n.ops) == 1:
            op, (a, ta), (b, tb) = n.ops[0], self.expr(n.left), self.expr(n.comparators[0])
            if isinstance(op, (ast.Is, ast.IsNot)):
                if not (isinstance(n.comparators[0], ast.Constant) and n.comparators[0].value is None):
                    raise StructureError("`is` against something other than None")
                fn = {"Val": "PyShape.valIsNone", "OptShape": "PyShape.optIsNone"}.get(ta)
                if fn is None:
                    raise StructureError("is None on " + ta)
                neg = "!" if isinstance(op, ast.IsNot) else ""
                return f"(Except.map (fun v => {neg}{fn} v) {a})", "Bool"
            if isinstance(op, (ast.Eq, ast.NotEq)):
                def opt(c, t):
                    if t == "Shape":
                        return f"(Except.map some {c})"
                    if t == "OptShape":
                        return c
                    raise StructureError("comparison of " + t)
                neg = "!" if isinstance(op, ast.NotEq) else ""
                return (f"(Except.bind {opt(a, ta)} fun l => Except.map (fun r => {neg}PyShape.optShapeEq l r) {opt(b, tb)})", "Bool")
            raise StructureError("comparison operator " + type(op).__name__)
        if isinstance(n, ast.BoolOp):
            parts = [self.expr(v) for v in n.values]
            if any(t != "Bool" for _, t in parts):
                raise StructureError("and/or of non-bool")
            code = parts[-1][0]
            for c, _ in reversed(parts[:-1]):
                if isinstance(n.op, ast.And):
                    code = f"(Except.bind {c} fun p => if p then {code} else Except.ok false)"
                else:
                    code = f"(Except.bind {c} fun p => if p then Except.ok true else {code})"
            return code, "Bool"
        if isinstance(n, ast.UnaryOp) and isinstance(n.op, ast.Not):
            c, t = self.expr(n.operand)
            if t != "Bool":
                raise StructureError("not of non-bool")
            return f"(Except.map (fun p => !p) {c})", "Bool"
        raise StructureError("expression " + ast.dump(n)[:80])

    def stmts(self, body) -> str:
        if not body:
            return "(Except.ok Val.none)"  # falling off the end returns None
        st, rest = body[0], body[1:]
        if isinstance(st, ast.Assign) and len(st.targets) == 1 and isinstance(st.targets[0], ast.Name) and st.targets[0].id in self.vals:
            c, t = self.expr(st.value)
            if t != "Val":
                raise StructureError("assignment of a " + t)
            return f"(Except.bind {c} fun {st.targets[0].id} =>\n  {self.stmts(rest)})"
        if isinstance(st, ast.If):
            c, t = self.expr(st.test)
            if t != "Bool":
                raise StructureError("if on non-bool")
            return (f"(Except.bind {c} fun t =>\n  if t then {self.stmts(list(st.body) + rest)}\n  else {self.stmts(list(st.orelse) + rest)})")
        if isinstance(st, ast.Raise):
            e = st.exc.func if isinstance(st.exc, ast.Call) else st.exc
            if not (isinstance(e, ast.Name) and e.id in self.EXC):
                raise StructureError("raise of " + ast.unparse(st.exc)[:40])
            return f"(Except.error {self.EXC[e.id]})"
        if isinstance(st, ast.Return):
            if st.value is None:
                return "(Except.ok Val.none)"
            c, t = self.expr(st.value)
            if t != "Val":
                raise StructureError("return of a " + t)
            return c
        raise StructureError("statement " + type(st).__name__)


ARGCHECK_HEADER = """/-
GENERATED by tools/py2lean/structure.py from /repo on every run — do not edit.
The two inner functions of `flowjax.bijections.bijection._unwrap_check_and_cast`, statement by statement.
`bshape` = `bijection.shape`, `bcond` = `bijection.cond_shape`; a Python argument is a `PyShape.Val`.
-/
import Flowjaxv.Prelude.PyShape
set_option linter.unusedVariables false
namespace Gen.ArgCheckGen
open PyShape

"""


def gen_argcheck(scan: Scan, w):
    out, errors, targets = [ARGCHECK_HEADER], [], []
    for pyname, lname in (("_check_x", "checkX"), ("_check_condition", "checkCondition")):
        targets.append(lname)
        try:
            if w is None:
                raise StructureError("wrapper not found")
            fn = find_func(strip_doc(w.body), pyname)
            if fn is None:
                raise StructureError(f"inner function {pyname} not found")
            params = [a.arg for a in fn.args.args]
            if len(params) != 1 or fn.args.defaults or fn.args.kwonlyargs or fn.args.vararg or fn.args.kwarg:
                raise StructureError(f"{pyname}: unexpected signature")
            code = CheckTr(params).stmts(strip_doc(fn.body))
            out.append(f"/-- `{pyname}` of `_unwrap_check_and_cast` ({fn.lineno}) -/\n"
                       f"def {lname} (bshape : Shape) (bcond : Option Shape) ({params[0]} : Val) : Except Err Val :=\n  {code}\n")
        except StructureError as ex:
            errors.append({"target": lname, "error": str(ex)})
            out.append(f"-- UNTRANSLATABLE {lname}: {ex}\n")
    out.append("end Gen.ArgCheckGen\n")
    return {"text": "\n".join(out), "errors": errors, "targets": targets}


# ----------------------------------------------------------------------------- distribution facts
def dist_facts(scan: Scan):
    rel, cls = scan.find_class(ROOT_DIST)
    rows = []
    vec = dict(found=False, compare="", exc="", loops_in_shapes=False, in_shapes="", out_shapes="", call="")
    if cls is None:
        scan.errors.append({"target": ROOT_DIST, "error": "class not found"})
        return rows, vec
    for m in ("log_prob", "sample", "sample_and_log_prob"):
        fn = find_func(cls.body, m)
        if fn is None:
            scan.errors.append({"target": f"{ROOT_DIST}.{m}", "error": "method not found"})
            continue
        body = strip_doc(fn.body)
        first = ast.unparse(body[0]) if body else ""
        via, casts_cond = "", False
        for n in ast.walk(fn):
            # self._vectorize(self.<m>)(…)
            if (isinstance(n, ast.Call) and isinstance(n.func, ast.Call) and isinstance(n.func.func, ast.Attribute)
                    and n.func.func.attr == "_vectorize" and isinstance(n.func.func.value, ast.Name)
                    and n.func.func.value.id == "self" and len(n.func.args) == 1
                    and isinstance(n.func.args[0], ast.Attribute)):
                via = n.func.args[0].attr
            if (isinstance(n, ast.If) and ast.unparse(n.test) == "self.cond_shape is not None" and len(n.body) == 1
                    and isinstance(n.body[0], ast.Assign) and ast.unparse(n.body[0].targets[0]) == "condition"
                    and isinstance(n.body[0].value, ast.Call) and ast.unparse(n.body[0].value.func) == "arraylike_to_array"):
                casts_cond = True
        rows.append((m, first == "self = unwrap(self)", via, casts_cond, [ast.unparse(d) for d in fn.decorator_list]))
    v = find_func(cls.body, "_vectorize")
    if v is None:
        scan.errors.append({"target": f"{ROOT_DIST}._vectorize", "error": "method not found"})
        return rows, vec
    vec["found"] = True
    chk = find_func(strip_doc(v.body), "_check_shapes")
    if chk is None:
        scan.errors.append({"target": "_vectorize._check_shapes", "error": "inner function not found"})
    else:
        for n in ast.walk(chk):
            if isinstance(n, ast.If) and len(n.body) == 1 and isinstance(n.body[0], ast.Raise):
                vec["compare"] = ast.unparse(n.test)
                e = n.body[0].exc
                vec["exc"] = ast.unparse(e.func if isinstance(e, ast.Call) else e)
            if isinstance(n, ast.For) and isinstance(n.iter, ast.Call) and ast.unparse(n.iter.func) == "zip" \
                    and n.iter.args and ast.unparse(n.iter.args[0]) == "in_shapes":
                vec["loops_in_shapes"] = True
    for st in strip_doc(v.body):
        if isinstance(st, ast.Assign) and len(st.targets) == 1:
            t = ast.unparse(st.targets[0])
            if t == "in_shapes" and isinstance(st.value, ast.Dict):
                vec["in_shapes"] = ast.unparse(st.value)
            elif t == "out_shapes" and isinstance(st.value, ast.Dict):
                vec["out_shapes"] = ast.unparse(st.value)
        if isinstance(st, ast.Return):
            vec["call"] = ast.unparse(st.value)
    return rows, vec


# ----------------------------------------------------------------------------- module hazards
def hazards(scan: Scan):
    """setattr / type() sites that could bind one of the four names outside a class body, and sites that could reach the
    unwrapped function behind a wrapped method (`.__wrapped__`, `.__dict__`, `object.__getattribute__`, `vars(...)`)"""
    sets, dyn, byp = [], [], []
    for rel, tree in scan.files.items():
        # enclosing function names for readable locations
        parents = {}
        for p in ast.walk(tree):
            for c in ast.iter_child_nodes(p):
                parents[c] = p

        def where(n):
            names = []
            while n in parents:
                n = parents[n]
                if isinstance(n, (ast.FunctionDef, ast.AsyncFunctionDef, ast.ClassDef)):
                    names.append(n.name)
            return ".".join(reversed(names)) or "<module>"

        for n in ast.walk(tree):
            if isinstance(n, ast.Call) and isinstance(n.func, ast.Name) and n.func.id == "setattr" and len(n.args) >= 2:
                a = n.args[1]
                if isinstance(a, ast.Constant) and isinstance(a.value, str):
                    if a.value in FOUR:
                        sets.append((rel, where(n), ast.unparse(n)))
                else:
                    sets.append((rel, where(n), ast.unparse(n)))
            if isinstance(n, ast.Call) and isinstance(n.func, ast.Name) and n.func.id == "type" and len(n.args) == 3:
                dyn.append((rel, where(n), ast.unparse(n)[:120]))
            if isinstance(n, ast.Attribute) and n.attr in ("__wrapped__", "__dict__", "__getattribute__"):
                byp.append((rel, where(n), ast.unparse(n)[:120]))
            if isinstance(n, ast.Call) and isinstance(n.func, ast.Name) and n.func.id == "vars":
                byp.append((rel, where(n), ast.unparse(n)[:120]))
    return sorted(sets), sorted(dyn), sorted(set(byp))


# ----------------------------------------------------------------------------- emit
STRUCT_HEADER = """/-
GENERATED by tools/py2lean/structure.py from /repo on every run — do not edit.  DATA ONLY.
Everything below is read off the Python AST of `flowjax/**/*.py` (parsed, never imported).
-/
namespace Gen.Structure

/-- One class that (transitively) derives from the root class of its table.
`plainDefs` / `abstractDefs` / `otherBindings` concern the names of interest only
(the four bijection methods, resp. the public distribution methods): bound in the class BODY by an undecorated
`def` / by an `@abstractmethod def` / by anything else (`otherBindingNotes` says what: `name:assign`, `name:class`,
`name:decorated[...]`, `name:import`, …). -/
structure ClassRow where
  name : String
  file : String
  bases : List String
  plainDefs : List String
  abstractDefs : List String
  otherBindings : List String
  otherBindingNotes : List String
  definesInitSubclass : Bool
  classDecorators : List String
  classKeywords : List String
  nested : Bool
  deriving DecidableEq, Repr

/-- facts about one public method of `AbstractDistribution` -/
structure DistMethodRow where
  name : String
  firstStmtIsSelfUnwrap : Bool
  vectorizedVia : String
  castsConditionWhenConditional : Bool
  decorators : List String
  deriving DecidableEq, Repr

"""


def row_code(rel, q, node, nested, names):
    plain, abstract, other = body_bindings(node, names)
    return ("  { name := " + lean_str(node.name) + ", file := " + lean_str(rel) + ", bases := " + lean_strs([base_simple(b) for b in node.bases])
            + ",\n    plainDefs := " + lean_strs(plain) + ", abstractDefs := " + lean_strs(abstract)
            + ", otherBindings := " + lean_strs(sorted({o.split(":")[0] for o in other}, key=names.index))
            + ", otherBindingNotes := " + lean_strs(other)
            + ",\n    definesInitSubclass := " + lean_bool(find_func(node.body, "__init_subclass__") is not None)
            + ", classDecorators := " + lean_strs([ast.unparse(d) for d in node.decorator_list])
            + ", classKeywords := " + lean_strs([ast.unparse(k) for k in node.keywords])
            + ", nested := " + lean_bool(nested) + " }")


def gen_structure(scan: Scan):
    out = [STRUCT_HEADER]
    hk = hook_facts(scan)
    wf, w = wrapper_facts(scan)
    rows, dups = scan.descendants(ROOT_BIJ)
    drows, ddups = scan.descendants(ROOT_DIST)
    sets, dyn, byp = hazards(scan)
    dm, vec = dist_facts(scan)

    out.append("/-- the names of interest -/\ndef fourMethods : List String := " + lean_strs(FOUR) + "\n")
    out.append("/-! ## `AbstractBijection.__init_subclass__` -/")
    out.append("def hookFound : Bool := " + lean_bool(hk["found"]))
    out.append("/-- the literal `wrap_methods = [...]` -/\ndef wrapMethods : List String := " + lean_strs(hk["wrap"]))
    out.append("def hookParams : List String := " + lean_strs(hk.get("params", [])))
    out.append("def hookDecorators : List String := " + lean_strs(hk.get("decorators", [])))
    out.append("def hookLoopVar : String := " + lean_str(hk["loop_var"]))
    out.append("def hookLoopIter : String := " + lean_str(hk["loop_iter"]))
    out.append("def hookGuardSrc : String := " + lean_str(hk["guard"]))
    out.append("def hookActionSrc : String := " + lean_str(hk["action"]))
    out.append("/-- any other statement of the hook body (expected: none) -/\ndef hookExtraStmts : String := " + lean_str(hk["extra"]) + "\n")

    out.append("/-! ## `_unwrap_check_and_cast` -/")
    out.append("def wrapperFound : Bool := " + lean_bool(wf["found"]))
    out.append("def wrapperOuterParams : List String := " + lean_strs(wf["outer_params"]))
    out.append("def wrapperReturnsInner : Bool := " + lean_bool(wf["returns_inner"]))
    out.append("def wrapperInnerDecorators : List String := " + lean_strs(wf["inner_decorators"]))
    out.append("def wrapperInnerParams : List String := " + lean_strs(wf["inner_params"]))
    out.append("def wrapperInnerDefaults : List String := " + lean_strs(wf["inner_defaults"]))
    out.append("def wrapperInnerFuncs : List String := " + lean_strs(wf["inner_funcs"]))
    out.append("def wrapperReturnSrc : String := " + lean_str(wf["ret"]))
    out.append("def wrapperExtraStmts : String := " + lean_str(wf["extra"]) + "\n")

    out.append("/-! ## every transitive subclass of `AbstractBijection` (root first, then by file and line) -/")
    out.append("def bijectionTable : List ClassRow := [\n" + ",\n".join(row_code(*r, FOUR) for r in rows) + "\n]\n")
    aux, external = scan.ancestors_outside(rows)
    out.append("/-- classes defined in flowjax that are bases of a bijection class without deriving from `AbstractBijection` (mixins) -/")
    out.append("def bijectionAuxTable : List ClassRow := [" + ("\n" + ",\n".join(row_code(*r, FOUR) for r in aux) + "\n" if aux else "") + "]")
    out.append("/-- base-class names that are not defined anywhere in flowjax (third-party / builtin) -/")
    out.append("def bijectionExternalBases : List String := " + lean_strs(external))
    out.append("def duplicateBijectionClassNames : List String := " + lean_strs(dups))
    out.append("/-- `setattr(obj, name, …)` calls whose name is one of the four methods or not a literal: (file, enclosing scope, source) -/")
    out.append("def setattrSites : List (String × String × String) := [" + ", ".join(
        f"({lean_str(a)}, {lean_str(b)}, {lean_str(c)})" for a, b, c in sets) + "]")
    out.append("/-- dynamic `type(name, bases, dict)` class creations -/")
    out.append("def dynamicTypeCalls : List (String × String × String) := [" + ", ".join(
        f"({lean_str(a)}, {lean_str(b)}, {lean_str(c)})" for a, b, c in dyn) + "]\n")

    out.append("/-- uses of `.__wrapped__` / `.__dict__` / `.__getattribute__` / `vars(…)`: the ways to reach the function behind a wrapper -/")
    out.append("def unwrapBypassSites : List (String × String × String) := [" + ", ".join(
        f"({lean_str(a)}, {lean_str(b)}, {lean_str(c)})" for a, b, c in byp) + "]\n")
    out.append("/-! ## distributions -/")
    out.append("def distPublicNames : List String := " + lean_strs(DIST_PUBLIC))
    out.append("def distMethods : List DistMethodRow := [\n" + ",\n".join(
        "  { name := " + lean_str(m) + ", firstStmtIsSelfUnwrap := " + lean_bool(f) + ", vectorizedVia := " + lean_str(via)
        + ", castsConditionWhenConditional := " + lean_bool(cc) + ", decorators := " + lean_strs(decs) + " }" for m, f, via, cc, decs in dm) + "\n]")
    out.append("def vectorizeFound : Bool := " + lean_bool(vec["found"]))
    out.append("def vectorizeCheckCompareSrc : String := " + lean_str(vec["compare"]))
    out.append("def vectorizeCheckRaises : String := " + lean_str(vec["exc"]))
    out.append("def vectorizeCheckLoopsOverInShapes : Bool := " + lean_bool(vec["loops_in_shapes"]))
    out.append("def vectorizeInShapesSrc : String := " + lean_str(vec["in_shapes"]))
    out.append("def vectorizeOutShapesSrc : String := " + lean_str(vec["out_shapes"]))
    out.append("def vectorizeReturnSrc : String := " + lean_str(vec["call"]))
    out.append("/-- every transitive subclass of `AbstractDistribution`; the names of interest are `distPublicNames` -/")
    out.append("def distributionTable : List ClassRow := [\n" + ",\n".join(row_code(*r, DIST_PUBLIC) for r in drows) + "\n]")
    daux, dexternal = scan.ancestors_outside(drows)
    out.append("def distributionAuxTable : List ClassRow := [" + ("\n" + ",\n".join(row_code(*r, DIST_PUBLIC) for r in daux) + "\n" if daux else "") + "]")
    out.append("def distributionExternalBases : List String := " + lean_strs(dexternal))
    out.append("def duplicateDistributionClassNames : List String := " + lean_strs(ddups) + "\n")
    out.append("end Gen.Structure\n")
    targets = ["bijectionTable", "wrapMethods", "hook", "wrapper", "distributionTable", "distMethods", "vectorize"]
    return {"text": "\n".join(out), "errors": list(scan.errors), "targets": targets}, w


def generate(repo: str) -> dict:
    """-> {"Structure": {text, errors, targets}, "ArgCheckGen": {...}}"""
    scan = Scan(repo)
    st, w = gen_structure(scan)
    return {"Structure": st, "ArgCheckGen": gen_argcheck(scan, w)}


if __name__ == "__main__":
    import sys
    r = generate(sys.argv[1] if len(sys.argv) > 1 else "/repo")
    for k, v in r.items():
        print("=" * 30, k, v["errors"])
        print(v["text"])
