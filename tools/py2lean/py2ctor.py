"""py2ctor: translate the constructors and argument checks of flowjax into EXCEPTION-VALUED Lean functions
(lean/Flowjaxv/Gen/CtorsGen.lean).  Stdlib `ast` only; the source is parsed, never imported.

Every statement of every function listed in the typing sheet (`targets_ctors.py`) is translated or the function is REFUSED
(an error entry in the generation report = a broken tie).  A Python computation that may raise becomes a term of type
`Except Err τ`; statements are chained with `Except.bind` in source order and sub-expressions are evaluated left to right, so
WHICH exception is raised first is part of the generated term.

The subset:

  statements   `x = e`, `self.f = e` (a field the sheet tracks, or one it ignores when `e` cannot raise), `raise E(…)`,
               `if c: …` / `else` (a branch that ends in `raise` / `return` needs no join; otherwise the variables assigned in
               the branches are joined; `if p is None` / `if p is None or q is None` narrow optionals), `for t in it:` whose body
               only raises (no `break` / `continue` / `return` / `else`; variables it assigns are dead afterwards), calls of
               functions that return nothing (`check_shapes_match(…)`, `self._argcheck_shapes(…)`), `return e`, docstrings.
  expressions  names, `self.f`, `b.shape` / `b.cond_shape`, int / None / str constants, tuple displays (with `*`), `{"k": (…)}`
               displays iterated with `.items()`, `+` (ints, tuples), comparisons `== != < <= > >= is is not`, `and or not`
               (short-circuit, also when an operand may raise), `a if c else b`, `l[k]`, `l[:a]`, `l[a:]`, `l[:-1]`,
               `range(n)[i]`, `jnp.zeros(s)[idxs].shape`, single-generator comprehensions (with one `if`), `len sum prod all any
               tuple list enumerate zip accumulate`, `unwrap` (identity on declared shapes), the functions of the sheet, the
               primitives of the sheet (`PRIMS`).

Python ints that are sizes are `Nat`, axes are `Int`, shapes `List Nat`, `None`-able values `Option`; the bijections handed to
a constructor are records of their declared `shape` / `cond_shape` (`PyCtor.SB`).  Meaning of the primitives:
`lean/Flowjaxv/Model/CtorPrims.lean`.
"""
from __future__ import annotations

import ast
import dataclasses
import os
import re


class Refuse(Exception):
    pass


NAT, INT, BOOL, UNIT, SH, STR, SB, VB, IDX, INAXES = "Nat", "Int", "Bool", "Unit", "Shape", "String", "SB", "VB", "Idx", "InAxes"
OPAQUE = "<opaque>"  # a parameter the constructor only stores (a callable, …)


def TL(t):
    return ("List", t)


def TO(t):
    return ("Opt", t)


def TT(*ts):
    return ("Tup",) + tuple(ts)


OSH = TO(SH)
EXC = {"ValueError": "Err.valueError", "TypeError": "Err.typeError", "IndexError": "Err.indexError",
       "AttributeError": "Err.attributeError"}
BUILTINS = {"len", "sum", "all", "any", "tuple", "list", "enumerate", "zip", "range"}
RESERVED = {"at", "from", "end", "in", "do", "then", "else", "if", "fun", "let", "have", "show", "with", "match", "open", "def",
            "theorem", "structure", "where", "by", "instance", "class", "namespace", "section", "variable", "it", "self"}
REC_FIELDS = {SB: {"shape": SH, "cond_shape": OSH}, VB: {"shape": SH, "cond_shape": OSH}}


def is_list(t):
    return t == SH or (isinstance(t, tuple) and t[0] == "List")


def elem(t):
    return NAT if t == SH else t[1]


def is_opt(t):
    return isinstance(t, tuple) and t[0] == "Opt"


def lean_ty(t):
    if isinstance(t, str):
        if t == IDX:
            return "ArgCheck.Idx"
        if t == OPAQUE:
            raise Refuse("an opaque value where a Lean value is needed")
        return t
    if t[0] == "List":
        return f"List {paren(lean_ty(t[1]))}"
    if t[0] == "Opt":
        return f"Option {paren(lean_ty(t[1]))}"
    if t[0] == "Tup":
        return " × ".join(paren(lean_ty(x)) for x in t[1:])
    if t[0] == "Rec":
        return t[1]
    raise Refuse(f"type {t}")


def atomic(s):
    if not s:
        return True
    if re.fullmatch(r"[\w.']+", s):
        return True
    if s[0] in "([" and s[-1] in ")]":
        depth = 0
        for i, ch in enumerate(s):
            if ch in "([":
                depth += 1
            elif ch in ")]":
                depth -= 1
                if depth == 0 and i != len(s) - 1:
                    return False
        return True
    return False


def paren(s):
    return s if atomic(s) else f"({s})"


@dataclasses.dataclass
class Fn:
    """one function / method of the source.  `selffields`: the attributes of `self` a METHOD reads (they become leading
    parameters); `fields`: for an `__init__`, the attributes it must set (its result is the record of them); `ignored`: attributes
    it may set that the translation does not track (their right-hand side must be unable to raise)."""
    file: str
    pyname: str  # "f" or "Class.method"
    lean: str
    params: list
    ret: object = UNIT
    selffields: list = dataclasses.field(default_factory=list)
    fields: list = None
    record: str = None
    ignored: tuple = ()
    prop: bool = False  # a `@property`
    doc: str = ""


@dataclasses.dataclass
class Ctor:
    """Equinox: `Class(args)` runs `__init__` (or the dataclass-generated one: the arguments are the fields) and then
    `__check_init__` on the finished object."""
    lean: str
    cls: str
    init: str = None  # lean name of the translated `__init__`, or None for the dataclass-generated one
    check: str = None  # lean name of the translated `__check_init__`
    fields: list = None  # dataclass-generated `__init__`: (field, type) in order
    record: str = None


@dataclasses.dataclass
class V:
    ty: object = None
    code: str = ""
    pure: bool = True
    kind: str = "lean"  # lean | none | tuple | dict | str | opaque
    items: object = None  # tuple: [(V, starred)], dict: [(key, V)]


def ok(code):
    return f"Except.ok {paren(code)}"


class Tr:
    def __init__(self, gen, fn, node, cls):
        self.gen, self.fn, self.node, self.cls = gen, fn, node, cls
        self.env = {}
        self.narrow = {}
        self.tmpc = 0
        self.loopc = 0

    # ------------------------------------------------------------------ helpers
    def tmp(self, stem="t"):
        self.tmpc += 1
        return f"{stem}{self.tmpc}"

    def check_name(self, name):
        if name in RESERVED or re.fullmatch(r"t\d+|n\d+|j\d+", name) or name.startswith("self_"):
            raise Refuse(f"variable name `{name}` clashes with a reserved name of the translation")

    def seq(self, vs, build):
        """evaluate `vs` left to right, then `build(pure codes) -> V`"""
        codes, binds = [], []
        for v in vs:
            if v.kind != "lean":
                raise Refuse(f"a {v.kind} value where a Lean value is needed")
            if v.pure:
                codes.append(v.code)
            else:
                t = self.tmp()
                binds.append((t, v.code))
                codes.append(t)
        r = build(codes)
        if not binds:
            return r
        inner = r.code if not r.pure else ok(r.code)
        for t, c in reversed(binds):
            inner = f"Except.bind {paren(c)} fun {t} => {inner}"
        return V(r.ty, inner, pure=False)

    def lift(self, v):
        return v.code if not v.pure else ok(v.code)

    # ------------------------------------------------------------------ coercions
    def unify_ty(self, a, b):
        if a == b:
            return a
        if a is None:
            return b
        if b is None:
            return a
        if is_opt(a) and not is_opt(b):
            return TO(self.unify_ty(a[1], b))
        if is_opt(b) and not is_opt(a):
            return TO(self.unify_ty(a, b[1]))
        if isinstance(a, tuple) and isinstance(b, tuple) and a[0] == b[0] and len(a) == len(b) and a[0] in ("Tup", "Opt", "List"):
            return (a[0],) + tuple(self.unify_ty(x, y) for x, y in zip(a[1:], b[1:]))
        if {a, b} == {NAT, INT}:
            return INT
        raise Refuse(f"types {a} and {b} do not unify")

    def static_ty(self, v):
        """type of a value (None for the bare `None` literal)"""
        if v.kind == "lean":
            return v.ty
        if v.kind == "none":
            return None
        if v.kind == "tuple":
            if any(st for _, st in v.items):
                return SH
            tys = [self.static_ty(x) for x, _ in v.items]
            if len(tys) == 1:
                if tys[0] == NAT:
                    return SH
                raise Refuse("a 1-tuple that is not a shape")
            if tys and all(t == NAT for t in tys):
                return SH
            if not tys:
                return SH
            return ("Tup",) + tuple(t if t is not None else TO(None) for t in tys)
        raise Refuse(f"a {v.kind} value where a Lean value is needed")

    def coerce(self, v, ty):
        """a pure-or-impure Lean value of exactly type `ty`"""
        if v.kind == "none":
            if is_opt(ty):
                return V(ty, "none")
            raise Refuse(f"`None` where {ty} is expected")
        if v.kind == "tuple":
            if ty == SH or ty == TL(NAT):
                parts, vs = [], []
                for x, st in v.items:
                    x = self.coerce(x, SH if st else NAT)
                    vs.append(x)
                    parts.append(st)

                def build(codes):
                    segs, cur = [], []
                    for c, st in zip(codes, parts):
                        if st:
                            if cur:
                                segs.append("[" + ", ".join(cur) + "]")
                                cur = []
                            segs.append(paren(c))
                        else:
                            cur.append(c)
                    if cur or not segs:
                        segs.append("[" + ", ".join(cur) + "]")
                    return V(SH, " ++ ".join(segs))
                return self.seq(vs, build)
            if is_opt(ty):
                inner = self.coerce(v, ty[1])
                return self.seq([inner], lambda c: V(ty, f"some {paren(c[0])}"))
            if isinstance(ty, tuple) and ty[0] == "Tup":
                if any(st for _, st in v.items) or len(v.items) != len(ty) - 1:
                    raise Refuse(f"a tuple display where {ty} is expected")
                vs = [self.coerce(x, t) for (x, _), t in zip(v.items, ty[1:])]
                return self.seq(vs, lambda c: V(ty, "(" + ", ".join(c) + ")"))
            raise Refuse(f"a tuple display where {ty} is expected")
        if v.kind != "lean":
            raise Refuse(f"a {v.kind} value where {ty} is expected")
        if v.ty == ty or (v.ty, ty) in ((SH, TL(NAT)), (TL(NAT), SH)):
            return V(ty, v.code, v.pure)
        if is_opt(ty) and not is_opt(v.ty):
            inner = self.coerce(v, ty[1])
            return self.seq([inner], lambda c: V(ty, f"some {paren(c[0])}"))
        if ty == INT and v.ty == NAT:
            return self.seq([v], lambda c: V(INT, f"({c[0]} : Int)"))
        if isinstance(ty, tuple) and ty[0] == "Tup" and isinstance(v.ty, tuple) and v.ty[0] == "Tup" and len(ty) == len(v.ty) and v.pure:
            n = len(ty) - 1
            comps = [self.coerce(V(t, proj(paren(v.code), i, n)), t2) for i, (t, t2) in enumerate(zip(v.ty[1:], ty[1:]))]
            return self.seq(comps, lambda c: V(ty, "(" + ", ".join(c) + ")"))
        raise Refuse(f"type {v.ty} where {ty} is expected (`{v.code[:60]}`)")

    def as_lean(self, v):
        if v.kind == "lean":
            return v
        ty = self.static_ty(v)
        if ty is None or (isinstance(ty, tuple) and any(t == TO(None) for t in ty[1:])):
            raise Refuse("a value whose type cannot be determined (bare `None`)")
        return self.coerce(v, ty)

    # ------------------------------------------------------------------ expressions
    def place_key(self, n):
        """source text of a name / pure dotted chain (the things `is None` can narrow)"""
        m = n
        while isinstance(m, ast.Attribute):
            m = m.value
        return ast.unparse(n) if isinstance(m, ast.Name) else None

    def ex(self, n) -> V:
        key = self.place_key(n) if isinstance(n, (ast.Name, ast.Attribute)) else None
        if key is not None and key in self.narrow:
            return self.narrow[key]
        if isinstance(n, ast.Constant):
            c = n.value
            if c is None:
                return V(kind="none")
            if isinstance(c, bool):
                return V(BOOL, "true" if c else "false")
            if isinstance(c, int):
                if c < 0:
                    return V(INT, f"({c} : Int)")
                return V(NAT, str(c))
            if isinstance(c, str):
                return V(STR, '"' + c.replace("\\", "\\\\").replace('"', '\\"') + '"')
            raise Refuse(f"constant {c!r}")
        if isinstance(n, ast.Name):
            if n.id in self.env:
                v = self.env[n.id]
                if v.kind == "opaque":
                    raise Refuse(f"the opaque parameter `{n.id}` is used")
                return v
            raise Refuse(f"name `{n.id}` is not defined on every path to this point (or is outside the subset)")
        if isinstance(n, ast.Attribute):
            if isinstance(n.value, ast.Name) and n.value.id == "self":
                k = f"self.{n.attr}"
                if k in self.env:
                    return self.env[k]
                raise Refuse(f"`{k}` is read but is neither a declared field of `self` nor assigned before")
            if n.attr == "shape" and isinstance(n.value, ast.Subscript) and isinstance(n.value.value, ast.Call):
                return self.zeros_index(n.value)
            a = self.ex(n.value)
            if a.kind == "lean" and a.ty in REC_FIELDS and n.attr in REC_FIELDS[a.ty]:
                return self.seq([a], lambda c: V(REC_FIELDS[a.ty][n.attr], f"{paren(c[0])}.{n.attr}"))
            raise Refuse(f"attribute `.{n.attr}` of {a.ty if a.kind == 'lean' else a.kind}")
        if isinstance(n, ast.Tuple):
            items = []
            for e in n.elts:
                if isinstance(e, ast.Starred):
                    items.append((self.ex(e.value), True))
                else:
                    items.append((self.ex(e), False))
            return V(kind="tuple", items=items)
        if isinstance(n, ast.List):
            if any(isinstance(e, ast.Starred) for e in n.elts):
                raise Refuse("starred element in a list display")
            vs = [self.as_lean(self.ex(e)) for e in n.elts]
            if not vs:
                raise Refuse("an empty list display")
            ty = vs[0].ty
            for x in vs[1:]:
                ty = self.unify_ty(ty, x.ty)
            vs = [self.coerce(x, ty) for x in vs]
            return self.seq(vs, lambda c: V(TL(ty), "[" + ", ".join(c) + "]"))
        if isinstance(n, ast.Dict):
            items = []
            for k, val in zip(n.keys, n.values):
                if not (isinstance(k, ast.Constant) and isinstance(k.value, str)):
                    raise Refuse("dict display with a key that is not a string literal")
                items.append((k.value, self.ex(val)))
            if len({k for k, _ in items}) != len(items):
                raise Refuse("dict display with a repeated key")
            return V(kind="dict", items=items)
        if isinstance(n, ast.UnaryOp):
            if isinstance(n.op, ast.Not):
                a = self.truth(n.operand)
                return self.seq([a], lambda c: V(BOOL, f"!{paren(c[0])}"))
            if isinstance(n.op, ast.USub):
                a = self.ex(n.operand)
                if a.kind == "lean" and a.ty in (INT, NAT):
                    a = self.coerce(a, INT)
                    return self.seq([a], lambda c: V(INT, f"-{paren(c[0])}"))
            raise Refuse(f"unary {type(n.op).__name__}")
        if isinstance(n, ast.BoolOp):
            return self.boolop(n)
        if isinstance(n, ast.BinOp):
            return self.binop(n)
        if isinstance(n, ast.Compare):
            return self.compare(n)
        if isinstance(n, ast.IfExp):
            return self.ifexp(n)
        if isinstance(n, ast.Subscript):
            return self.subscript(n)
        if isinstance(n, ast.Call):
            return self.call(n)
        if isinstance(n, (ast.ListComp, ast.GeneratorExp)):
            return self.comp(n, "map")
        raise Refuse(f"expression {type(n).__name__}: `{ast.unparse(n)[:60]}`")

    def truth(self, n) -> V:
        """the expression as a condition (Python truthiness for the few types where it is modelled)"""
        v = self.ex(n)
        if v.kind == "lean" and v.ty == BOOL:
            return v
        if v.kind == "lean" and v.ty == SH:
            return self.seq([v], lambda c: V(BOOL, f"PyCtor.truthy {paren(c[0])}"))
        if v.kind == "lean" and v.ty == OSH:
            return self.seq([v], lambda c: V(BOOL, f"PyCtor.truthyOpt {paren(c[0])}"))
        raise Refuse(f"truth value of {v.ty if v.kind == 'lean' else v.kind} (`{ast.unparse(n)[:50]}`)")

    def boolop(self, n):
        vals = [self.truth(v) for v in n.values]
        is_and = isinstance(n.op, ast.And)
        acc = vals[-1]
        for v in reversed(vals[:-1]):
            if acc.pure and v.pure:
                acc = V(BOOL, f"{paren(v.code)} {'&&' if is_and else '||'} {paren(acc.code)}")
            else:
                rest = self.lift(acc)
                if is_and:
                    acc = self.seq([v], lambda c: V(BOOL, f"if {c[0]} then {rest} else Except.ok false", pure=False))
                else:
                    acc = self.seq([v], lambda c: V(BOOL, f"if {c[0]} then Except.ok true else {rest}", pure=False))
        return acc

    def binop(self, n):
        a, b = self.ex(n.left), self.ex(n.right)
        op = type(n.op).__name__
        ta, tb = self.static_ty(a), self.static_ty(b)
        if op == "Add" and (ta == SH or tb == SH):
            a, b = self.coerce(a, SH), self.coerce(b, SH)
            return self.seq([a, b], lambda c: V(SH, f"{paren(c[0])} ++ {paren(c[1])}"))
        if op == "Add" and is_list(ta) and ta == tb:
            return self.seq([a, b], lambda c: V(ta, f"{paren(c[0])} ++ {paren(c[1])}"))
        if op in ("Add", "Mult") and ta in (NAT, INT) and tb in (NAT, INT):
            t = NAT if ta == tb == NAT else INT
            a, b = self.coerce(a, t), self.coerce(b, t)
            return self.seq([a, b], lambda c: V(t, f"{paren(c[0])} {'+' if op == 'Add' else '*'} {paren(c[1])}"))
        if op == "Sub" and ta in (NAT, INT) and tb in (NAT, INT):
            a, b = self.coerce(a, INT), self.coerce(b, INT)
            return self.seq([a, b], lambda c: V(INT, f"{paren(c[0])} - {paren(c[1])}"))
        raise Refuse(f"operator {op} on {ta} and {tb}")

    def compare(self, n):
        operands = [n.left] + list(n.comparators)
        if len(n.ops) != 1:
            raise Refuse("comparison chain")
        op, l, r = n.ops[0], operands[0], operands[1]
        o = type(op).__name__
        if o in ("Is", "IsNot"):
            if not (isinstance(r, ast.Constant) and r.value is None):
                raise Refuse("`is` against something other than None")
            a = self.ex(l)
            if a.kind == "none":
                return V(BOOL, "true" if o == "Is" else "false")
            if a.kind == "lean" and is_opt(a.ty):
                return self.seq([a], lambda c: V(BOOL, f"{paren(c[0])}.{'isNone' if o == 'Is' else 'isSome'}"))
            if a.kind == "lean":
                # a value that cannot be None here (narrowed)
                return self.seq([a], lambda c: V(BOOL, "false" if o == "Is" else "true"))
            raise Refuse(f"`is None` on a {a.kind} value")
        a, b = self.ex(l), self.ex(r)
        ta, tb = self.static_ty(a), self.static_ty(b)
        if o in ("Eq", "NotEq"):
            ty = self.unify_ty(ta, tb)
            if ty is None or STR == ty or (isinstance(ty, tuple) and TO(None) in ty):
                ty = self.fill_none(ty, ta, tb)
            a, b = self.coerce(a, ty), self.coerce(b, ty)
            sym = "=" if o == "Eq" else "≠"
            return self.seq([a, b], lambda c: V(BOOL, f"decide ({c[0]} {sym} {c[1]})"))
        sym = dict(Lt="<", LtE="≤", Gt=">", GtE="≥").get(o)
        if sym and ta in (NAT, INT) and tb in (NAT, INT):
            t = NAT if ta == tb == NAT else INT
            a, b = self.coerce(a, t), self.coerce(b, t)
            return self.seq([a, b], lambda c: V(BOOL, f"decide ({c[0]} {sym} {c[1]})"))
        raise Refuse(f"comparison {o} of {ta} and {tb}")

    def fill_none(self, ty, ta, tb):
        def go(t):
            if t == TO(None):
                raise Refuse("comparison of two values of undetermined type")
            return t
        if ty is None:
            raise Refuse("comparison of two `None`s")
        if isinstance(ty, tuple) and ty[0] == "Tup":
            return ("Tup",) + tuple(go(t) for t in ty[1:])
        if ty == STR:
            raise Refuse("comparison of strings")
        return ty

    def is_none_test(self, t):
        """`P is None` / `P is not None` on a narrowable place -> (place key, value, is_none)"""
        if (isinstance(t, ast.Compare) and len(t.ops) == 1 and isinstance(t.ops[0], (ast.Is, ast.IsNot))
                and isinstance(t.comparators[0], ast.Constant) and t.comparators[0].value is None):
            key = self.place_key(t.left)
            if key is not None:
                v = self.ex(t.left)
                if v.kind == "lean" and is_opt(v.ty) and v.pure:
                    return key, v, isinstance(t.ops[0], ast.Is)
        return None

    def narrowed_name(self, key):
        if re.fullmatch(r"\w+", key) and key != "self":
            return key
        return self.tmp("n")

    def ifexp(self, n):
        nt = self.is_none_test(n.test)
        if nt is not None:
            key, v, isnone = nt
            none_e, some_e = (n.body, n.orelse) if isnone else (n.orelse, n.body)
            a = self.ex(none_e)
            nm = self.narrowed_name(key)
            saved = dict(self.narrow)
            self.narrow[key] = V(v.ty[1], nm)
            try:
                b = self.ex(some_e)
            finally:
                self.narrow = saved
            ty = self.unify_ty(self.static_ty(a), self.static_ty(b))
            if ty is None:
                raise Refuse("conditional expression of undetermined type")
            a, b = self.coerce(a, ty), self.coerce(b, ty)
            if a.pure and b.pure:
                return V(ty, f"match {v.code} with | some {nm} => {b.code} | none => {a.code}")
            return V(ty, f"match {v.code} with | some {nm} => {self.lift(b)} | none => {self.lift(a)}", pure=False)
        c = self.truth(n.test)
        a, b = self.ex(n.body), self.ex(n.orelse)
        ty = self.unify_ty(self.static_ty(a), self.static_ty(b))
        if ty is None:
            raise Refuse("conditional expression of undetermined type")
        a, b = self.coerce(a, ty), self.coerce(b, ty)
        if a.pure and b.pure:
            return self.seq([c], lambda cc: V(ty, f"if {cc[0]} then {a.code} else {b.code}"))
        return self.seq([c], lambda cc: V(ty, f"if {cc[0]} then {self.lift(a)} else {self.lift(b)}", pure=False))

    def const_int(self, n):
        if isinstance(n, ast.Constant) and isinstance(n.value, int) and not isinstance(n.value, bool):
            return n.value
        if isinstance(n, ast.UnaryOp) and isinstance(n.op, ast.USub) and isinstance(n.operand, ast.Constant) and isinstance(n.operand.value, int):
            return -n.operand.value
        return None

    def zeros_index(self, sub):
        """`jnp.zeros(shape)[idxs].shape`"""
        c = sub.value
        if not (isinstance(c, ast.Call) and ast.unparse(c.func) == "jnp.zeros" and len(c.args) == 1 and not c.keywords):
            raise Refuse(f"`.shape` of `{ast.unparse(sub)[:50]}`")
        self.gen.need(self.fn.file, "jnp")
        s = self.coerce(self.ex(c.args[0]), SH)
        i = self.ex(sub.slice)
        if i.kind != "lean" or i.ty != IDX:
            raise Refuse("index of `jnp.zeros(…)[…]` is not an `Idx`")
        return self.seq([s, i], lambda cc: V(SH, f"PyCtor.zerosIndexShape {paren(cc[0])} {paren(cc[1])}", pure=False))

    def subscript(self, n):
        # range(n)[i]
        if isinstance(n.value, ast.Call) and isinstance(n.value.func, ast.Name) and n.value.func.id == "range":
            if len(n.value.args) != 1 or n.value.keywords or isinstance(n.slice, ast.Slice):
                raise Refuse("range(…)[…] other than `range(n)[i]`")
            self.gen.need(self.fn.file, "range")
            a = self.coerce(self.ex(n.value.args[0]), NAT)
            i = self.coerce(self.ex(n.slice), INT)
            return self.seq([a, i], lambda c: V(NAT, f"PyCtor.rangeGet {paren(c[0])} {paren(c[1])}", pure=False))
        v = self.ex(n.value)
        if v.kind == "tuple":
            k = self.const_int(n.slice)
            if k is None or any(st for _, st in v.items) or not 0 <= k < len(v.items):
                raise Refuse("index into a tuple display must be a literal in range")
            return v.items[k][0]
        if v.kind != "lean":
            raise Refuse(f"subscript of a {v.kind} value")
        if isinstance(v.ty, tuple) and v.ty[0] == "Tup":
            k = self.const_int(n.slice)
            if k is None or not 0 <= k < len(v.ty) - 1:
                raise Refuse("index into a tuple must be a literal in range")
            nn = len(v.ty) - 1
            return self.seq([v], lambda c: V(v.ty[1 + k], proj(paren(c[0]), k, nn)))
        if is_list(v.ty):
            if isinstance(n.slice, ast.Slice):
                s = n.slice
                if s.step is not None or (s.lower is None) == (s.upper is None):
                    raise Refuse("slice other than `[:e]` / `[e:]`")
                to = s.lower is None
                be = s.upper if to else s.lower
                if to and self.const_int(be) == -1:
                    return self.seq([v], lambda c: V(v.ty, f"List.dropLast {paren(c[0])}"))
                b = self.ex(be)
                if b.kind != "lean" or b.ty not in (NAT, INT):
                    raise Refuse("slice bound that is not an int")
                if b.ty == NAT:
                    return self.seq([v, b], lambda c: V(v.ty, f"List.{'take' if to else 'drop'} {paren(c[1])} {paren(c[0])}"))
                return self.seq([v, b], lambda c: V(v.ty, f"PyCtor.{'sliceToI' if to else 'sliceFromI'} {paren(c[0])} {paren(c[1])}"))
            k = self.ex(n.slice)
            if k.kind == "lean" and k.ty == NAT:
                return self.seq([v, k], lambda c: V(elem(v.ty), f"PyCtor.idx {paren(c[0])} {paren(c[1])}", pure=False))
            raise Refuse(f"index `{ast.unparse(n.slice)[:40]}` of type {k.ty} (a possibly negative index is not modelled)")
        raise Refuse(f"subscript `{ast.unparse(n)[:60]}`")

    def comp(self, n, how):
        if len(n.generators) != 1 or n.generators[0].is_async or len(n.generators[0].ifs) > 1:
            raise Refuse("comprehension other than `f(v) for v in xs [if c]`")
        g = n.generators[0]
        it = self.as_lean(self.ex(g.iter))
        if not is_list(it.ty):
            raise Refuse(f"comprehension over {it.ty}")
        et = elem(it.ty)
        if isinstance(g.target, ast.Name):
            names, pat, tys = [g.target.id], g.target.id, [et]
        elif isinstance(g.target, ast.Tuple) and all(isinstance(e, ast.Name) for e in g.target.elts) and isinstance(et, tuple) and et[0] == "Tup" \
                and len(et) - 1 == len(g.target.elts):
            names, tys = [e.id for e in g.target.elts], list(et[1:])
            pat = "(" + ", ".join(names) + ")"
        else:
            raise Refuse("comprehension target")
        for nm in names:
            self.check_name(nm)
        saved_env, saved_narrow = dict(self.env), dict(self.narrow)
        for nm, t in zip(names, tys):
            self.env[nm] = V(t, nm)
            self.drop_narrow(nm)
        try:
            filt = None
            if g.ifs:
                f = g.ifs[0]
                nt = self.is_none_test(f)
                if nt is not None and not nt[2] and len(names) == 1 and nt[0] == names[0]:
                    filt = ("some", None)
                    self.env[names[0]] = V(et[1], names[0])
                elif len(names) == 1 and isinstance(f, ast.Name) and f.id == names[0] and et == OSH:
                    filt = ("truthy", None)  # `if s` on an optional tuple: not None and not ()
                    self.env[names[0]] = V(SH, names[0])
                else:
                    c = self.truth(f)
                    if not c.pure:
                        raise Refuse("comprehension filter that may raise")
                    filt = ("bool", c.code)
            body = self.ex(n.elt)
            if how in ("all", "any"):
                body = self.truth(n.elt)
            else:
                body = self.as_lean(body)
        finally:
            self.env, self.narrow = saved_env, saved_narrow
        fun = f"fun {pat} =>"
        if how in ("all", "any"):
            if filt is not None:
                raise Refuse(f"`{how}(…)` over a filtered comprehension")
            if not body.pure:  # the condition may raise: evaluated element by element, short-circuiting
                return self.seq([it], lambda c: V(BOOL, f"PyCtor.{how}M ({fun} {body.code}) {paren(c[0])}", pure=False))
            return self.seq([it], lambda c: V(BOOL, f"List.{how} {paren(c[0])} ({fun} {body.code})"))
        if filt is None:
            if body.pure:
                return self.seq([it], lambda c: V(TL(body.ty), f"List.map ({fun} {body.code}) {paren(c[0])}"))
            return self.seq([it], lambda c: V(TL(body.ty), f"PyCtor.mapM ({fun} {body.code}) {paren(c[0])}", pure=False))
        if not body.pure:
            raise Refuse("filtered comprehension whose element may raise")
        nm = names[0]
        if filt[0] == "some":
            return self.seq([it], lambda c: V(TL(body.ty), f"List.filterMap (fun {nm} => Option.map (fun {nm} => {body.code}) {nm}) {paren(c[0])}"))
        if filt[0] == "truthy":
            return self.seq([it], lambda c: V(TL(body.ty), f"List.filterMap (fun {nm} => Option.bind {nm} (fun {nm} => if PyCtor.truthy {nm} then some {paren(body.code)} else none)) {paren(c[0])}"))
        return self.seq([it], lambda c: V(TL(body.ty), f"List.map ({fun} {body.code}) (List.filter ({fun} {filt[1]}) {paren(c[0])})"))

    # ------------------------------------------------------------------ calls
    def args_exact(self, n, npos):
        if len(n.args) != npos or any(isinstance(a, ast.Starred) for a in n.args) or n.keywords:
            raise Refuse(f"call `{ast.unparse(n)[:70]}`: unexpected arguments")

    def call(self, n):
        f = ast.unparse(n.func)
        g = self.gen
        sheet = g.sheet
        # ---- methods of self
        if isinstance(n.func, ast.Attribute) and isinstance(n.func.value, ast.Name) and n.func.value.id == "self":
            target = f"{self.cls}.{n.func.attr}"
            if target in g.done:
                return self.call_gen(g.done[target], n, via_self=True)
            if target in g.sheet_py:
                raise Refuse(f"calls `{target}`, which was refused or is translated later")
            raise Refuse(f"method call `{f}`")
        if isinstance(n.func, ast.Attribute) and n.func.attr == "items" and not n.args and not n.keywords:
            d = self.ex(n.func.value)
            if d.kind != "dict":
                raise Refuse("`.items()` of something that is not a dict display of this function")
            ty = None
            for _, x in d.items:
                ty = self.unify_ty(ty, self.static_ty(x))
            ty = self.fill_none(ty, None, None)
            vs = [self.coerce(x, ty) for _, x in d.items]
            keys = [k for k, _ in d.items]
            return self.seq(vs, lambda c: V(TL(TT(STR, ty)), "[" + ", ".join(f'("{k}", {x})' for k, x in zip(keys, c)) + "]"))
        if not isinstance(n.func, (ast.Name, ast.Attribute)):
            raise Refuse(f"call of `{f[:60]}`")
        root = f.split(".")[0]
        if root in self.env:
            raise Refuse(f"call of the local value `{f}`")
        # ---- functions translated from the source
        if f in g.done:
            g.need(self.fn.file, f)
            return self.call_gen(g.done[f], n)
        if f in g.sheet_py:
            raise Refuse(f"calls `{f}`, which was refused or is translated later")
        if root in sheet.IMPORTS or f in sheet.IMPORTS:
            g.need(self.fn.file, root)
        if f in BUILTINS:
            g.need(self.fn.file, f)
        # ---- identity on declared shapes
        if f in sheet.IDENTITY_CALLS:
            self.args_exact(n, 1)
            return self.ex(n.args[0])
        # ---- primitives of the sheet
        if f in sheet.PRIMS:
            lean, atys, rty, pure = sheet.PRIMS[f]
            self.args_exact(n, len(atys))
            vs = [self.coerce(self.ex(a), t) for a, t in zip(n.args, atys)]
            return self.seq(vs, lambda c: V(rty, " ".join([lean] + [paren(x) for x in c]), pure=pure))
        if f == "len":
            self.args_exact(n, 1)
            v = self.as_lean(self.ex(n.args[0]))
            if is_list(v.ty):
                return self.seq([v], lambda c: V(NAT, f"List.length {paren(c[0])}"))
            raise Refuse(f"len of {v.ty}")
        if f == "sum":
            self.args_exact(n, 1)
            v = self.coerce(self.comp_or_value(n.args[0]), TL(NAT))
            return self.seq([v], lambda c: V(NAT, f"PyCtor.natSum {paren(c[0])}"))
        if f == "prod":
            self.args_exact(n, 1)
            v = self.as_lean(self.ex(n.args[0]))
            if v.ty == SH:
                return self.seq([v], lambda c: V(NAT, f"PyCtor.prod {paren(c[0])}"))
            if v.ty == OSH:
                return self.seq([v], lambda c: V(NAT, f"PyCtor.prodOpt {paren(c[0])}", pure=False))
            raise Refuse(f"prod of {v.ty}")
        if f in ("all", "any"):
            self.args_exact(n, 1)
            if isinstance(n.args[0], (ast.GeneratorExp, ast.ListComp)):
                return self.comp(n.args[0], f)
            raise Refuse(f"{f}(…) of something that is not a comprehension")
        if f in ("tuple", "list"):
            self.args_exact(n, 1)
            v = self.as_lean(self.comp_or_value(n.args[0]))
            if is_list(v.ty):
                return v
            raise Refuse(f"{f}(…) of {v.ty}")
        if f == "accumulate":
            self.args_exact(n, 1)
            v = self.coerce(self.comp_or_value(n.args[0]), TL(NAT))
            return self.seq([v], lambda c: V(SH, f"PyCtor.accumulate {paren(c[0])}"))
        if f == "enumerate":
            self.args_exact(n, 1)
            v = self.as_lean(self.ex(n.args[0]))
            if is_list(v.ty):
                return self.seq([v], lambda c: V(TL(TT(NAT, elem(v.ty))), f"PyCtor.enumerate {paren(c[0])}"))
            raise Refuse(f"enumerate of {v.ty}")
        if f == "zip":
            if len(n.args) != 2 or any(isinstance(a, ast.Starred) for a in n.args):
                raise Refuse("zip other than `zip(a, b)`")
            for k in n.keywords:
                if not (k.arg == "strict" and isinstance(k.value, ast.Constant) and k.value.value is False):
                    raise Refuse("zip with keywords other than `strict=False`")
            a, b = self.as_lean(self.ex(n.args[0])), self.as_lean(self.ex(n.args[1]))
            if is_list(a.ty) and is_list(b.ty):
                return self.seq([a, b], lambda c: V(TL(TT(elem(a.ty), elem(b.ty))), f"List.zip {paren(c[0])} {paren(c[1])}"))
            raise Refuse(f"zip of {a.ty} and {b.ty}")
        raise Refuse(f"call of `{f[:60]}` is outside the subset")

    def comp_or_value(self, n):
        if isinstance(n, (ast.GeneratorExp, ast.ListComp)):
            return self.comp(n, "map")
        return self.ex(n)

    def call_gen(self, info, n, via_self=False):
        fn = info["fn"]
        if fn.prop:
            raise Refuse(f"`{fn.pyname}` is a property, not a method")
        if n.keywords or any(isinstance(a, ast.Starred) for a in n.args):
            raise Refuse(f"keyword / starred arguments of `{fn.pyname}`")
        params = [p for p in fn.params if p[1] != OPAQUE]
        if len(n.args) != len(fn.params):
            raise Refuse(f"`{fn.pyname}` called with {len(n.args)} arguments (defaults are not modelled)")
        vs = []
        if fn.selffields:
            if not via_self:
                raise Refuse(f"`{fn.pyname}` called without `self`")
            for fld, t in fn.selffields:
                k = f"self.{fld}"
                if k not in self.env:
                    raise Refuse(f"`{fn.pyname}` reads `{k}`, which is not assigned before the call")
                vs.append(self.coerce(self.env[k], t))
        for a, (p, t) in zip(n.args, fn.params):
            if t == OPAQUE:
                continue
            vs.append(self.coerce(self.ex(a), t))
        return self.seq(vs, lambda c: V(info["ret"], " ".join([fn.lean] + [paren(x) for x in c]), pure=False))

    # ------------------------------------------------------------------ statements
    def drop_narrow(self, name):
        for k in list(self.narrow):
            if k == name or k.startswith(name + "."):
                del self.narrow[k]

    def trivially_total(self, n):
        if isinstance(n, (ast.Name, ast.Constant)):
            return True
        if isinstance(n, ast.Tuple):
            return all(self.trivially_total(e) for e in n.elts)
        if isinstance(n, ast.Call) and isinstance(n.func, ast.Name) and n.func.id == "tuple" and len(n.args) == 1 and not n.keywords:
            return isinstance(n.args[0], ast.Name)
        return False

    def terminates(self, body):
        if not body:
            return False
        st = body[-1]
        if isinstance(st, (ast.Raise, ast.Return)):
            return True
        if isinstance(st, ast.If) and st.orelse:
            return self.terminates(st.body) and self.terminates(st.orelse)
        return False

    def assigned_names(self, body):
        out = []
        for st in body:
            for x in ast.walk(st):
                if isinstance(x, ast.Assign):
                    for t in x.targets:
                        for y in ast.walk(t):
                            if isinstance(y, ast.Name) and isinstance(y.ctx, ast.Store) and y.id not in out:
                                out.append(y.id)
                            if (isinstance(y, ast.Attribute) and isinstance(y.value, ast.Name) and y.value.id == "self"
                                    and f"self.{y.attr}" not in out):
                                out.append(f"self.{y.attr}")
        return out

    def var(self, key):
        return key.replace("self.", "self_")

    def bind_stmt(self, name_code, v, rest):
        """`name = v; rest()`"""
        if v.pure:
            return f"let {name_code} := {v.code}\n{rest()}"
        return f"Except.bind {paren(v.code)} fun {name_code} =>\n{rest()}"

    def block(self, stmts, k):
        """code of type `Except Err R` for the statements followed by the continuation `k()`"""
        if not stmts:
            return k()
        st, rest = stmts[0], stmts[1:]

        def cont():
            return self.block(rest, k)

        if isinstance(st, ast.Expr):
            e = st.value
            if isinstance(e, ast.Constant) and isinstance(e.value, str):
                return cont()
            if isinstance(e, ast.Call):
                v = self.ex(e)
                if v.kind == "lean" and v.ty == UNIT and not v.pure:
                    return f"Except.bind {paren(v.code)} fun _ =>\n{cont()}"
            raise Refuse(f"expression statement `{ast.unparse(e)[:60]}`")
        if isinstance(st, ast.Assign):
            if len(st.targets) != 1:
                raise Refuse("chained assignment")
            tgt = st.targets[0]
            if isinstance(tgt, ast.Attribute) and isinstance(tgt.value, ast.Name) and tgt.value.id == "self":
                if self.fn.fields is None:
                    raise Refuse(f"assignment to `self.{tgt.attr}` outside an `__init__`")
                ftys = dict(self.fn.fields)
                if tgt.attr in ftys:
                    v = self.coerce(self.ex(st.value), ftys[tgt.attr])
                    key = f"self.{tgt.attr}"
                    self.drop_narrow(key)

                    def after(key=key, ty=ftys[tgt.attr]):
                        self.env[key] = V(ty, self.var(key))
                        return cont()
                    return self.bind_stmt(self.var(key), v, after)
                if tgt.attr in self.fn.ignored:
                    if not self.trivially_total(st.value):
                        raise Refuse(f"`self.{tgt.attr} = {ast.unparse(st.value)[:40]}`: an untracked field whose value might raise")
                    return cont()
                raise Refuse(f"assignment to `self.{tgt.attr}`, which the sheet does not list")
            if isinstance(tgt, ast.Name):
                self.check_name(tgt.id)
                old = self.env.get(tgt.id)
                if old is not None and old.kind == "opaque":
                    raise Refuse(f"assignment to the opaque parameter `{tgt.id}`")
                v = self.ex(st.value)
                if v.kind == "dict":
                    self.drop_narrow(tgt.id)
                    self.env[tgt.id] = v
                    # the entries are evaluated now (they are pure projections in every accepted source)
                    for _, x in v.items:
                        if x.kind == "lean" and not x.pure:
                            raise Refuse("dict display with an entry that may raise")
                    return cont()
                v = self.as_lean(v)

                def after(name=tgt.id, ty=v.ty):
                    self.drop_narrow(name)
                    self.env[name] = V(ty, name)
                    return cont()
                return self.bind_stmt(tgt.id, v, after)
            raise Refuse(f"assignment target `{ast.unparse(tgt)}`")
        if isinstance(st, ast.Raise):
            e = st.exc.func if isinstance(st.exc, ast.Call) else st.exc
            if st.cause is not None or not (isinstance(e, ast.Name) and e.id in EXC):
                raise Refuse("raise of " + ast.unparse(st)[:50])
            if rest:
                raise Refuse("statements after `raise`")
            return f"Except.error {EXC[e.id]}"
        if isinstance(st, ast.Return):
            if rest:
                raise Refuse("statements after `return`")
            if self.in_loop or self.in_join:
                raise Refuse("`return` inside a loop or a branch that has to be joined")
            if self.fn.fields is not None:
                raise Refuse("`return` in an `__init__`")
            if st.value is None:
                if self.fn.ret != UNIT:
                    raise Refuse("bare `return` in a function that returns a value")
                return "Except.ok ()"
            v = self.coerce(self.ex(st.value), self.fn.ret)
            return self.lift(v)
        if isinstance(st, ast.If):
            return self.do_if(st, rest, k)
        if isinstance(st, ast.For):
            return self.do_for(st, cont)
        if isinstance(st, ast.Pass):
            return cont()
        raise Refuse(f"statement {type(st).__name__}: `{ast.unparse(st)[:60]}`")

    def scoped(self, f):
        saved_env, saved_narrow = dict(self.env), dict(self.narrow)
        try:
            return f()
        finally:
            self.env, self.narrow = saved_env, saved_narrow

    def no_fallthrough(self):
        raise Refuse("internal: a terminating branch fell through")

    def none_disjunction(self, test):
        """`P1 is None or P2 is None or …` -> [(key, V)]"""
        ts = test.values if isinstance(test, ast.BoolOp) and isinstance(test.op, ast.Or) else [test]
        out = []
        for t in ts:
            nt = self.is_none_test(t)
            if nt is None or not nt[2]:
                return None
            out.append((nt[0], nt[1]))
        return out if len({k for k, _ in out}) == len(out) else None

    def do_if(self, st, rest, k):
        def cont():
            return self.block(rest, k)

        if self.terminates(st.body):
            # no join: `if c then <body> else <orelse; rest>`
            places = self.none_disjunction(st.test)
            if places is not None:
                then_code = self.scoped(lambda: self.block(list(st.body), self.no_fallthrough))
                names = [self.narrowed_name(key) for key, _ in places]

                def other():
                    for (key, v), nm in zip(places, names):
                        self.narrow[key] = V(v.ty[1], nm)
                    return self.block(list(st.orelse) + rest, k)
                else_code = self.scoped(other)
                scrut = ", ".join(v.code for _, v in places)
                pat = ", ".join(f"some {nm}" for nm in names)
                wild = ", ".join("_" for _ in names)
                if len(places) == 1:
                    return f"(match {scrut} with\n| none => ({then_code})\n| some {names[0]} => ({else_code}))"
                return f"(match {scrut} with\n| {pat} => ({else_code})\n| {wild} => ({then_code}))"
            c = self.truth(st.test)
            then_code = self.scoped(lambda: self.block(list(st.body), self.no_fallthrough))
            else_code = self.scoped(lambda: self.block(list(st.orelse) + rest, k))
            body = lambda cc: f"if {cc} then ({then_code}) else\n{else_code}"
            if c.pure:
                return body(c.code)
            t = self.tmp()
            return f"Except.bind {paren(c.code)} fun {t} =>\n{body(t)}"
        # ---- join on the variables the branches assign
        names = [nm for nm in self.assigned_names(list(st.body) + list(st.orelse))]
        nt = self.is_none_test(st.test)

        def branch(body, pre):
            def run():
                pre()
                saved = self.in_join
                self.in_join = True
                try:
                    holder = {}

                    def end():
                        holder["env"] = dict(self.env)
                        holder["narrow"] = dict(self.narrow)
                        return "<<JOIN>>"
                    code = self.block(list(body), end)
                    return code, holder
                finally:
                    self.in_join = saved
            return self.scoped(run)

        def narrow_to(some):
            def pre():
                if nt is not None:
                    key, v, isnone = nt
                    if some:
                        self.narrow[key] = V(v.ty[1], nm_narrow)
            return pre

        nm_narrow = self.narrowed_name(nt[0]) if nt is not None else None
        then_is_none = nt is not None and nt[2]
        tcode, th = branch(st.body, narrow_to(nt is not None and not then_is_none))
        ecode, eh = branch(st.orelse, narrow_to(nt is not None and then_is_none))
        if "env" not in th or "env" not in eh:
            raise Refuse("a branch that neither falls through nor ends in raise/return on every path")

        def value_in(h, nm):
            if nm in h["narrow"]:
                return h["narrow"][nm]
            return h["env"].get(nm)

        live = []
        for nm in names:
            a, b = value_in(th, nm), value_in(eh, nm)
            if a is None or b is None:
                continue  # assigned in one branch only and undefined before: dead after the `if`
            if a.kind != "lean" or b.kind != "lean":
                raise Refuse(f"`{nm}` ({a.kind}/{b.kind}) assigned inside a branch")
            live.append((nm, self.unify_ty(a.ty, b.ty), a, b))
        if not live:
            tup_t = tup_e = "()"
        else:
            def tup(side):
                cs = []
                for nm, ty, a, b in live:
                    x = self.coerce(a if side == 0 else b, ty)
                    if not x.pure:
                        raise Refuse("join of a value that may raise")
                    cs.append(x.code)
                return cs[0] if len(cs) == 1 else "(" + ", ".join(cs) + ")"
            tup_t, tup_e = tup(0), tup(1)
        tcode = tcode.replace("<<JOIN>>", ok(tup_t))
        ecode = ecode.replace("<<JOIN>>", ok(tup_e))
        if nt is not None:
            key, v, isnone = nt
            ncode, scode = (tcode, ecode) if isnone else (ecode, tcode)
            joined = f"(match {v.code} with\n| none => ({ncode})\n| some {nm_narrow} => ({scode}))"
            pre = None
        else:
            c = self.truth(st.test)
            if c.pure:
                joined, pre = f"(if {c.code} then ({tcode}) else ({ecode}))", None
            else:
                t = self.tmp()
                joined, pre = f"(if {t} then ({tcode}) else ({ecode}))", (t, c.code)
        j = self.tmp("j")
        lets = []
        for i, (nm, ty, _, _) in enumerate(live):
            self.drop_narrow(nm)
            self.env[nm] = V(ty, self.var(nm))
            lets.append(f"let {self.var(nm)} := {proj(j, i, len(live))}")
        for nm in names:
            if nm not in [x[0] for x in live]:
                self.env.pop(nm, None)
                self.drop_narrow(nm)
        code = f"Except.bind {joined} fun {j} =>\n" + "".join(l + "\n" for l in lets) + cont()
        if pre is not None:
            code = f"Except.bind {paren(pre[1])} fun {pre[0]} =>\n{code}"
        return code

    def do_for(self, st, cont):
        if st.orelse:
            raise Refuse("`for … else`")
        for x in ast.walk(st):
            if isinstance(x, (ast.Break, ast.Continue, ast.Return)):
                raise Refuse(f"`{type(x).__name__.lower()}` inside a loop (only loops whose body raises or falls through are modelled)")
        it = self.as_lean(self.ex(st.iter))
        if not is_list(it.ty):
            raise Refuse(f"iteration over `{ast.unparse(st.iter)[:50]}` ({it.ty})")
        et = elem(it.ty)
        if isinstance(st.target, ast.Name):
            names, tys = [st.target.id], [et]
        elif (isinstance(st.target, ast.Tuple) and all(isinstance(e, ast.Name) for e in st.target.elts) and isinstance(et, tuple)
              and et[0] == "Tup" and len(et) - 1 == len(st.target.elts)):
            names, tys = [e.id for e in st.target.elts], list(et[1:])
        else:
            raise Refuse("loop target")
        for nm in names:
            self.check_name(nm)
        assigned = self.assigned_names(st.body)
        if any(a.startswith("self.") for a in assigned):
            raise Refuse("assignment to a field of `self` inside a loop")

        def run():
            saved = self.in_loop
            self.in_loop = True
            try:
                for nm, t in zip(names, tys):
                    self.drop_narrow(nm)
                    self.env[nm] = V(t, nm)
                return self.block(list(st.body), lambda: "Except.ok ()")
            finally:
                self.in_loop = saved
        body = self.scoped(run)
        lets = "".join(f"let {nm} := {proj('it', i, len(names))}\n" for i, nm in enumerate(names)) if len(names) > 1 else ""
        var = names[0] if len(names) == 1 else "it"
        # variables the loop assigns (and its targets) are dead afterwards
        for nm in assigned + names:
            self.env.pop(nm, None)
            self.drop_narrow(nm)
        loop = f"PyCtor.forEach {paren(it.code)} (fun {var} =>\n{lets}{body})"
        if not it.pure:
            raise Refuse("loop over an iterable that may raise")
        return f"Except.bind ({loop}) fun _ =>\n{cont()}"

    # ------------------------------------------------------------------ the function
    def signature(self):
        a = self.node.args
        names = [x.arg for x in a.posonlyargs + a.args] + (["*" + a.vararg.arg] if a.vararg else []) + [x.arg for x in a.kwonlyargs] \
            + (["**" + a.kwarg.arg] if a.kwarg else [])
        is_method = self.cls is not None
        if is_method:
            if not names or names[0] != "self":
                raise Refuse("method without `self`")
            names = names[1:]
        want = [p for p, _ in self.fn.params]
        if names != want:
            raise Refuse(f"signature ({', '.join(names)}) differs from the sheet ({', '.join(want)})")
        decos = [ast.unparse(d) for d in self.node.decorator_list]
        if decos != (["property"] if self.fn.prop else []):
            raise Refuse(f"decorators {decos}")
        binders = []
        for fld, t in self.fn.selffields:
            self.env[f"self.{fld}"] = V(t, f"self_{fld}")
            binders.append(f"(self_{fld} : {lean_ty(t)})")
        for p, t in self.fn.params:
            if t == OPAQUE:
                self.env[p] = V(kind="opaque")
                continue
            self.check_name(p)
            self.env[p] = V(t, p)
            binders.append(f"({p} : {lean_ty(t)})")
        return binders

    def translate(self):
        self.in_loop = self.in_join = False
        binders = self.signature()
        fn = self.fn
        if fn.fields is not None:
            ret_ty = ("Rec", fn.record)

            def end():
                missing = [f for f, _ in fn.fields if f"self.{f}" not in self.env]
                if missing:
                    raise Refuse(f"`__init__` does not set {missing} on every path")
                return "Except.ok { " + ", ".join(f"{f} := {self.env[f'self.{f}'].code}" for f, _ in fn.fields) + " }"
        else:
            ret_ty = fn.ret

            def end():
                if fn.ret == UNIT:
                    return "Except.ok ()"
                if is_opt(fn.ret):
                    return "Except.ok none"  # falling off the end returns None
                raise Refuse("function may fall off its end without returning a value")
        body = self.block(list(self.node.body), end)
        out = []
        if fn.fields is not None:
            out += [f"/-- the fields `{fn.pyname}` sets -/", f"structure {fn.record} where"]
            out += [f"  {f} : {lean_ty(t)}" for f, t in fn.fields] + ["  deriving DecidableEq, Repr", ""]
        out += [f"/-- `{fn.file}` :: `{fn.pyname}`" + (f" — {fn.doc}" if fn.doc else "") + " -/",
                f"def {fn.lean}" + "".join(" " + b for b in binders) + f" : Except Err {paren(lean_ty(ret_ty))} :="]
        out += ["  " + l for l in body.split("\n")] + [""]
        self.gen.emit("\n".join(out))
        return dict(fn=fn, ret=ret_ty)


def proj(code, i, n):
    """component i of an n-tuple `(a, b, c)` = `(a, (b, c))`"""
    if n == 1:
        return code
    return f"{code}{'.2' * i}{'.1' if i < n - 1 else ''}"


class Gen:
    def __init__(self, repo, sheet):
        self.repo, self.sheet = repo, sheet
        self.out = []
        self.done = {}
        self.sheet_py = {f.pyname for f in sheet.FUNCS}
        self.trees = {}
        self.needed = {}

    def emit(self, text):
        self.out.append(text)

    def need(self, file, alias):
        self.needed.setdefault(file, set()).add(alias.split(".")[0])

    def tree(self, rel):
        if rel not in self.trees:
            self.trees[rel] = ast.parse(open(os.path.join(self.repo, rel)).read())
        return self.trees[rel]

    def bindings(self, rel):
        b, count = {}, {}
        for node in self.tree(rel).body:
            if isinstance(node, ast.Import):
                for a in node.names:
                    nm = a.asname or a.name.split(".")[0]
                    b[nm] = a.name if a.asname else a.name.split(".")[0]
                    count[nm] = count.get(nm, 0) + 1
            elif isinstance(node, ast.ImportFrom):
                for a in node.names:
                    nm = a.asname or a.name
                    b[nm] = f"{node.module}.{a.name}"
                    count[nm] = count.get(nm, 0) + 1
            elif isinstance(node, (ast.FunctionDef, ast.ClassDef)):
                b[node.name] = f"<def {node.name}>"
                count[node.name] = count.get(node.name, 0) + 1
            elif isinstance(node, (ast.Assign, ast.AugAssign, ast.AnnAssign)):
                for x in ast.walk(node):
                    if isinstance(x, ast.Name) and isinstance(x.ctx, ast.Store):
                        b[x.id] = "<assigned>"
                        count[x.id] = count.get(x.id, 0) + 1
        return b, count

    def check_bindings(self, fn):
        b, count = self.bindings(fn.file)
        for alias in sorted(self.needed.get(fn.file, ())):
            if alias in BUILTINS:
                if alias in b:
                    raise Refuse(f"the builtin `{alias}` is rebound at module level in {fn.file} (`{b[alias]}`)")
                continue
            want = self.sheet.IMPORTS.get(alias)
            got = b.get(alias)
            ok_ = got == want or (got == f"<def {alias}>" and want is not None and want == fn.file[:-3].replace("/", ".") + "." + alias)
            if not ok_ or count.get(alias, 0) != 1:
                raise Refuse(f"`{alias}` is bound to `{got}` in {fn.file} ({count.get(alias, 0)} bindings), the sheet expects `{want}`")

    def find(self, fn):
        parts = fn.pyname.split(".")
        body, cls = self.tree(fn.file).body, None
        if len(parts) == 2:
            cs = [x for x in body if isinstance(x, ast.ClassDef) and x.name == parts[0]]
            if len(cs) != 1:
                raise Refuse(f"class `{parts[0]}` is defined {len(cs)} times")
            if cs[0].decorator_list:
                raise Refuse(f"class `{parts[0]}` is decorated")
            body, cls = cs[0].body, parts[0]
        elif len(parts) != 1:
            raise Refuse("nested target")
        fs = [x for x in body if isinstance(x, ast.FunctionDef) and x.name == parts[-1]]
        if len(fs) != 1:
            raise Refuse(f"defined {len(fs)} times")
        return fs[0], cls, body

    def dataclass_fields(self, cls_body):
        """annotated names of a class body in order (the parameters of the dataclass-generated `__init__`)"""
        out = []
        for x in cls_body:
            if isinstance(x, ast.AnnAssign) and isinstance(x.target, ast.Name):
                if "ClassVar" in ast.unparse(x.annotation):
                    continue
                out.append((x.target.id, x.value is not None))
        return out

    def ctor(self, c):
        if c.init is not None:
            info = self.done.get(c.init_py)
            if info is None:
                raise Refuse(f"`{c.init_py}` was refused")
            fn = info["fn"]
            rec = fn.record
            binders = [f"({p} : {lean_ty(t)})" for p, t in fn.params if t != OPAQUE]
            init_call = " ".join([fn.lean] + [p for p, t in fn.params if t != OPAQUE])
            fields = fn.fields
        else:
            # the dataclass-generated `__init__`: one parameter per annotated field, in order, no `__init__` in the class body
            file = self.done[c.check_py]["fn"].file
            cs = [x for x in self.tree(file).body if isinstance(x, ast.ClassDef) and x.name == c.cls]
            if len(cs) != 1:
                raise Refuse(f"class `{c.cls}` is defined {len(cs)} times")
            if any(isinstance(x, ast.FunctionDef) and x.name in ("__init__", "__post_init__") for x in cs[0].body):
                raise Refuse(f"class `{c.cls}` defines its own `__init__` / `__post_init__`")
            got = [n for n, _ in self.dataclass_fields(cs[0].body)]
            if got != [f for f, _ in c.fields]:
                raise Refuse(f"fields of `{c.cls}` are {got}, the sheet expects {[f for f, _ in c.fields]}")
            rec, fields = c.record, c.fields
            binders = [f"({p} : {lean_ty(t)})" for p, t in fields]
            init_call = "Except.ok ({ " + ", ".join(f"{p} := {p}" for p, _ in fields) + f" }} : {rec})"
        out = []
        if c.init is None:
            out += [f"/-- the fields of `{c.cls}` (dataclass-generated `__init__`) -/", f"structure {rec} where"]
            out += [f"  {f} : {lean_ty(t)}" for f, t in fields] + ["  deriving DecidableEq, Repr", ""]
        chk = self.done.get(c.check_py)
        if chk is None:
            raise Refuse(f"`{c.check_py}` was refused")
        cfn = chk["fn"]
        ftys = dict(fields)
        for fld, t in cfn.selffields:
            if ftys.get(fld) != t:
                raise Refuse(f"`{cfn.pyname}` reads `self.{fld}` : {t}, the constructor sets {ftys.get(fld)}")
        check_call = " ".join([cfn.lean] + [f"self.{fld}" for fld, _ in cfn.selffields])
        out += [f"/-- `{c.cls}(…)` as Equinox runs it: " + ("`__init__`" if c.init else "the dataclass-generated `__init__`")
                + " and then `__check_init__` on the fields it set -/",
                f"def {c.lean}" + "".join(" " + b for b in binders) + f" : Except Err {rec} :=",
                f"  Except.bind ({init_call}) fun self =>",
                f"  Except.bind ({check_call}) fun _ =>",
                "  Except.ok self", ""]
        self.emit("\n".join(out))

    def run(self):
        errors = []
        sheet = self.sheet
        header = ["/-", "GENERATED by tools/py2lean/py2ctor.py from /repo on every run — do not edit.",
                  "The constructors and argument checks of flowjax as exception-valued functions (sheet: `tools/py2lean/targets_ctors.py`;",
                  "primitives: `Model/CtorPrims.lean`).  `Except.bind` chains follow the source order of statements and sub-expressions.",
                  "-/", "import Flowjaxv.Model.CtorPrims", "set_option linter.unusedVariables false", "namespace GenCtors", "open PyShape PyCtor", ""]
        by_lean = {f.lean: f for f in sheet.FUNCS}
        for fn in sheet.FUNCS:
            mark = len(self.out)
            try:
                node, cls, _ = self.find(fn)
                info = Tr(self, fn, node, cls).translate()
                self.check_bindings(fn)
                self.done[fn.pyname] = info
            except (Refuse, OSError, SyntaxError) as ex:
                del self.out[mark:]
                errors.append({"target": fn.lean, "error": f"{fn.file}::{fn.pyname}: {ex}"})
                self.emit(f"-- UNTRANSLATABLE {fn.lean}: {ex}\n")
        for c in sheet.CTORS:
            mark = len(self.out)
            try:
                c.init_py = by_lean[c.init].pyname if c.init else None
                c.check_py = by_lean[c.check].pyname
                self.ctor(c)
            except (Refuse, OSError, SyntaxError, KeyError) as ex:
                del self.out[mark:]
                errors.append({"target": c.lean, "error": f"{c.cls}: {ex}"})
                self.emit(f"-- UNTRANSLATABLE {c.lean}: {ex}\n")
        text = "\n".join(header + self.out + ["end GenCtors", ""])
        return {"text": text, "errors": errors, "targets": [f.lean for f in sheet.FUNCS] + [c.lean for c in sheet.CTORS]}


def generate(repo: str) -> dict:
    import importlib
    import targets_ctors
    importlib.reload(targets_ctors)
    return {targets_ctors.NAME: Gen(repo, targets_ctors).run()}


if __name__ == "__main__":
    import sys
    sys.path.insert(0, os.path.dirname(os.path.abspath(__file__)))
    r = generate(sys.argv[1] if len(sys.argv) > 1 else "/repo")["CtorsGen"]
    sys.stdout.write(r["text"])
    for e in r["errors"]:
        sys.stderr.write(f"REFUSED {e['target']}: {e['error']}\n")
