"""Typing sheet for the elementwise / scalar leaf bijections.

Elementwise classes (Affine, Loc, Scale, Exp, SoftPlus, Tanh, LeakyTanh) are translated
once for ONE array element: after the constructor's `broadcast_arrays`, `x * self.scale +
self.loc` acts per element and `.sum()` adds the per-element terms (`Jnp.sumElem` marks the
place; `Model/Elementwise.lean` does the lifting).  This sheet is trusted and is exercised by
the correspondence harness on arrays of several shapes.
"""
from py2lean import Struct, Target, S, V, B, I, T, R

NAME = "Leaves"
AF = "flowjax/bijections/affine.py"
TA = "flowjax/bijections/tanh.py"
RQ = "flowjax/bijections/rational_quadratic_spline.py"

Affine = Struct("Affine", [("loc", S), ("scale", S)], "Affine", AF)
Loc = Struct("Loc", [("loc", S)], "Loc", AF)
Scale = Struct("Scale", [("scale", S)], "Scale", AF)
LeakyTanh = Struct("LeakyTanh", [("max_val", S), ("intercept", S), ("linear_grad", S)], "LeakyTanh", TA, extra_ok=("shape",))
Unit = Struct("NoParams", [], None, None)
RQS = Struct("RationalQuadraticSpline", [("interval", T(S, S)), ("x_pos", V), ("y_pos", V), ("derivatives", V)],
             "RationalQuadraticSpline", RQ)

STRUCTS = [Affine, Loc, Scale, LeakyTanh, Unit, RQS]


def four(file, cls, struct, xs=("x", "x", "y", "y"), calls=None):
    out = []
    for m, xn in zip(("transform", "transform_and_log_det", "inverse", "inverse_and_log_det"), xs):
        ret = T(S, S) if m.endswith("log_det") else S
        out.append(Target(file, f"{cls}.{m}", f"{cls}.{m}", [(xn, S)], ret, selfstruct=struct, calls=dict(calls or {})))
    return out


tanh_calls = {"_tanh_log_grad": ("tanhLogGrad", S)}
leaky_calls = {
    "_tanh_log_grad": ("tanhLogGrad", S),
    "self.transform": ("LeakyTanh.transform self", S),
    "self.inverse": ("LeakyTanh.inverse self", S),
}
rqs_calls = {
    "self.transform": ("RationalQuadraticSpline.transform self", S),
    "self.inverse": ("RationalQuadraticSpline.inverse self", S),
    "self.derivative": ("RationalQuadraticSpline.derivative self", S),
}
sp_calls = {"self.inverse": ("SoftPlus.inverse self", S)}

rqs_t = four(RQ, "RationalQuadraticSpline", "RationalQuadraticSpline", calls=rqs_calls)
rqs_deriv = Target(RQ, "RationalQuadraticSpline.derivative", "RationalQuadraticSpline.derivative", [("x", S)], S,
                   selfstruct="RationalQuadraticSpline")

ORDER = (
    [Affine] + four(AF, "Affine", "Affine")
    + [Loc] + four(AF, "Loc", "Loc")
    + [Scale] + four(AF, "Scale", "Scale")
    + [Unit]
    + four("flowjax/bijections/exp.py", "Exp", "NoParams")
    + [t for t in four("flowjax/bijections/softplus.py", "SoftPlus", "NoParams", calls=sp_calls) if t.path.endswith(".inverse")]
    + [t for t in four("flowjax/bijections/softplus.py", "SoftPlus", "NoParams", calls=sp_calls) if not t.path.endswith(".inverse")]
    + [Target(TA, "_tanh_log_grad", "tanhLogGrad", [("x", S)], S)]
    + four(TA, "Tanh", "NoParams", calls=tanh_calls)
    + [LeakyTanh,
       Target(TA, "LeakyTanh.__init__", "LeakyTanh.init", [("max_val", S)], None, init_of="LeakyTanh", calls=tanh_calls)]
    + [t for t in four(TA, "LeakyTanh", "LeakyTanh", calls=leaky_calls) if not t.path.endswith("log_det")]
    + [t for t in four(TA, "LeakyTanh", "LeakyTanh", calls=leaky_calls) if t.path.endswith("log_det")]
    + [RQS, rqs_t[0], rqs_t[2], rqs_deriv, rqs_t[1], rqs_t[3]]
)
TARGETS = [t for t in ORDER if isinstance(t, Target)]
