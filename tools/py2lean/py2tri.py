"""py2tri: `TriangularAffine` (flowjax/bijections/affine.py) on list-of-rows matrices — a subclass of `py2nd.NTr` (itself a
subclass of `py2lean.Tr`) selected by the typing sheet `targets_triangular.py` through `TR = py2tri.TTr`.

Accepted beyond `py2nd`
  M @ v                                   a rank-2 array times a vector: `TriPrims.matVec`
  jnp.diag(M) / jnp.diag(v)               diagonal of a square matrix (`TriPrims.diag`) / diagonal matrix of a vector (`TriPrims.diagMat`)
  jnp.tril(M, k=<int literal>) / jnp.triu idem     `TriPrims.tril` / `TriPrims.triu` (the offset `k` is passed on as written)
  solve_triangular(M, v, lower=<bool>)    the hand primitive `TriPrims.solveTriangular` (forward / back substitution of
                                          `Model/Triangular.lean`); `solve_triangular` must be imported from `jax.scipy.linalg`
  a or b, a and b                         on Booleans
  <array of unknown rank>.ndim, .shape[k] `TriPrims.NdArr.ndim` / `.shapeGet`;   <matrix>.shape[0]  `List.length`
  wrappers.BijectionReparam(v, SoftPlus())   per element of the 1-d `v`: `Gen.Wr.BijectionReparam.init · SoftPlus.toBij` (the GENERATED
                                          constructor of Gen/Wrappers.lean; `_vectorize` is per element — same assertion as targets_wrappers)
  jnp.broadcast_to(v, (n,))               `TriPrims.broadcastTo` — may raise, so it is bound with `Except.bind`

EXCEPTION-VALUED constructors (`INIT_SPECS[<lean name>]`, filled by the sheet): the body becomes a term of
`Except PyShape.Err <record>`, statements in source order;
  `a, b = (arraylike_to_array(v, dtype=float) for v in (a, b))`   the identity on arrays (same names, same order — checked)
  `if <test>: raise E(…)`                 `if <test> then Except.error <E> else …`; when a disjunct of the test is `<name>.ndim != 2`
                                          the array `<name>` is a matrix in the rest of the body (`TriPrims.NdArr.asMat`)
  `def <nested>`                          must be a function the sheet lists in `nested` (translated as its own target)
  `self.f = wrappers.Lambda(<nested>, k1=e1, …)`   the keyword arguments are stored as fields `f_k1 …` (the function is the generated
                                          nested target; checked by name), every other `self.f = e` as field `f`
Every field the sheet lists must be set, nothing else may be set.
"""
from __future__ import annotations

import ast

import py2lean
import py2nd
from py2lean import Untranslatable, S, V, B, T, R
from py2nd import ND2

NDARR = "NDARR"
NAT = "Nat"
SHL = "SHL"  # a Python tuple of non-negative ints written as a display
py2lean.MAT_TYPES.update({NDARR: "TriPrims.NdArr α", SHL: "List Nat"})
py2lean.RECORD_TYPES.update({"Reparam": "Wr.BijectionReparam α α"})
REPL = ("L", R("Reparam"))

INIT_SPECS: dict[str, dict] = {}
EXC = {"ValueError": "PyShape.Err.valueError", "TypeError": "PyShape.Err.typeError"}


def EX(t):
    return ("EX", t)


class TTr(py2nd.NTr):
    # ------------------------------------------------------------------ expressions
    def _e(self, n, gen_ok=False):
        if isinstance(n, ast.BoolOp):
            parts = [self._e(v) for v in n.values]
            if any(t != B for _, t in parts):
                raise Untranslatable("and / or of non-Booleans")
            sym = " || " if isinstance(n.op, ast.Or) else " && "
            return "(" + sym.join(c for c, _ in parts) + ")", B
        if isinstance(n, ast.Attribute) and n.attr == "ndim":
            c, t = self._e(n.value)
            if t == NDARR:
                return f"(TriPrims.NdArr.ndim {c})", NAT
            raise Untranslatable(f".ndim of {t}")
        if (isinstance(n, ast.Subscript) and isinstance(n.value, ast.Attribute) and n.value.attr == "shape"
                and ast.unparse(n) not in self.tgt.consts):
            c, t = self._e(n.value.value)
            k = n.slice
            if not (isinstance(k, ast.Constant) and isinstance(k.value, int) and not isinstance(k.value, bool) and k.value >= 0):
                raise Untranslatable("shape index is not a non-negative literal")
            if t == NDARR:
                return f"(TriPrims.NdArr.shapeGet {c} {k.value})", NAT
            if t == ND2 and k.value == 0:
                return f"(List.length {c})", NAT
            raise Untranslatable(f".shape[{k.value}] of {t}")
        return super()._e(n, gen_ok)

    def binop(self, n):
        if isinstance(n.op, ast.MatMult):
            (a, ta), (b, tb) = self._e(n.left), self._e(n.right)
            if ta == ND2 and tb == V:
                return f"(TriPrims.matVec {a} {b})", V
            raise Untranslatable(f"matmul {ta} @ {tb}")
        return super().binop(n)

    def _imported_from(self, name, module):
        tree = self.module_tree
        for st in tree.body:
            if isinstance(st, ast.ImportFrom) and st.module == module and any((a.asname or a.name) == name and a.name == name for a in st.names):
                return True
        return False

    def _int_lit(self, node):
        try:
            v = ast.literal_eval(node)
        except ValueError:
            raise Untranslatable("offset is not an integer literal")
        if isinstance(v, bool) or not isinstance(v, int):
            raise Untranslatable("offset is not an integer literal")
        self.numerals.add(abs(v))
        return f"({v})" if v < 0 else str(v)

    def call(self, n: ast.Call):
        fn = ast.unparse(n.func)
        kws = {k.arg: k.value for k in n.keywords}
        if fn == "jnp.diag":
            if len(n.args) != 1 or n.keywords:
                raise Untranslatable("jnp.diag form")
            c, t = self._e(n.args[0])
            if t == ND2:
                return f"(TriPrims.diag {c})", V
            if t == V:
                return f"(TriPrims.diagMat {c})", ND2
            raise Untranslatable(f"jnp.diag of {t}")
        if fn in ("jnp.tril", "jnp.triu"):
            if len(n.args) == 2 and not kws:
                kk = n.args[1]
            elif len(n.args) == 1 and set(kws) <= {"k"}:
                kk = kws.get("k", ast.Constant(value=0))
            else:
                raise Untranslatable(f"{fn} form")
            c, t = self._e(n.args[0])
            if t != ND2:
                raise Untranslatable(f"{fn} of {t}")
            return f"(TriPrims.{fn[4:]} {c} {self._int_lit(kk)})", ND2
        if fn == "solve_triangular":
            if not self._imported_from("solve_triangular", "jax.scipy.linalg"):
                raise Untranslatable("solve_triangular is not jax.scipy.linalg.solve_triangular")
            if len(n.args) != 2 or set(kws) != {"lower"}:
                raise Untranslatable("solve_triangular form: expected (a, b, lower=…)")
            (a, ta), (b, tb), (lo, tl) = self._e(n.args[0]), self._e(n.args[1]), self._e(kws["lower"])
            if (ta, tb, tl) != (ND2, V, B):
                raise Untranslatable(f"solve_triangular({ta}, {tb}, lower={tl})")
            return f"(TriPrims.solveTriangular {a} {b} {lo})", V
        if fn == "wrappers.BijectionReparam":
            if (len(n.args) != 2 or n.keywords or not (isinstance(n.args[1], ast.Call) and ast.unparse(n.args[1]) == "SoftPlus()")):
                raise Untranslatable("wrappers.BijectionReparam form: expected (<1-d array>, SoftPlus())")
            if not self._imported_from("wrappers", "flowjax"):
                raise Untranslatable("wrappers is not flowjax.wrappers")
            c, t = self._e(n.args[0])
            if t != V:
                raise Untranslatable(f"BijectionReparam of {t}")
            return f"(List.map (fun v => Wr.BijectionReparam.init v SoftPlus.toBij) {c})", REPL
        if fn == "jnp.broadcast_to":
            if len(n.args) != 2 or n.keywords or not (isinstance(n.args[1], ast.Tuple) and len(n.args[1].elts) == 1):
                raise Untranslatable("jnp.broadcast_to form: expected (v, (n,))")
            (v, tv), (k, tk) = self._e(n.args[0]), self._e(n.args[1].elts[0])
            if tv != V or tk != NAT:
                raise Untranslatable(f"jnp.broadcast_to({tv}, ({tk},))")
            return f"(TriPrims.broadcastTo {v} {k})", EX(V)
        return super().call(n)

    # ------------------------------------------------------------------ exception-valued constructor bodies
    def body(self, stmts) -> str:
        if self.tgt.name in INIT_SPECS:
            return self.init_body(stmts, INIT_SPECS[self.tgt.name])
        return super().body(stmts)

    def _bind(self, out, name, c, t):
        if isinstance(t, tuple) and t[0] == "EX":
            out.append(f"Except.bind {c} fun {name} =>")
            return t[1]
        if t == "num":
            raise Untranslatable("untyped numeral stored")
        out.append(f"let {name} := {c}")
        return t

    def init_body(self, stmts, spec) -> str:
        out = []
        fields: dict[str, object] = {}
        nested_params: dict[str, list] = {}
        for st in stmts:
            if isinstance(st, ast.Expr) and isinstance(st.value, ast.Constant):
                continue
            if isinstance(st, ast.FunctionDef):
                if st.name not in spec["nested"]:
                    raise Untranslatable(f"nested function {st.name} is not a declared target")
                nested_params[st.name] = [a.arg for a in st.args.args]
                continue
            if isinstance(st, ast.If):
                if st.orelse or len(st.body) != 1 or not isinstance(st.body[0], ast.Raise):
                    raise Untranslatable("constructor `if`: only `if <test>: raise E(…)`")
                ex = st.body[0].exc
                e = ex.func if isinstance(ex, ast.Call) else ex
                if not (isinstance(e, ast.Name) and e.id in EXC):
                    raise Untranslatable("raise of " + ast.unparse(ex)[:40])
                c, t = self._e(st.test)
                if t != B:
                    raise Untranslatable("constructor `if`: test is not a Boolean")
                out.append(f"if {c} then Except.error {EXC[e.id]} else")
                disj = st.test.values if isinstance(st.test, ast.BoolOp) and isinstance(st.test.op, ast.Or) else [st.test]
                for d in disj:
                    if (isinstance(d, ast.Compare) and len(d.ops) == 1 and isinstance(d.ops[0], ast.NotEq)
                            and isinstance(d.left, ast.Attribute) and d.left.attr == "ndim" and isinstance(d.left.value, ast.Name)
                            and isinstance(d.comparators[0], ast.Constant) and d.comparators[0].value == 2
                            and self.env.get(d.left.value.id) == NDARR):
                        nm = d.left.value.id
                        out.append(f"let {nm} := TriPrims.NdArr.asMat {nm}")
                        self.env[nm] = ND2
                continue
            if not (isinstance(st, ast.Assign) and len(st.targets) == 1):
                raise Untranslatable(f"constructor statement {type(st).__name__}")
            tg, val = st.targets[0], st.value
            if isinstance(tg, ast.Tuple):
                # a, b = (arraylike_to_array(v, dtype=float) for v in (a, b))
                names = [e.id for e in tg.elts if isinstance(e, ast.Name)]
                ok = (isinstance(val, ast.GeneratorExp) and len(names) == len(tg.elts) and len(val.generators) == 1
                      and not val.generators[0].ifs and isinstance(val.generators[0].target, ast.Name)
                      and isinstance(val.generators[0].iter, ast.Tuple)
                      and [ast.unparse(e) for e in val.generators[0].iter.elts] == names
                      and ast.unparse(val.elt) == f"arraylike_to_array({val.generators[0].target.id}, dtype=float)"
                      and all(nm in self.env for nm in names))
                if not ok:
                    raise Untranslatable("tuple assignment other than `a, b = (arraylike_to_array(v, dtype=float) for v in (a, b))`")
                continue
            if isinstance(tg, ast.Name):
                c, t = self._e(val)
                self.env[tg.id] = self._bind(out, tg.id, c, t)
                continue
            if isinstance(tg, ast.Attribute) and isinstance(tg.value, ast.Name) and tg.value.id == "self":
                f = tg.attr
                if isinstance(val, ast.Call) and ast.unparse(val.func) == "wrappers.Lambda":
                    if (len(val.args) != 1 or not isinstance(val.args[0], ast.Name) or val.args[0].id not in spec["nested"]
                            or any(k.arg is None for k in val.keywords)):
                        raise Untranslatable("wrappers.Lambda form: expected (<declared nested function>, k=…, …)")
                    if nested_params.get(val.args[0].id) != [k.arg for k in val.keywords]:
                        raise Untranslatable(f"wrappers.Lambda: keyword arguments {[k.arg for k in val.keywords]} do not match {val.args[0].id}'s parameters")
                    for k in val.keywords:
                        c, t = self._e(k.value)
                        fields[f"{f}_{k.arg}"] = self._bind(out, f"self_{f}_{k.arg}", c, t)
                    continue
                if isinstance(val, ast.Tuple) and dict(spec["fields"]).get(f) == SHL:
                    elts = [self._e(e) for e in val.elts]
                    if any(t != NAT for _, t in elts):
                        raise Untranslatable("shape display with a non-size element")
                    c, t = "[" + ", ".join(c for c, _ in elts) + "]", SHL
                else:
                    c, t = self._e(val)
                fields[f] = self._bind(out, f"self_{f}", c, t)
                continue
            raise Untranslatable("constructor assignment target " + ast.unparse(tg))
        want = dict(spec["fields"])
        if fields != want:
            raise Untranslatable(f"constructor sets {fields}, the sheet declares {want}")
        out.append("Except.ok { " + ", ".join(f"{f} := self_{f}" for f, _ in spec["fields"]) + " }")
        return "\n  ".join(out)
