"""py2ast: second output of the translator for the SCALAR kernels — a deep-embedded `Ad.Expr N`
(lean/Flowjaxv/Model/Ad.lean) generated from the same Python AST, used by C18 (reverse-mode model).

Conventions (recorded in the generated file's header):
  * each kernel becomes `def <Name>.ast {N} [Ad.Num N] (x : Ad.Expr N) : Ad.Expr N` (or a pair for the
    `…_and_log_det` methods); the argument is an expression (callers pass a variable);
  * scalar fields of `self` are variables `Expr.var <id>`, vector fields are vector ids; the id tables are
    emitted as `def <Struct>.ids`;
  * let-bound scalars get fresh ids in a per-definition range, masks and integer indices are Lean-level
    closures over the environment (they carry no gradient).
"""
from __future__ import annotations

import ast
import decimal
import glob
import importlib.util
import math
import os

import types

import py2lean
from py2lean import Untranslatable, S, V, B, I, find_def

VE = "VE"  # a 1-d array as a Lean `List (Expr N)` (vector kernels: Planar, mixtures)
ME = "ME"  # a square 2-d array as a Lean `List (List (Expr N))` (TriangularAffine)

PRIMS = {
    "jnp.abs": "abs", "jnp.sign": "sign", "jnp.tanh": "tanh", "jnp.arctanh": "artanh", "jnp.sqrt": "sqrt",
    "jnp.log": "log", "jnp.exp": "exp", "jnp.expm1": "expm1", "softplus": "softplus", "jax.nn.softplus": "softplus",
    "nn.softplus": "softplus", "math.exp": "exp", "math.tanh": "tanh",
    # jax.lax spellings (used by the jax.scipy.stats sources) and the primitives added for the distribution families
    "lax.abs": "abs", "lax.sign": "sign", "lax.tanh": "tanh", "lax.sqrt": "sqrt", "lax.log": "log", "lax.exp": "exp",
    "lax.expm1": "expm1", "lax.log1p": "log1p", "jnp.log1p": "log1p", "lax.square": "square", "jnp.square": "square",
    "lax.lgamma": "lgamma", "nn.relu": "relu", "jax.nn.relu": "relu",
}
LAX_BIN = {"lax.add": ast.Add, "lax.sub": ast.Sub, "lax.mul": ast.Mult, "lax.div": ast.Div}
LAX_CMP = {"lax.gt": ast.Gt, "lax.lt": ast.Lt, "lax.ge": ast.GtE, "lax.le": ast.LtE, "lax.eq": ast.Eq}
CONSTS = {"np.pi": math.pi, "jnp.pi": math.pi, "math.pi": math.pi, "np.inf": math.inf, "jnp.inf": math.inf, "math.inf": math.inf}


def source_root(repo, root):
    """`root=None`: the repository.  `root="jax"`: the installed JAX package (its `jax.scipy.stats.*.logpdf` bodies are
    what `jax.grad` differentiates when flowjax calls them) — located without importing it."""
    if root is None:
        return repo
    if root == "jax":
        spec = importlib.util.find_spec("jax")
        if spec is not None and spec.submodule_search_locations:
            return os.path.dirname(list(spec.submodule_search_locations)[0])
        hits = sorted(glob.glob("/venv/lib/python3*/site-packages/jax"))
        if hits:
            return os.path.dirname(hits[0])
        raise Untranslatable("installed jax package not found")
    raise Untranslatable(f"unknown source root {root}")


class VecCode(str):
    """Lean code of type `List (Expr N)` (a 1-d array result)"""


class MatCode(str):
    """Lean code of type `List (List (Expr N))` (a 2-d array result)"""


class StructIds:
    """flatten a struct's fields into scalar variable ids (1..) and vector ids (0..)"""

    def __init__(self, fields):
        self.scalar, self.vec = {}, {}
        sid, vid = 1, 0
        for name, ty in fields:
            if ty == S:
                self.scalar[name] = sid; sid += 1
            elif ty == V:
                self.vec[name] = vid; vid += 1
            elif isinstance(ty, tuple) and ty[0] == "T" and all(t == S for t in ty[1:]):
                for k in range(len(ty) - 1):
                    self.scalar[f"{name}.{k}"] = sid; sid += 1
            else:
                raise Untranslatable(f"field {name}: type {ty} not supported in AST mode")


class AstTr:
    def __init__(self, name, selfids: StructIds | None, calls, base_id, init_mode=False, field_params=None, ignore_args=()):
        self.name, self.ids, self.calls = name, selfids, calls
        self.field_params = field_params  # scalar fields of `self` passed as expression parameters `self_<field>`
        self.ignore_args = tuple(ignore_args)  # argument names dropped at call sites (`condition` of unconditional kernels)
        self.vec_mode = False  # 1-d arrays as `List (Expr N)` allowed
        self.vec_field_params = ()  # vector fields of `self` passed as parameters `self_<field> : List (Expr N)`
        self.dim = None      # name of the Lean `Nat` parameter holding the length of the vector fields (vector kernels only)
        self.config = {}     # static string fields fixed by the specialisation: {"activation": "leaky_relu"}
        self.cfg_fns = {}    # callable fields bound by `__init__` in that specialisation: {"activation_fn": <ast>}
        self.next_id = base_id
        self.env = {}  # python name -> (kind, payload): ("S", code) | ("B", code) | ("I", code) | ("V", vec id)
        self.lets = []  # list of ("S", id, code) | ("M", leanname, type, code)
        self.selfvals = {}
        self.init_mode = init_mode
        self.mat_field_params = ()  # 2-d fields of `self` passed as parameters `self_<field> : List (List (Expr N))`
        self.static = {}  # static boolean fields / closure variables fixed by the specialisation (checked against `__init__`)
        self.guard_args = None  # arguments that `if …: raise` guards may test (static, constructor-time values)
        self.guards = []

    def fresh(self):
        self.next_id += 1
        return self.next_id

    # ------------------------------------------------------------ expressions
    def num(self, v):
        if isinstance(v, bool):
            raise Untranslatable("bool literal")
        if isinstance(v, float) and math.isnan(v):
            raise Untranslatable("nan literal")
        if isinstance(v, float) and math.isinf(v):
            return "(Expr.const Num.inf)" if v > 0 else "(Expr.const (-Num.inf))"
        if isinstance(v, int) or (isinstance(v, float) and v == int(v) and abs(v) < 1e6):
            return f"(Expr.const (Num.ofInt ({int(v)})))"
        if isinstance(v, float):
            # shortest round-trip decimal of the double, as `Num.ofSci mantissa negativeExponent exponent`
            sign, digits, exp = decimal.Decimal(repr(v)).as_tuple()
            m = int("".join(map(str, digits)))
            lit = f"(Num.ofSci {m} true {-exp})" if exp < 0 else f"(Num.ofSci {m} false {exp})"
            return f"(Expr.const (-{lit}))" if sign else f"(Expr.const {lit})"
        raise Untranslatable(f"literal {v!r} in AST mode")

    def ev(self, code):
        return f"(Expr.eval env {code})"

    def e(self, n):
        """returns (kind, code)"""
        if isinstance(n, ast.Constant):
            if isinstance(n.value, (int, float)) and not isinstance(n.value, bool):
                return "num", n.value
            raise Untranslatable("constant")
        if isinstance(n, ast.Name):
            if n.id in self.env:
                return self.env[n.id]
            raise Untranslatable(f"unbound {n.id} ({self.name})")
        if isinstance(n, ast.Attribute) and ast.unparse(n) in CONSTS:
            return "num", CONSTS[ast.unparse(n)]
        if isinstance(n, ast.Attribute) and n.attr == "size" and self.vec_mode and isinstance(n.value, ast.Name) \
                and self.env.get(n.value.id, (None,))[0] == VE:
            return S, f"(Vec.sizeE {self.env[n.value.id][1]})"
        if isinstance(n, ast.Attribute):
            if isinstance(n.value, ast.Name) and n.value.id == "self":
                if self.init_mode:
                    if n.attr in self.selfvals:
                        return self.selfvals[n.attr]
                    raise Untranslatable(f"self.{n.attr} read before set")
                if self.field_params is not None and n.attr in self.field_params:
                    return S, f"self_{n.attr}"
                if n.attr in self.vec_field_params:
                    return VE, f"self_{n.attr}"
                if n.attr in self.mat_field_params:
                    return ME, f"self_{n.attr}"
                if n.attr in self.static:
                    return "STATIC", self.static[n.attr]
                if self.ids is None:
                    raise Untranslatable("attribute " + ast.unparse(n))
                if n.attr in self.ids.scalar:
                    return S, f"(Expr.var {self.ids.scalar[n.attr]})"
                if n.attr in self.ids.vec:
                    return V, self.ids.vec[n.attr]
                if any(k.startswith(n.attr + ".") for k in self.ids.scalar):
                    return "TUP", n.attr
            raise Untranslatable("attribute " + ast.unparse(n))
        if isinstance(n, ast.Subscript):
            k, c = self.e(n.value)
            if k == "TUP":
                if isinstance(n.slice, ast.Constant):
                    return S, f"(Expr.var {self.ids.scalar[f'{c}.{n.slice.value}']})"
                raise Untranslatable("tuple index")
            if k == "TUPA":
                # a tuple ARGUMENT of statically known length (`interval`): its components are expression parameters
                if isinstance(n.slice, ast.Constant) and isinstance(n.slice.value, int) and 0 <= n.slice.value < len(c):
                    return S, c[n.slice.value]
                raise Untranslatable("tuple argument index")
            if k == VE and self.vec_mode:
                if isinstance(n.slice, ast.Constant) and isinstance(n.slice.value, int) and not isinstance(n.slice.value, bool) and n.slice.value >= 0:
                    return S, f"(Vec.getAt {c} {n.slice.value})"
                raise Untranslatable("array index that is not a static non-negative integer")
            if k == V:
                ik, ic = self.e(n.slice)
                if ik == "num":
                    ic = f"({int(ic)} : Int)"
                elif ik != I:
                    raise Untranslatable("vector index kind " + str(ik))
                return S, f"(Expr.get {c} (fun env => {ic}))"
            raise Untranslatable("subscript")
        if isinstance(n, ast.UnaryOp) and isinstance(n.op, ast.USub):
            k, c = self.e(n.operand)
            if k == "num":
                return "num", -c
            if k == S:
                return S, f"(Expr.neg {c})"
            if k == I:
                return I, f"(-{c})"
            raise Untranslatable("neg")
        if isinstance(n, ast.BinOp):
            if isinstance(n.op, ast.Pow):
                if isinstance(n.right, ast.Constant) and n.right.value == 2:
                    k, c = self.sc(n.left)
                    return S, f"(Expr.mul {c} {c})"
                raise Untranslatable("pow")
            if isinstance(n.op, ast.MatMult):
                lk, lc = self.e(n.left)
                if lk == ME:
                    return VE, f"(Mat.mulVec {lc} {self.ve(n.right)})"
                return S, f"(Vec.dot {self.as_ve((lk, lc))} {self.ve(n.right)})"
            return self.binop(type(n.op), self.e(n.left), self.e(n.right))
        if isinstance(n, ast.Compare):
            if len(n.ops) != 1:
                raise Untranslatable("chained compare")
            return self.compare(type(n.ops[0]), n.left, n.comparators[0])
        if isinstance(n, ast.IfExp):
            tk, tc = self.e(n.test)
            if tk != "STATIC":
                raise Untranslatable("conditional expression on a non-static test")
            return self.e(n.body if tc else n.orelse)
        if isinstance(n, ast.Call):
            return self.call(n)
        raise Untranslatable(ast.dump(n)[:80])

    def as_ve(self, kc):
        k, c = kc
        if k == VE:
            return c
        if k == V:
            if self.dim is None:
                raise Untranslatable("vector field used as an array without a dimension parameter")
            return f"(Vec.ofVec {c} {self.dim})"
        raise Untranslatable(f"expected a 1-d array, got {k}")

    def ve(self, n):
        return self.as_ve(self.e(n))

    def binop(self, opty, a, b):
        op = {ast.Add: "add", ast.Sub: "sub", ast.Mult: "mul", ast.Div: "div"}.get(opty)
        if op is None:
            raise Untranslatable("binop")
        if a[0] == ME or b[0] == ME:
            if a[0] == ME and b[0] == ME and op == "add":
                return ME, f"(Mat.add {a[1]} {b[1]})"
            raise Untranslatable(f"matrix binop {op} {a[0]} {b[0]}")
        if self.vec_mode and (a[0] in (VE, V) or b[0] in (VE, V)):
            # NumPy broadcasting of 1-d arrays of the same length with scalars
            if a[0] in (VE, V) and b[0] in (VE, V):
                return VE, f"(Vec.zip Expr.{op} {self.as_ve(a)} {self.as_ve(b)})"
            if a[0] in (VE, V):
                if b[0] not in ("num", S):
                    raise Untranslatable(f"binop kinds {a[0]} {b[0]}")
                bc = self.num(b[1]) if b[0] == "num" else b[1]
                return VE, f"(Vec.mapR Expr.{op} {self.as_ve(a)} {bc})"
            if a[0] not in ("num", S):
                raise Untranslatable(f"binop kinds {a[0]} {b[0]}")
            ac = self.num(a[1]) if a[0] == "num" else a[1]
            return VE, f"(Vec.mapL Expr.{op} {ac} {self.as_ve(b)})"
        if a[0] == "num" and b[0] == "num":
            # Python-level constant arithmetic (e.g. `2 * np.pi`): the same IEEE double operation NumPy performs
            x, y = a[1], b[1]
            try:
                return "num", {"add": x + y, "sub": x - y, "mul": x * y, "div": (x / y if op == "div" else None)}[op]
            except ZeroDivisionError:
                raise Untranslatable("constant division by zero")
        if I in (a[0], b[0]):
            if op == "div":
                raise Untranslatable("int div")
            sym = {"add": "+", "sub": "-", "mul": "*"}[op]
            ac = f"({int(a[1])} : Int)" if a[0] == "num" else a[1]
            bc = f"({int(b[1])} : Int)" if b[0] == "num" else b[1]
            return I, f"({ac} {sym} {bc})"
        ac = self.num(a[1]) if a[0] == "num" else a[1]
        bc = self.num(b[1]) if b[0] == "num" else b[1]
        if a[0] not in ("num", S) or b[0] not in ("num", S):
            raise Untranslatable(f"binop kinds {a[0]} {b[0]}")
        return S, f"(Expr.{op} {ac} {bc})"

    def compare(self, op, left, right):
        a, b = self.sc(left), self.sc(right)
        ea, eb = self.ev(a[1]), self.ev(b[1])
        code = {ast.GtE: f"(Num.le {eb} {ea})", ast.LtE: f"(Num.le {ea} {eb})", ast.Lt: f"(Num.lt {ea} {eb})",
                ast.Gt: f"(Num.lt {eb} {ea})", ast.Eq: f"(Num.beq {ea} {eb})"}.get(op)
        if code is None:
            raise Untranslatable("compare op")
        return B, code

    def sc(self, n):
        k, c = self.e(n)
        if k == "num":
            return S, self.num(c)
        if k != S:
            raise Untranslatable(f"expected scalar, got {k}")
        return S, c

    def call(self, n):
        fn = ast.unparse(n.func)
        if isinstance(n.func, ast.Attribute) and n.func.attr == "sum" and not n.args and fn not in self.calls:
            if self.vec_mode:
                k0, c0 = self.e(n.func.value)
                if k0 in (VE, V):
                    return S, f"(Vec.sum {self.as_ve((k0, c0))})"
                if k0 == "num":
                    return S, self.num(c0)
                if k0 == S:
                    return S, c0
                raise Untranslatable(".sum() of " + str(k0))
            return self.sc(n.func.value)
        if fn == "jnp.diag" and self.vec_mode and len(n.args) == 1 and not n.keywords:
            k0, c0 = self.e(n.args[0])
            if k0 == ME:
                return VE, f"(Mat.diag {c0})"
            return ME, f"(Mat.diagM {self.as_ve((k0, c0))})"
        if fn == "jnp.tril" and self.vec_mode and len(n.args) == 1:
            k0, c0 = self.e(n.args[0])
            kw = {k.arg: k.value for k in n.keywords}
            if k0 != ME or set(kw) - {"k"}:
                raise Untranslatable("jnp.tril")
            kk = self.e(kw["k"]) if "k" in kw else ("num", 0)
            if kk[0] != "num" or kk[1] != int(kk[1]):
                raise Untranslatable("jnp.tril with a non-static k")
            return ME, f"(Mat.tril {c0} ({int(kk[1])}))"
        if fn == "solve_triangular" and self.vec_mode and len(n.args) == 2:
            kw = {k.arg: k.value for k in n.keywords}
            if set(kw) != {"lower"}:
                raise Untranslatable("solve_triangular: only the `lower` keyword is modelled")
            lk, lv = self.e(kw["lower"])
            if lk != "STATIC" or lv is not True:
                raise Untranslatable("solve_triangular with lower != True is not modelled")
            k0, c0 = self.e(n.args[0])
            if k0 != ME:
                raise Untranslatable("solve_triangular of a non-matrix")
            return VE, f"(Mat.solveLower {c0} {self.ve(n.args[1])})"
        if fn in ("jnp.sum", "float", "jnp.asarray", "jnp.array"):
            return self.sc(n.args[0])
        if fn == "numpy_util.ensure_arraylike" and len(n.args) == 2 and not n.keywords:
            return self.sc(n.args[1])  # argument check only
        if fn == "jnp.zeros":
            return S, self.num(0)
        if fn in PRIMS:
            if len(n.args) != 1 or n.keywords:
                raise Untranslatable(f"primitive {fn} with extra arguments")
            if self.vec_mode:
                k0, c0 = self.e(n.args[0])
                if k0 in (VE, V):  # elementwise on a 1-d array
                    return VE, f"(Vec.mapE (fun e_ => Expr.prim Prim.{PRIMS[fn]} e_) {self.as_ve((k0, c0))})"
            k, c = self.sc(n.args[0])
            return S, f"(Expr.prim Prim.{PRIMS[fn]} {c})"
        if fn == "jnp.cumsum" and self.vec_mode and len(n.args) == 1 and not n.keywords:
            return VE, f"(Vec.cumsum {self.ve(n.args[0])})"
        if fn == "jnp.pad" and self.vec_mode and len(n.args) == 1:
            kw = {k.arg: k.value for k in n.keywords}
            if set(kw) != {"pad_width", "constant_values"} or not (isinstance(kw["pad_width"], ast.Constant) and kw["pad_width"].value == 1):
                raise Untranslatable("jnp.pad other than pad_width=1 with constant_values")
            ck, cc = self.e(kw["constant_values"])
            if ck != "TUPA" or len(cc) != 2:
                raise Untranslatable("jnp.pad constant_values must be a pair")
            return VE, f"(Vec.pad1 {self.ve(n.args[0])} {cc[0]} {cc[1]})"
        if (isinstance(n.func, ast.Attribute) and n.func.attr == "set" and isinstance(n.func.value, ast.Subscript)
                and isinstance(n.func.value.value, ast.Attribute) and n.func.value.value.attr == "at" and self.vec_mode
                and len(n.args) == 1 and not n.keywords):
            # `a.at[i].set(v)` with a static index
            idx = n.func.value.slice
            if not (isinstance(idx, ast.Constant) and isinstance(idx.value, int) and not isinstance(idx.value, bool) and idx.value >= 0):
                raise Untranslatable(".at[i].set with a non-static index")
            return VE, f"(Vec.setAt {self.ve(n.func.value.value.value)} {idx.value} {self.sc(n.args[0])[1]})"
        if fn in LAX_BIN and len(n.args) == 2 and not n.keywords:
            return self.binop(LAX_BIN[fn], self.e(n.args[0]), self.e(n.args[1]))
        if fn == "lax.neg" and len(n.args) == 1:
            k, c = self.e(n.args[0])
            if k == "num":
                return "num", -c
            if k != S:
                raise Untranslatable("lax.neg")
            return S, f"(Expr.neg {c})"
        if fn in LAX_CMP and len(n.args) == 2:
            return self.compare(LAX_CMP[fn], n.args[0], n.args[1])
        if fn == "_lax_const" and len(n.args) == 2:
            # `_lax_const(x, c)`: the Python constant `c` in the dtype of `x`
            k, c = self.e(n.args[1])
            if k != "num":
                raise Untranslatable("_lax_const of a non-constant")
            return "num", c
        if fn == "jnp.isnan" and len(n.args) == 1:
            a = self.sc(n.args[0])
            return B, f"(Num.isNaN {self.ev(a[1])})"
        if fn == "jnp.logaddexp" and len(n.args) == 2:
            a, b = self.sc(n.args[0]), self.sc(n.args[1])
            return S, f"(Expr.bin Prim2.logaddexp {a[1]} {b[1]})"
        if fn == "jnp.logical_or":
            a, b = self.e(n.args[0]), self.e(n.args[1])
            if a[0] != B or b[0] != B:
                raise Untranslatable("logical_or")
            return B, f"({a[1]} || {b[1]})"
        if fn == "jnp.where":
            ck, cc = self.e(n.args[0])
            if ck != B:
                raise Untranslatable("where cond")
            a, b = self.sc(n.args[1]), self.sc(n.args[2])
            return S, f"(Expr.sel (fun env => {cc}) {a[1]} {b[1]})"
        if fn == "jnp.logical_not" and len(n.args) == 1 and not n.keywords:
            a = self.e(n.args[0])
            if a[0] != B:
                raise Untranslatable("logical_not")
            return B, f"(!{a[1]})"
        if fn == "jnp.logical_and":
            a, b = self.e(n.args[0]), self.e(n.args[1])
            if a[0] != B or b[0] != B:
                raise Untranslatable("logical_and")
            return B, f"({a[1]} && {b[1]})"
        if fn == "jnp.clip":
            k0, c0 = self.e(n.args[0])
            if k0 == I:
                lo, hi = self.e(n.args[1]), self.e(n.args[2])
                loc = f"({int(lo[1])} : Int)" if lo[0] == "num" else lo[1]
                hic = f"({int(hi[1])} : Int)" if hi[0] == "num" else hi[1]
                return I, f"(Jnp.clipInt {c0} {loc} {hic})"
            x, lo, hi = self.sc(n.args[0]), self.sc(n.args[1]), self.sc(n.args[2])
            # jnp.clip(x, lo, hi) = minimum(maximum(x, lo), hi)
            return S, f"(Expr.min (Expr.max {x[1]} {lo[1]}) {hi[1]})"
        if fn == "jnp.searchsorted":
            vk, vc = self.e(n.args[0])
            x = self.sc(n.args[1])
            if vk != V:
                raise Untranslatable("searchsorted vec")
            return I, f"(Ad.searchsorted (env.v {vc}) {self.ev(x[1])})"
        if fn == "len":
            vk, vc = self.e(n.args[0])
            if vk != V:
                raise Untranslatable("len")
            return I, f"(((env.v {vc}).length : Nat) : Int)"
        if fn in ("norm", "jnp.linalg.norm") and len(n.args) == 1 and not n.keywords and self.vec_mode:
            return S, f"(Vec.norm {self.ve(n.args[0])})"
        if fn.startswith("self.") and fn[5:] in self.cfg_fns:
            return self.config_call(n, self.cfg_fns[fn[5:]])
        if fn in self.calls:
            return self.user_call(n, fn)
        import inline
        ex = inline.expand_call(n, getattr(self, "helpers", {}))
        if ex is not None:
            return self.e(ex)
        raise Untranslatable(f"call {fn} ({self.name})")

    def config_call(self, n, bound):
        """`self.<fn>(args)` where `__init__` binds the field (in this specialisation) to `bound`: a function name, or
        `partial(f, kw=ctor_arg)` with the constructor argument stored unchanged in `self.<ctor_arg>` (checked by
        `py2lean.resolve_config`)."""
        if n.keywords:
            raise Untranslatable("keywords in a call of a configured function field")
        if isinstance(bound, (ast.Name, ast.Attribute)):
            return self.e(ast.Call(func=bound, args=list(n.args), keywords=[]))
        if isinstance(bound, ast.Call) and ast.unparse(bound.func) == "partial" and len(bound.args) == 1:
            kws = []
            for k in bound.keywords:
                if not isinstance(k.value, ast.Name):
                    raise Untranslatable("partial keyword value")
                kws.append(ast.keyword(arg=k.arg, value=ast.Attribute(value=ast.Name(id="self", ctx=ast.Load()), attr=k.value.id, ctx=ast.Load())))
            return self.e(ast.Call(func=bound.args[0], args=list(n.args), keywords=kws))
        raise Untranslatable("configured function field bound to " + ast.unparse(bound))

    def user_call(self, n, fn):
        """call of another generated AST function.  `calls[fn]` is its Lean name, or `(name, [parameter names])` when
        keyword arguments must be put in positional order, or `(name, params, "pair")` when it returns a pair."""
        callee = self.calls[fn]
        params, pair = None, False
        if isinstance(callee, tuple):
            callee, params = callee[0], callee[1]
            pair = len(self.calls[fn]) > 2 and self.calls[fn][2] == "pair"
        pos = [a for a in n.args if not (isinstance(a, ast.Name) and a.id in self.ignore_args)]

        def arg(a):
            k, c = self.e(a)
            if k in (VE, V) and self.vec_mode:
                return self.as_ve((k, c))
            return self.sc(a)[1]
        args = [arg(a) for a in pos]
        kws = [k for k in n.keywords if k.arg not in self.ignore_args]
        if kws:
            if params is None:
                raise Untranslatable(f"keyword arguments in call {fn}")
            for name in params[len(args):]:
                hit = [k for k in kws if k.arg == name]
                if len(hit) != 1:
                    raise Untranslatable(f"call {fn}: argument {name} missing")
                args.append(arg(hit[0].value))
            if len(args) != len(params):
                raise Untranslatable(f"call {fn}: arity")
        elif params is not None and len(args) != len(params):
            raise Untranslatable(f"call {fn}: arity")
        kind = S
        if isinstance(self.calls[fn], tuple) and len(self.calls[fn]) > 2:
            kind = {"pair": "PAIR", "vec": VE}[self.calls[fn][2]]
        return kind, "(" + " ".join([callee] + args) + ")"

    # ------------------------------------------------------------ statements
    def bind(self, name, kind, code):
        if kind == "num":
            kind, code = S, self.num(code)
        if kind == S:
            # bind complex expressions to a variable to preserve sharing
            if code.startswith("(Expr.var ") or code.startswith("(Expr.const "):
                self.env[name] = (S, code)
            else:
                i = self.fresh()
                self.lets.append(("S", i, code))
                self.env[name] = (S, f"(Expr.var {i})")
        elif kind in (B, I):
            ln = f"{name}_{len(self.lets)}"
            ty = "Bool" if kind == B else "Int"
            self.lets.append(("M", ln, ty, code))
            self.env[name] = (kind, f"({ln} env)")
        elif kind == V:
            self.env[name] = (V, code)
        elif kind == VE:
            ln = f"{name}_{len(self.lets)}"
            self.lets.append(("L", ln, code))
            self.env[name] = (VE, ln)
        elif kind in ("TUP", "TUPA"):
            self.env[name] = (kind, code)
        elif kind == ME:
            ln = f"{name}_{len(self.lets)}"
            self.lets.append(("L2", ln, code))
            self.env[name] = (ME, ln)
        else:
            raise Untranslatable("bind kind " + str(kind))

    def stmts(self, body):
        ret = None
        for st in body:
            if isinstance(st, ast.Expr) and isinstance(st.value, ast.Constant):
                continue
            if isinstance(st, ast.Assign) and len(st.targets) == 1:
                t = st.targets[0]
                if isinstance(t, ast.Name):
                    k, c = self.e(st.value)
                    self.bind(t.id, k, c)
                elif isinstance(t, ast.Tuple) and isinstance(st.value, ast.Tuple) and len(t.elts) == len(st.value.elts):
                    vals = [self.e(v) for v in st.value.elts]
                    for nm, (k, c) in zip(t.elts, vals):
                        self.bind(nm.id, k, c)
                elif (isinstance(t, ast.Tuple) and isinstance(st.value, ast.Call)
                      and ast.unparse(st.value.func) == "promote_args_inexact" and len(st.value.args) == len(t.elts) + 1
                      and all(isinstance(a, ast.Name) and isinstance(nm, ast.Name) and a.id == nm.id
                              for a, nm in zip(st.value.args[1:], t.elts))):
                    # `x, loc = promote_args_inexact("name", x, loc)`: dtype promotion only (float64 throughout)
                    pass
                elif (isinstance(t, ast.Tuple) and len(t.elts) == 2 and isinstance(st.value, ast.Call)
                      and ast.unparse(st.value.func) in self.calls):
                    k, c = self.e(st.value)
                    if k != "PAIR":
                        raise Untranslatable("tuple assignment from a non-pair call")
                    self.bind(t.elts[0].id, S, f"{c}.1")
                    self.bind(t.elts[1].id, S, f"{c}.2")
                elif self.init_mode and isinstance(t, ast.Attribute) and isinstance(t.value, ast.Name) and t.value.id == "self":
                    k, c = self.e(st.value)
                    if k == "num":
                        k, c = S, self.num(c)
                    self.selfvals[t.attr] = (k, c)
                else:
                    raise Untranslatable("assign form")
                continue
            if isinstance(st, ast.Return):
                vals = list(st.value.elts) if isinstance(st.value, ast.Tuple) else [st.value]
                ret = []
                for v in vals:
                    k, c = self.e(v)
                    if k in (VE, V) and self.vec_mode:
                        ret.append(VecCode(self.as_ve((k, c))))
                    elif k == ME:
                        ret.append(MatCode(c))
                    else:
                        ret.append(self.sc(v)[1])
                continue
            if isinstance(st, ast.If) and isinstance(st.test, ast.Name) and self.env.get(st.test.id, (None,))[0] == "STATIC":
                # `if pad_with_ends:` on a parameter left at its (boolean) default
                r = self.stmts(st.body if self.env[st.test.id][1] else st.orelse)
                if r is not None:
                    ret = r
                continue
            if (isinstance(st, ast.If) and not st.orelse and len(st.body) == 1 and isinstance(st.body[0], ast.Raise)
                    and self.guard_args is not None):
                # `if <test on arguments>: raise …`: an argument check of a constructor-time (untraced) value; recorded as a
                # precondition of the generated definition (its negation is a hypothesis of the theorems)
                names = {x.id for x in ast.walk(st.test) if isinstance(x, ast.Name)}
                if not names or not names <= set(self.guard_args):
                    raise Untranslatable("raise-guard on something that is not a declared static argument")
                self.guards.append(ast.unparse(st.test))
                continue
            if isinstance(st, ast.If) and self.config:
                # `if self.<field> == "<value>":` on a static string field fixed by the specialisation
                t = st.test
                if (isinstance(t, ast.Compare) and len(t.ops) == 1 and isinstance(t.ops[0], (ast.Eq, ast.NotEq))
                        and isinstance(t.left, ast.Attribute) and isinstance(t.left.value, ast.Name) and t.left.value.id == "self"
                        and t.left.attr in self.config and isinstance(t.comparators[0], ast.Constant)):
                    truth = (self.config[t.left.attr] == t.comparators[0].value) == isinstance(t.ops[0], ast.Eq)
                    r = self.stmts(st.body if truth else st.orelse)
                    if r is not None:
                        ret = r
                    continue
                raise Untranslatable("if on a non-static condition")
            if isinstance(st, ast.Raise):
                raise Untranslatable("the method raises unconditionally in this specialisation")
            raise Untranslatable("statement " + type(st).__name__)
        return ret

    def wrap(self, code):
        """wrap a result expression in the recorded scalar lets (innermost last); a 1-d array result element by element"""
        if isinstance(code, MatCode):
            if any(l[0] == "S" for l in self.lets):
                raise Untranslatable("scalar lets around a matrix result")
            return str(code)
        if isinstance(code, VecCode):
            if not any(l[0] == "S" for l in self.lets):
                return str(code)
            return f"(Vec.mapE (fun e_ => {self.wrap('e_')}) {code})"
        out = code
        for l in reversed(self.lets):
            if l[0] == "S":
                out = f"(Expr.letE {l[1]} {l[2]}\n    {out})"
        return out

    def metas(self):
        out = ""
        for l in self.lets:
            if l[0] == "M":
                out += f"  let {l[1]} : Env N → {l[2]} := fun env => {l[3]}\n"
            elif l[0] == "L":
                out += f"  let {l[1]} : List (Expr N) := {l[2]}\n"
            elif l[0] == "L2":
                out += f"  let {l[1]} : List (List (Expr N)) := {l[2]}\n"
        return out


HEADER = """/-
GENERATED by tools/py2lean (py2ast) from /repo on every run — do not edit.
Deep embedding of the scalar kernels for the reverse-mode model (C18).
Variable ids: 0 = the input; scalar fields of `self` from 1 (see the `…Ids` comments); let-bound
intermediates from <k>000 per definition.  Vector fields are vector ids from 0.
-/
import Flowjaxv.Model.Ad
set_option linter.unusedVariables false
namespace GenAst
open Ad
variable {N : Type} [Num N]

"""


def check_static(tree, sp) -> dict:
    """`static = {"lower": True}`: the class `<C>` of `path = "<C>.<method>…"` annotates the field as `bool`, `__init__` takes an argument
    of that name whose default is the given value and stores it unchanged (`self.lower = lower`).  The specialisation covers
    objects built with that value; inside `__init__` the same name is the closure variable."""
    st = dict(sp.get("static", {}))
    if not st:
        return {}
    cname = sp["path"].split(".")[0]
    cls = find_def(tree, cname)
    init = find_def(tree, cname + ".__init__")
    allargs = init.args.posonlyargs + init.args.args
    defaults = dict(zip([a.arg for a in allargs][len(allargs) - len(init.args.defaults):], init.args.defaults))
    defaults.update({a.arg: d for a, d in zip(init.args.kwonlyargs, init.args.kw_defaults) if d is not None})
    for f, v in st.items():
        anns = [x for x in cls.body if isinstance(x, ast.AnnAssign) and isinstance(x.target, ast.Name) and x.target.id == f]
        if len(anns) != 1 or ast.unparse(anns[0].annotation) != "bool":
            raise Untranslatable(f"{cname}.{f} is not annotated `bool`")
        if f not in defaults or not (isinstance(defaults[f], ast.Constant) and defaults[f].value is v):
            raise Untranslatable(f"{cname}.__init__: argument {f} does not default to {v}")
        stores = [x for x in ast.walk(init) if isinstance(x, ast.Assign) and len(x.targets) == 1 and ast.unparse(x.targets[0]) == f"self.{f}"]
        if len(stores) != 1 or ast.unparse(stores[0].value) != f:
            raise Untranslatable(f"{cname}.__init__ does not store {f} unchanged")
        if any(isinstance(x, (ast.Assign, ast.AugAssign)) and any(isinstance(t, ast.Name) and t.id == f for t in (x.targets if isinstance(x, ast.Assign) else [x.target])) for x in ast.walk(init)):
            raise Untranslatable(f"{cname}.__init__ rebinds {f}")
    return st


def _default_value(node):
    """numeric default of a parameter that the caller leaves at its default (`loc=0, scale=1`)"""
    if isinstance(node, ast.Constant) and isinstance(node.value, (int, float)) and not isinstance(node.value, bool):
        return node.value
    raise Untranslatable("non-numeric default " + ast.unparse(node))


def generate_ast(repo, specs, header=None, id_base=0) -> dict:
    """specs: list of dicts
         file, path, name          source file, dotted definition path, Lean name (`<name>.ast`)
         arg | args                the argument name(s) that become `Expr N` parameters (a single `arg` is called `x`)
         fields                    typing sheet of `self` (ids) or None
         calls                     {python callee: Lean AST function | (name, [params]) | (name, [params], "pair")}
         root                      None = the repository, "jax" = the installed JAX package
         field_params              scalar fields of `self` passed as parameters `self_<field>` instead of fixed ids
         binders                   extra Lean binders (function parameters standing for `self.<child>.<method>`)
         ignore_args               argument names dropped at call sites and left unbound (`condition`)
         sub_return                translate only the function's final `return <this expression>` (free names = args)
       Parameters of the Python function that are not listed keep their numeric DEFAULT value.
       `id_base` offsets the let-ids so that ASTs of different generated files can be nested without capture."""
    out = [header or HEADER]
    errors = []
    for k, sp in enumerate(specs):
        try:
            src = open(os.path.join(source_root(repo, sp.get("root")), sp["file"])).read()
            fn = find_def(ast.parse(src), sp["path"])
            ids = StructIds(sp["fields"]) if sp.get("fields") is not None else None
            tr = AstTr(sp["name"], ids, sp.get("calls", {}), (id_base + k + 1) * 1000, init_mode=False,
                       field_params=sp.get("field_params"), ignore_args=sp.get("ignore_args", ()))
            import inline
            tr.helpers = inline.helpers_of(ast.parse(src), sp["path"].split(".")[0] if "." in sp["path"] else None)
            tr.dim = sp.get("dim")
            tr.vec_field_params = tuple(sp.get("vec_field_params", ()))
            tr.vec_mode = bool(tr.dim or sp.get("vec_args") or tr.vec_field_params)
            if sp.get("config"):
                tr.config = dict(sp["config"])
                tr.cfg_fns = py2lean.resolve_config(ast.parse(src), types.SimpleNamespace(
                    config=tr.config, config_fns=tuple(sp.get("config_fns", ())), path=sp["path"]))
            vec_args = list(sp.get("vec_args", ()))
            for a in vec_args:
                tr.env[a] = (VE, a)
            tuple_args = dict(sp.get("tuple_args", {}))
            for a, ln in tuple_args.items():
                tr.env[a] = ("TUPA", [f"{a}_{i}" for i in range(ln)])
            tr.guard_args = sp.get("guard_args")
            mat_args = list(sp.get("mat_args", ()))
            for a in mat_args:
                tr.env[a] = (ME, a)
            tr.mat_field_params = tuple(sp.get("mat_field_params", ()))
            tr.static = check_static(ast.parse(src), sp)
            for a, v in tr.static.items():
                tr.env.setdefault(a, ("STATIC", v))
            tr.vec_mode = tr.vec_mode or bool(mat_args or tr.mat_field_params)
            if "args" in sp:
                argnames = list(sp["args"])
                for a in argnames:
                    tr.env[a] = (S, a)
            elif "arg" in sp:
                argnames = ["x"]
                tr.env[sp["arg"]] = (S, "x")
            else:
                argnames = []
            body = fn.body
            if sp.get("sub_lambda") is not None:
                # the unique lambda inside the value assigned to the given target (`self.<field> = Wrapper(lambda w: …, …)`)
                lams = [l for st in ast.walk(fn) if isinstance(st, ast.Assign) and len(st.targets) == 1
                        and ast.unparse(st.targets[0]) == sp["sub_lambda"] for l in ast.walk(st.value) if isinstance(l, ast.Lambda)]
                if len(lams) != 1:
                    raise Untranslatable(f"{len(lams)} lambdas assigned into {sp['sub_lambda']}")
                if [a.arg for a in lams[0].args.args] != list(sp.get("vec_args", [])) + list(sp.get("args", [])):
                    raise Untranslatable("lambda parameters changed")
                body = [ast.Return(value=lams[0].body)]
            elif sp.get("sub_return") is not None:
                want = ast.unparse(ast.parse(sp["sub_return"], mode="eval").body)
                last = fn.body[-1]
                if not (isinstance(last, ast.Return) and last.value is not None and ast.unparse(last.value) == want):
                    raise Untranslatable(f"the function does not end with `return {want}`")
                body = [last]
            else:
                # parameters left at their defaults by the caller
                pos = fn.args.posonlyargs + fn.args.args
                defaults = dict(zip([a.arg for a in pos][len(pos) - len(fn.args.defaults):], fn.args.defaults))
                for a, dflt in zip(fn.args.kwonlyargs, fn.args.kw_defaults):
                    if dflt is not None:
                        defaults[a.arg] = dflt
                pos = pos + fn.args.kwonlyargs
                for a in pos:
                    if a.arg == "self" or a.arg in tr.env or a.arg in tr.ignore_args or a.arg == sp.get("arg"):
                        continue
                    if a.arg not in defaults:
                        raise Untranslatable(f"parameter {a.arg} has no default and is not an argument")
                    if isinstance(defaults[a.arg], ast.Constant) and isinstance(defaults[a.arg].value, bool):
                        tr.env[a.arg] = ("STATIC", defaults[a.arg].value)  # only usable as an `if` test
                        continue
                    try:
                        tr.env[a.arg] = ("num", _default_value(defaults[a.arg]))
                    except Untranslatable:
                        pass  # e.g. `condition=None`: stays unbound, any use of it is refused
            ret = tr.stmts(body)
            if ret is None:
                raise Untranslatable("no return")
            idc = ""
            if ids is not None:
                idc = f"/- ids of `{sp['name']}`: scalars {ids.scalar}, vectors {ids.vec} -/\n"
            where = sp["file"] if sp.get("root") is None else f"<{sp['root']}>/{sp['file']}"
            doc = f"/-- generated from `{where}` :: `{sp['path']}`" + (f" (final `return {sp['sub_return']}`)" if sp.get("sub_return") else "") + (f" (the lambda stored in `{sp['sub_lambda']}`)" if sp.get("sub_lambda") else "") + ("; argument checks that raise otherwise: " + ", ".join(f"`not ({g})`" for g in tr.guards) if tr.guards else "") + " -/\n"
            binders = "".join(f"(self_{f} : Expr N) " for f in (sp.get("field_params") or [])) + "".join(f"(self_{f} : List (Expr N)) " for f in tr.vec_field_params) + (sp.get("binders", "") + " " if sp.get("binders") else "")
            if tr.dim:
                binders = f"({tr.dim} : Nat) " + binders
            binders += "".join(f"(self_{f} : List (List (Expr N))) " for f in tr.mat_field_params)
            if vec_args:
                binders += "(" + " ".join(vec_args) + " : List (Expr N)) "
            if mat_args:
                binders += "(" + " ".join(mat_args) + " : List (List (Expr N))) "
            for a, ln in tuple_args.items():
                binders += "(" + " ".join(f"{a}_{i}" for i in range(ln)) + " : Expr N) "
            if argnames:
                binders += "(" + " ".join(argnames) + " : Expr N)"
            ty = lambda r: "List (List (Expr N))" if isinstance(r, MatCode) else "List (Expr N)" if isinstance(r, VecCode) else "Expr N"
            if len(ret) == 1:
                out.append(f"{idc}{doc}def {sp['name']}.ast {binders} : {ty(ret[0])} :=\n{tr.metas()}  {tr.wrap(ret[0])}\n")
            else:
                out.append(f"{idc}{doc}def {sp['name']}.ast {binders} : {ty(ret[0])} × {ty(ret[1])} :=\n{tr.metas()}  ({tr.wrap(ret[0])},\n   {tr.wrap(ret[1])})\n")
        except (Untranslatable, OSError, SyntaxError, KeyError, IndexError) as ex:
            errors.append({"target": sp["name"] + ".ast", "error": str(ex)})
            out.append(f"-- UNTRANSLATABLE {sp['name']}.ast: {ex}\n")
    out.append("end GenAst\n")
    return {"text": "\n".join(out), "errors": errors}
