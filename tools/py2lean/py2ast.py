"""py2ast: second output of the translator for the SCALAR kernels — a deep-embedded `Ad.Expr N`
(lean/Flowjaxv/Model/Ad.lean) generated from the same Python AST, used by C18 (reverse-mode model).

Conventions (recorded in the generated file's header):
  * each kernel becomes `def <Name>.ast {N} [Ad.Num N] (x : Ad.Expr N) : Ad.Expr N` (or a pair for the
    `…_and_log_det` methods); the argument is an expression (callers pass a variable);
  * scalar fields of `self` are variables `Expr.var <id>`, vector fields are vector ids; the id tables are
    emitted as `def <Struct>.ids`;
  * let-bound scalars get fresh ids in a per-definition range, masks and integer indices are Lean-level
    closures over the environment (they carry no gradient).
"""
from __future__ import annotations

import ast
import os

from py2lean import Untranslatable, S, V, B, I, find_def

PRIMS = {
    "jnp.abs": "abs", "jnp.sign": "sign", "jnp.tanh": "tanh", "jnp.arctanh": "artanh", "jnp.sqrt": "sqrt",
    "jnp.log": "log", "jnp.exp": "exp", "jnp.expm1": "expm1", "softplus": "softplus", "jax.nn.softplus": "softplus",
    "nn.softplus": "softplus", "math.exp": "exp", "math.tanh": "tanh",
}


class StructIds:
    """flatten a struct's fields into scalar variable ids (1..) and vector ids (0..)"""

    def __init__(self, fields):
        self.scalar, self.vec = {}, {}
        sid, vid = 1, 0
        for name, ty in fields:
            if ty == S:
                self.scalar[name] = sid; sid += 1
            elif ty == V:
                self.vec[name] = vid; vid += 1
            elif isinstance(ty, tuple) and ty[0] == "T" and all(t == S for t in ty[1:]):
                for k in range(len(ty) - 1):
                    self.scalar[f"{name}.{k}"] = sid; sid += 1
            else:
                raise Untranslatable(f"field {name}: type {ty} not supported in AST mode")


class AstTr:
    def __init__(self, name, selfids: StructIds | None, calls, base_id, init_mode=False):
        self.name, self.ids, self.calls = name, selfids, calls
        self.next_id = base_id
        self.env = {}  # python name -> (kind, payload): ("S", code) | ("B", code) | ("I", code) | ("V", vec id)
        self.lets = []  # list of ("S", id, code) | ("M", leanname, type, code)
        self.selfvals = {}
        self.init_mode = init_mode

    def fresh(self):
        self.next_id += 1
        return self.next_id

    # ------------------------------------------------------------ expressions
    def num(self, v):
        if isinstance(v, bool):
            raise Untranslatable("bool literal")
        if isinstance(v, int) or (isinstance(v, float) and v == int(v) and abs(v) < 1e6):
            return f"(Expr.const (Num.ofInt ({int(v)})))"
        raise Untranslatable(f"non-integer literal {v!r} in AST mode")

    def ev(self, code):
        return f"(Expr.eval env {code})"

    def e(self, n):
        """returns (kind, code)"""
        if isinstance(n, ast.Constant):
            if isinstance(n.value, (int, float)) and not isinstance(n.value, bool):
                return "num", n.value
            raise Untranslatable("constant")
        if isinstance(n, ast.Name):
            if n.id in self.env:
                return self.env[n.id]
            raise Untranslatable(f"unbound {n.id} ({self.name})")
        if isinstance(n, ast.Attribute):
            if isinstance(n.value, ast.Name) and n.value.id == "self":
                if self.init_mode:
                    if n.attr in self.selfvals:
                        return self.selfvals[n.attr]
                    raise Untranslatable(f"self.{n.attr} read before set")
                if n.attr in self.ids.scalar:
                    return S, f"(Expr.var {self.ids.scalar[n.attr]})"
                if n.attr in self.ids.vec:
                    return V, self.ids.vec[n.attr]
                if any(k.startswith(n.attr + ".") for k in self.ids.scalar):
                    return "TUP", n.attr
            raise Untranslatable("attribute " + ast.unparse(n))
        if isinstance(n, ast.Subscript):
            k, c = self.e(n.value)
            if k == "TUP":
                if isinstance(n.slice, ast.Constant):
                    return S, f"(Expr.var {self.ids.scalar[f'{c}.{n.slice.value}']})"
                raise Untranslatable("tuple index")
            if k == V:
                ik, ic = self.e(n.slice)
                if ik == "num":
                    ic = f"({int(ic)} : Int)"
                elif ik != I:
                    raise Untranslatable("vector index kind " + str(ik))
                return S, f"(Expr.get {c} (fun env => {ic}))"
            raise Untranslatable("subscript")
        if isinstance(n, ast.UnaryOp) and isinstance(n.op, ast.USub):
            k, c = self.e(n.operand)
            if k == "num":
                return "num", -c
            if k == S:
                return S, f"(Expr.neg {c})"
            if k == I:
                return I, f"(-{c})"
            raise Untranslatable("neg")
        if isinstance(n, ast.BinOp):
            if isinstance(n.op, ast.Pow):
                if isinstance(n.right, ast.Constant) and n.right.value == 2:
                    k, c = self.sc(n.left)
                    return S, f"(Expr.mul {c} {c})"
                raise Untranslatable("pow")
            a, b = self.e(n.left), self.e(n.right)
            op = {ast.Add: "add", ast.Sub: "sub", ast.Mult: "mul", ast.Div: "div"}.get(type(n.op))
            if op is None:
                raise Untranslatable("binop")
            if a[0] == "num" and b[0] == "num":
                raise Untranslatable("constant folding")
            if I in (a[0], b[0]):
                if op == "div":
                    raise Untranslatable("int div")
                sym = {"add": "+", "sub": "-", "mul": "*"}[op]
                ac = f"({int(a[1])} : Int)" if a[0] == "num" else a[1]
                bc = f"({int(b[1])} : Int)" if b[0] == "num" else b[1]
                return I, f"({ac} {sym} {bc})"
            ac = self.num(a[1]) if a[0] == "num" else a[1]
            bc = self.num(b[1]) if b[0] == "num" else b[1]
            if a[0] not in ("num", S) or b[0] not in ("num", S):
                raise Untranslatable(f"binop kinds {a[0]} {b[0]}")
            return S, f"(Expr.{op} {ac} {bc})"
        if isinstance(n, ast.Compare):
            if len(n.ops) != 1:
                raise Untranslatable("chained compare")
            a, b = self.sc(n.left), self.sc(n.comparators[0])
            ea, eb = self.ev(a[1]), self.ev(b[1])
            op = type(n.ops[0])
            code = {ast.GtE: f"(Num.le {eb} {ea})", ast.LtE: f"(Num.le {ea} {eb})", ast.Lt: f"(Num.lt {ea} {eb})",
                    ast.Gt: f"(Num.lt {eb} {ea})", ast.Eq: f"(Num.beq {ea} {eb})"}.get(op)
            if code is None:
                raise Untranslatable("compare op")
            return B, code
        if isinstance(n, ast.Call):
            return self.call(n)
        raise Untranslatable(ast.dump(n)[:80])

    def sc(self, n):
        k, c = self.e(n)
        if k == "num":
            return S, self.num(c)
        if k != S:
            raise Untranslatable(f"expected scalar, got {k}")
        return S, c

    def call(self, n):
        fn = ast.unparse(n.func)
        if isinstance(n.func, ast.Attribute) and n.func.attr == "sum" and not n.args and fn not in self.calls:
            return self.sc(n.func.value)
        if fn in ("jnp.sum", "float", "jnp.asarray", "jnp.array"):
            return self.sc(n.args[0])
        if fn == "jnp.zeros":
            return S, self.num(0)
        if fn in PRIMS:
            k, c = self.sc(n.args[0])
            return S, f"(Expr.prim Prim.{PRIMS[fn]} {c})"
        if fn == "jnp.where":
            ck, cc = self.e(n.args[0])
            if ck != B:
                raise Untranslatable("where cond")
            a, b = self.sc(n.args[1]), self.sc(n.args[2])
            return S, f"(Expr.sel (fun env => {cc}) {a[1]} {b[1]})"
        if fn == "jnp.logical_and":
            a, b = self.e(n.args[0]), self.e(n.args[1])
            if a[0] != B or b[0] != B:
                raise Untranslatable("logical_and")
            return B, f"({a[1]} && {b[1]})"
        if fn == "jnp.clip":
            k0, c0 = self.e(n.args[0])
            if k0 == I:
                lo, hi = self.e(n.args[1]), self.e(n.args[2])
                loc = f"({int(lo[1])} : Int)" if lo[0] == "num" else lo[1]
                hic = f"({int(hi[1])} : Int)" if hi[0] == "num" else hi[1]
                return I, f"(Jnp.clipInt {c0} {loc} {hic})"
            x, lo, hi = self.sc(n.args[0]), self.sc(n.args[1]), self.sc(n.args[2])
            # jnp.clip(x, lo, hi) = minimum(maximum(x, lo), hi)
            return S, f"(Expr.min (Expr.max {x[1]} {lo[1]}) {hi[1]})"
        if fn == "jnp.searchsorted":
            vk, vc = self.e(n.args[0])
            x = self.sc(n.args[1])
            if vk != V:
                raise Untranslatable("searchsorted vec")
            return I, f"(Ad.searchsorted (env.v {vc}) {self.ev(x[1])})"
        if fn == "len":
            vk, vc = self.e(n.args[0])
            if vk != V:
                raise Untranslatable("len")
            return I, f"(((env.v {vc}).length : Nat) : Int)"
        if fn in self.calls:
            callee = self.calls[fn]
            args = []
            for a in n.args:
                k, c = self.sc(a)
                args.append(c)
            return S, "(" + " ".join([callee] + args) + ")"
        raise Untranslatable(f"call {fn} ({self.name})")

    # ------------------------------------------------------------ statements
    def bind(self, name, kind, code):
        if kind == "num":
            kind, code = S, self.num(code)
        if kind == S:
            # bind complex expressions to a variable to preserve sharing
            if code.startswith("(Expr.var ") or code.startswith("(Expr.const "):
                self.env[name] = (S, code)
            else:
                i = self.fresh()
                self.lets.append(("S", i, code))
                self.env[name] = (S, f"(Expr.var {i})")
        elif kind in (B, I):
            ln = f"{name}_{len(self.lets)}"
            ty = "Bool" if kind == B else "Int"
            self.lets.append(("M", ln, ty, code))
            self.env[name] = (kind, f"({ln} env)")
        elif kind == V:
            self.env[name] = (V, code)
        elif kind == "TUP":
            self.env[name] = ("TUP", code)
        else:
            raise Untranslatable("bind kind " + str(kind))

    def stmts(self, body):
        ret = None
        for st in body:
            if isinstance(st, ast.Expr) and isinstance(st.value, ast.Constant):
                continue
            if isinstance(st, ast.Assign) and len(st.targets) == 1:
                t = st.targets[0]
                if isinstance(t, ast.Name):
                    k, c = self.e(st.value)
                    self.bind(t.id, k, c)
                elif isinstance(t, ast.Tuple) and isinstance(st.value, ast.Tuple) and len(t.elts) == len(st.value.elts):
                    vals = [self.e(v) for v in st.value.elts]
                    for nm, (k, c) in zip(t.elts, vals):
                        self.bind(nm.id, k, c)
                elif self.init_mode and isinstance(t, ast.Attribute) and isinstance(t.value, ast.Name) and t.value.id == "self":
                    k, c = self.e(st.value)
                    if k == "num":
                        k, c = S, self.num(c)
                    self.selfvals[t.attr] = (k, c)
                else:
                    raise Untranslatable("assign form")
                continue
            if isinstance(st, ast.Return):
                if isinstance(st.value, ast.Tuple):
                    ret = [self.sc(v)[1] for v in st.value.elts]
                else:
                    ret = [self.sc(st.value)[1]]
                continue
            raise Untranslatable("statement " + type(st).__name__)
        return ret

    def wrap(self, code):
        """wrap a result expression in the recorded scalar lets (innermost last)"""
        out = code
        for l in reversed(self.lets):
            if l[0] == "S":
                out = f"(Expr.letE {l[1]} {l[2]}\n    {out})"
        return out

    def metas(self):
        ms = [l for l in self.lets if l[0] == "M"]
        return "".join(f"  let {l[1]} : Env N → {l[2]} := fun env => {l[3]}\n" for l in ms)


HEADER = """/-
GENERATED by tools/py2lean (py2ast) from /repo on every run — do not edit.
Deep embedding of the scalar kernels for the reverse-mode model (C18).
Variable ids: 0 = the input; scalar fields of `self` from 1 (see the `…Ids` comments); let-bound
intermediates from <k>000 per definition.  Vector fields are vector ids from 0.
-/
import Flowjaxv.Model.Ad
set_option linter.unusedVariables false
namespace GenAst
open Ad
variable {N : Type} [Num N]

"""


def generate_ast(repo, specs) -> dict:
    """specs: list of dict(file, path, name, arg, struct_fields or None, calls{py->lean ast fn}, pair(bool), init(bool))"""
    out = [HEADER]
    errors = []
    for k, sp in enumerate(specs):
        try:
            src = open(os.path.join(repo, sp["file"])).read()
            fn = find_def(ast.parse(src), sp["path"])
            ids = StructIds(sp["fields"]) if sp.get("fields") is not None else None
            tr = AstTr(sp["name"], ids, sp.get("calls", {}), (k + 1) * 1000, init_mode=False)
            tr.env[sp["arg"]] = (S, "x")
            ret = tr.stmts(fn.body)
            if ret is None:
                raise Untranslatable("no return")
            idc = ""
            if ids is not None:
                idc = f"/- ids of `{sp['name']}`: scalars {ids.scalar}, vectors {ids.vec} -/\n"
            doc = f"/-- generated from `{sp['file']}` :: `{sp['path']}` -/\n"
            if len(ret) == 1:
                out.append(f"{idc}{doc}def {sp['name']}.ast (x : Expr N) : Expr N :=\n{tr.metas()}  {tr.wrap(ret[0])}\n")
            else:
                out.append(f"{idc}{doc}def {sp['name']}.ast (x : Expr N) : Expr N × Expr N :=\n{tr.metas()}  ({tr.wrap(ret[0])},\n   {tr.wrap(ret[1])})\n")
        except (Untranslatable, OSError, SyntaxError, KeyError, IndexError) as ex:
            errors.append({"target": sp["name"] + ".ast", "error": str(ex)})
            out.append(f"-- UNTRANSLATABLE {sp['name']}.ast: {ex}\n")
    out.append("end GenAst\n")
    return {"text": "\n".join(out), "errors": errors}
