"""Typing sheet for the log-space kernel of `BlockAutoregressiveNetwork.transform_and_log_det`
(flowjax/bijections/block_autoregressive_network.py): `logmatmulexp`, translated for ONE pair of 2-d matrices
(the real call is batched over the leading `n_blocks` axis; the batching is `List.zipWith` in `Model/BnafLd.lean`).

The matrices are log-domain (`EM`: entries `Option α`, `none` = `-inf`, see `Prelude/JnpExt.lean`) because the code
feeds it the activation's `full(-inf)` matrix with the log-gradients on the diagonal.  The translator maps
`jnp.amax(x, -1/-2, keepdims=True)` to per-row / per-column maxima, `x - x_shift` / `xy + x_shift` to the matching
broadcast, `jax.lax.stop_gradient` to the identity on values, `jnp.exp` to the entrywise `exp` (`exp(-inf) = 0`),
`jnp.matmul` to the matrix product of finite matrices and `jnp.log` back to the log domain.
"""
import py2lean
from py2lean import Target, EM

NAME = "Bnaf"
HEADER = py2lean.HEADER.replace("import Flowjaxv.Prelude.Jnp", "import Flowjaxv.Prelude.JnpExt")
assert "import Flowjaxv.Prelude.JnpExt" in HEADER

BN = "flowjax/bijections/block_autoregressive_network.py"
STRUCTS = []
ORDER = [
    Target(BN, "logmatmulexp", "logmatmulexp", [("x", EM), ("y", EM)], EM),
]
TARGETS = [t for t in ORDER if isinstance(t, Target)]
