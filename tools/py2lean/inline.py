"""On-demand inlining of simple private helpers (used by py2lean.py and py2ast.py).

A maintainer who extracts a repeated expression into a private helper — a module-level `def _name(args): return <expr>` or a
method `def _name(self, args): return <expr>` of the same class — does not change what the code computes.  When a translator
meets a call it has no rule for, it asks `expand_call`; if the callee is such a helper (name starts with `_`, no decorators,
positional parameters without defaults, body = optional docstring + one `return`), the call is replaced by the returned
expression with the arguments substituted, and translated as if it had been written in place.  Anything else is left to the
caller, which refuses as before.
"""
import ast
import copy


def _simple_return(fn: ast.FunctionDef):
    """the returned expression of a straight-line helper: optional docstring, single-name assignments `v = e` (substituted, in order,
    into what follows — the helper is pure), then one `return`"""
    if fn.decorator_list or fn.args.vararg or fn.args.kwarg or fn.args.kwonlyargs or fn.args.defaults:
        return None
    body = [s for s in fn.body if not (isinstance(s, ast.Expr) and isinstance(s.value, ast.Constant) and isinstance(s.value.value, str))]
    if not body or not isinstance(body[-1], ast.Return) or body[-1].value is None:
        return None
    env = {}
    try:
        for st in body[:-1]:
            if not (isinstance(st, ast.Assign) and len(st.targets) == 1 and isinstance(st.targets[0], ast.Name)):
                return None
            env[st.targets[0].id] = _Subst(env).visit(copy.deepcopy(st.value))
        return _Subst(env).visit(copy.deepcopy(body[-1].value))
    except ValueError:
        return None


class _Subst(ast.NodeTransformer):
    def __init__(self, mapping):
        self.mapping = mapping

    def visit_Name(self, node):
        if isinstance(node.ctx, ast.Load) and node.id in self.mapping:
            return copy.deepcopy(self.mapping[node.id])
        return node

    def visit_Lambda(self, node):   # a lambda re-binding a parameter name would capture: refuse by leaving it untouched only if disjoint
        bound = {a.arg for a in node.args.args}
        if bound & set(self.mapping):
            raise ValueError("helper parameter shadowed inside a lambda")
        return self.generic_visit(node)


def helpers_of(tree: ast.Module, class_name=None):
    """name -> FunctionDef for module-level private functions and (as `self.<name>`) private methods of `class_name`"""
    out = {}
    for node in tree.body:
        if isinstance(node, ast.FunctionDef) and node.name.startswith("_") and not node.name.startswith("__"):
            out[node.name] = node
        if isinstance(node, ast.ClassDef) and node.name == class_name:
            for st in node.body:
                if isinstance(st, ast.FunctionDef) and st.name.startswith("_") and not st.name.startswith("__"):
                    out["self." + st.name] = st
    return out


def expand_call(call: ast.Call, helpers: dict, depth=0):
    """the inlined expression for `call`, or None when the callee is not a simple private helper"""
    if depth > 4 or call.keywords or any(isinstance(a, ast.Starred) for a in call.args):
        return None
    fn = helpers.get(ast.unparse(call.func))
    if fn is None:
        return None
    ret = _simple_return(fn)
    if ret is None:
        return None
    params = [a.arg for a in fn.args.args]
    if ast.unparse(call.func).startswith("self."):
        if not params or params[0] != "self":
            return None
        params = params[1:]
    if len(params) != len(call.args):
        return None
    try:
        return _Subst(dict(zip(params, call.args))).visit(copy.deepcopy(ret))
    except ValueError:
        return None


class _IndexLoops(ast.NodeTransformer):
    """`for i in range(len(X)): … X[i] …`  ->  `for _it in X: … _it …`   and   `range(len(X) - 1, -1, -1)` -> `reversed(X)`
    (only when the index is used exclusively to subscript X)"""

    def visit_For(self, node):
        self.generic_visit(node)
        it = node.iter
        if not (isinstance(node.target, ast.Name) and isinstance(it, ast.Call) and isinstance(it.func, ast.Name) and it.func.id == "range" and not it.keywords):
            return node
        i = node.target.id
        seq, rev = None, False
        a = it.args
        def len_of(e):
            return e.args[0] if (isinstance(e, ast.Call) and isinstance(e.func, ast.Name) and e.func.id == "len" and len(e.args) == 1) else None
        if len(a) == 1 and len_of(a[0]) is not None:
            seq = len_of(a[0])
        elif (len(a) == 3 and isinstance(a[0], ast.BinOp) and isinstance(a[0].op, ast.Sub) and len_of(a[0].left) is not None
              and ast.unparse(a[0].right) == "1" and ast.unparse(a[1]) == "-1" and ast.unparse(a[2]) == "-1"):
            seq, rev = len_of(a[0].left), True
        if seq is None:
            return node
        seq_src = ast.unparse(seq)
        uses = [n for b in node.body for n in ast.walk(b) if isinstance(n, ast.Name) and n.id == i]
        subs = [n for b in node.body for n in ast.walk(b) if isinstance(n, ast.Subscript) and ast.unparse(n.value) == seq_src
                and isinstance(n.slice, ast.Name) and n.slice.id == i and isinstance(n.ctx, ast.Load)]
        if len(uses) != len(subs) or not subs:
            # the index has other uses: `for i in range(len(X)): v = X[i]; …`  ->  `for i, v in enumerate(X): …`
            # (only when the first statement is exactly that binding and neither `i`, `v` nor `X` is assigned in the body)
            st0 = node.body[0] if node.body else None
            if (not rev and isinstance(st0, ast.Assign) and len(st0.targets) == 1 and isinstance(st0.targets[0], ast.Name)
                    and isinstance(st0.value, ast.Subscript) and ast.unparse(st0.value.value) == seq_src
                    and isinstance(st0.value.slice, ast.Name) and st0.value.slice.id == i and len(node.body) > 1 and not node.orelse):
                v = st0.targets[0].id
                root = seq_src.split(".")[0].split("[")[0]
                stored = {n.id for b in node.body[1:] for n in ast.walk(b) if isinstance(n, ast.Name) and isinstance(n.ctx, ast.Store)}
                if v != i and not ({i, v, root} & stored):
                    tgt = ast.Tuple(elts=[ast.Name(id=i, ctx=ast.Store()), ast.Name(id=v, ctx=ast.Store())], ctx=ast.Store())
                    call = ast.Call(func=ast.Name(id="enumerate", ctx=ast.Load()), args=[seq], keywords=[])
                    out = ast.For(target=tgt, iter=call, body=node.body[1:], orelse=[], type_comment=None)
                    return ast.fix_missing_locations(ast.copy_location(out, node))
            return node
        item = "_it_" + i

        class R(ast.NodeTransformer):
            def visit_Subscript(self, n):
                if ast.unparse(n.value) == seq_src and isinstance(n.slice, ast.Name) and n.slice.id == i:
                    return ast.copy_location(ast.Name(id=item, ctx=ast.Load()), n)
                return self.generic_visit(n)
        new_body = [R().visit(b) for b in node.body]
        new_iter = ast.Call(func=ast.Name(id="reversed", ctx=ast.Load()), args=[seq], keywords=[]) if rev else seq
        out = ast.For(target=ast.Name(id=item, ctx=ast.Store()), iter=new_iter, body=new_body, orelse=node.orelse, type_comment=None)
        return ast.fix_missing_locations(ast.copy_location(out, node))


def normalise(fn: ast.FunctionDef) -> ast.FunctionDef:
    """source-level normalisations that do not change what the function computes"""
    return _IndexLoops().visit(fn)
