"""py2nd: the wrappers' `.unwrap()` bodies on nested float arrays (flowjax/wrappers.py) — a subclass of `py2lean.Tr`
selected by a typing sheet through `TR = py2nd.NTr`.  Tried first, narrow, falls through to the base translator.

Array types (registered in `py2lean.MAT_TYPES`, so `lean_type` knows their Lean spelling):
  S, V, ND2, ND3     float arrays of rank 0 … 3: nested lists `α`, `List α`, `List (List α)`, `List (List (List α))`
  K2, K3             a `keepdims=True` reduction over the LAST axis of a rank-2 / rank-3 array (shape `(…, 1)`): one value per
                     row, nested one level less (`List α`, `List (List α)`);  rank 1 reduces to a scalar `S`
  KR2, KR3           the same over axis −2 (shape `(…, 1, cols)`): one value per column
  BND1, BND2         Boolean arrays of rank 1, 2

Accepted beyond the base subset
  jnp.linalg.norm(x, axis=-1|-2, keepdims=True)   on rank ≥ 1 / ≥ 2: `sqrt (dot v v)` of every last-axis vector / every column
  a * b, a / b, a + b, a - b                      NumPy broadcasting between an array and an equally ranked array, a scalar, or a
                                                  keepdims reduction of the same rank (emitted as nested `List.map` / `List.zipWith`;
                                                  NumPy raises on unequal lengths where `zipWith` truncates — statements carry the
                                                  shape guard)
  jnp.where(c, a, b)                              Boolean array, equally shaped array, scalar or equally shaped array
  eqx.partition(t, eqx.is_array_like)  eqx.combine(a, b)  lax.stop_gradient(x)        through a record of the two Equinox functions
                                                  (`Wrappers.EqxPartition τ`, free parameter `P`); stop_gradient is the identity on values
  b._vectorize.transform(x) / .inverse(x)         the child bijection record's `fwd` / `inv` with condition `()`
  eqx.error_if(x, pred, msg)                      the value `x` (the raising case is modelled by the C11 guards)
  self.fn(*self.args, **self.kwargs)              application of the stored function to the stored argument packs
"""
from __future__ import annotations

import ast

import py2lean
from py2lean import Untranslatable, S, V, B, T, R

ND2, ND3, K2, K3, KR2, KR3, BND1, BND2 = "ND2", "ND3", "K2", "K3", "KR2", "KR3", "BND1", "BND2"
py2lean.MAT_TYPES.update({
    ND2: "List (List α)", ND3: "List (List (List α))", K2: "List α", K3: "List (List α)", KR2: "List α", KR3: "List (List α)",
    BND1: "List Bool", BND2: "List (List Bool)",
})
ND = {S: 0, V: 1, ND2: 2, ND3: 3}
ND_OF = {v: k for k, v in ND.items()}
KEEP = {K2: 2, K3: 3}      # reductions over the last axis, by the rank of the reduced array (rank 1 reduces to S)
KEEP_OF = {1: S, 2: K2, 3: K3}
KEEPR = {KR2: 2, KR3: 3}   # reductions over axis -2
KEEPR_OF = {2: KR2, 3: KR3}
BOOL = {B: 0, BND1: 1, BND2: 2}


class NTr(py2lean.Tr):
    def __init__(self, tgt, structs):
        super().__init__(tgt, structs)
        self._fresh = 0  # bound-variable counter, per target (byte-stable output)

    def _v(self, stem):
        self._fresh += 1
        return f"{stem}{self._fresh}"

    # ------------------------------------------------------------------ code builders (structural recursion on the rank)
    def _norm_last(self, x, r):
        if r == 1:
            return f"(Transc.sqrt (Jnp.dot {x} {x}))"
        v = self._v("m")
        return f"(List.map (fun {v} => {self._norm_last(v, r - 1)}) {x})"

    def _norm_cols(self, x, r):
        if r == 2:
            return f"(Wrappers.normCols {x})"
        v = self._v("m")
        return f"(List.map (fun {v} => {self._norm_cols(v, r - 1)}) {x})"

    def _bcast(self, sym, a, ka, b, kb, r):
        """`a sym b` for operands of kinds nd / k / kr / s relative to rank `r`"""
        if r == 0 or (ka == "s" and kb == "s"):
            return f"({a} {sym} {b})"
        x, y = self._v("p"), self._v("q")
        if ka == "s":
            return f"(List.map (fun {y} => {self._bcast(sym, a, 's', y, kb, r - 1)}) {b})"
        if kb == "s":
            return f"(List.map (fun {x} => {self._bcast(sym, x, ka, b, 's', r - 1)}) {a})"
        if (ka, kb) == ("nd", "nd"):
            return f"(List.zipWith (fun {x} {y} => {self._bcast(sym, x, 'nd', y, 'nd', r - 1)}) {a} {b})"
        if ka == "k" and kb == "nd":   # (…, 1) against (…, n)
            if r == 1:
                return f"(List.map (fun {y} => ({a} {sym} {y})) {b})"
            return f"(List.zipWith (fun {x} {y} => {self._bcast(sym, x, 'k', y, 'nd', r - 1)}) {a} {b})"
        if ka == "nd" and kb == "k":
            if r == 1:
                return f"(List.map (fun {x} => ({x} {sym} {b})) {a})"
            return f"(List.zipWith (fun {x} {y} => {self._bcast(sym, x, 'nd', y, 'k', r - 1)}) {a} {b})"
        if ka == "kr" and kb == "nd":  # (…, 1, n) against (…, m, n)
            if r == 2:
                return f"(List.map (fun {y} => List.zipWith (fun u v => (u {sym} v)) {a} {y}) {b})"
            return f"(List.zipWith (fun {x} {y} => {self._bcast(sym, x, 'kr', y, 'nd', r - 1)}) {a} {b})"
        if ka == "nd" and kb == "kr":
            if r == 2:
                return f"(List.map (fun {x} => List.zipWith (fun u v => (u {sym} v)) {x} {b}) {a})"
            return f"(List.zipWith (fun {x} {y} => {self._bcast(sym, x, 'nd', y, 'kr', r - 1)}) {a} {b})"
        raise Untranslatable(f"broadcast {ka} {sym} {kb}")

    @staticmethod
    def _kind(t):
        """(kind, rank of the full array) of an array type"""
        if t in ND:
            return ("s", 0) if t == S else ("nd", ND[t])
        if t in KEEP:
            return "k", KEEP[t]
        if t in KEEPR:
            return "kr", KEEPR[t]
        return None

    def _where_nd(self, c, a, b, r, b_scalar):
        if r == 0:
            return f"(Jnp.where {c} {a} {b})"
        x, y = self._v("c"), self._v("p")
        if b_scalar:
            return f"(List.zipWith (fun {x} {y} => {self._where_nd(x, y, b, r - 1, True)}) {c} {a})"
        return (f"(List.zipWith (fun {x} {y} => {self._where_nd(x, y + '.1', y + '.2', r - 1, False)}) {c} (List.zip {a} {b}))"
                if r == 1 else
                f"(List.zipWith (fun {x} {y} => {self._where_nd(x, y + '.1', y + '.2', r - 1, False)}) {c} (List.zip {a} {b}))")

    # ------------------------------------------------------------------ expressions
    def _e(self, n, gen_ok=False):
        r = self._nd_e(n)
        if r is not None:
            return r
        return super()._e(n, gen_ok)

    def _nd_e(self, n):
        if isinstance(n, ast.BinOp) and type(n.op) in (ast.Mult, ast.Div, ast.Add, ast.Sub):
            (a, ta), (b, tb) = self._e(n.left), self._e(n.right)
            ka, kb = self._kind(ta), self._kind(tb)
            if ka is None or kb is None or max(ka[1], kb[1]) < 2:
                # ranks 0/1 only: the base translator's own rules (re-evaluated there)
                return None
            r = max(ka[1], kb[1])
            if any(k[0] != "s" and k[1] != r for k in (ka, kb)):
                raise Untranslatable(f"broadcast of {ta} with {tb}")
            if {ka[0], kb[0]} == {"k", "kr"} or (ka[0] in ("k", "kr") and kb[0] in ("k", "kr", "s")) or (kb[0] in ("k", "kr") and ka[0] == "s"):
                raise Untranslatable(f"arithmetic between reductions {ta}, {tb}")
            sym = {ast.Add: "+", ast.Sub: "-", ast.Mult: "*", ast.Div: "/"}[type(n.op)]
            return self._bcast(sym, a, ka[0], b, kb[0], r), ND_OF[r]
        if isinstance(n, ast.Call):
            return self._nd_call(n)
        return None

    def _nd_call(self, n: ast.Call):
        fn = ast.unparse(n.func)
        f = n.func
        if fn == "jnp.linalg.norm":
            kws = {k.arg: k.value for k in n.keywords}
            if len(n.args) != 1 or set(kws) != {"axis", "keepdims"}:
                return None
            x, tx = self._e(n.args[0])
            if tx not in ND or ND[tx] < 2:
                return None  # rank 1: the base translator's row rule
            if not (isinstance(kws["keepdims"], ast.Constant) and kws["keepdims"].value is True):
                raise Untranslatable("jnp.linalg.norm: keepdims must be True")
            try:
                axis = ast.literal_eval(kws["axis"])
            except ValueError:
                raise Untranslatable("jnp.linalg.norm: axis not a literal")
            r = ND[tx]
            if axis in (-1, r - 1):
                return self._norm_last(x, r), KEEP_OF[r]
            if axis in (-2, r - 2):
                return self._norm_cols(x, r), KEEPR_OF[r]
            raise Untranslatable(f"jnp.linalg.norm over axis {axis} of a rank-{r} array")
        if fn == "jnp.where":
            if len(n.args) != 3 or n.keywords:
                return None
            (c, tc), (a, ta), (b, tb) = (self._e(x) for x in n.args)
            if tc not in BOOL or BOOL[tc] == 0:
                return None
            if tb == "num":
                b, tb = f"({b} : α)", S
            r = BOOL[tc]
            if ta not in ND or ND[ta] != r or tb not in (S, ta):
                raise Untranslatable(f"jnp.where({tc}, {ta}, {tb})")
            return self._where_nd(c, a, b, r, tb == S and r > 0), ta
        if fn == "eqx.partition":
            if len(n.args) == 2 and not n.keywords and ast.unparse(n.args[1]) == "eqx.is_array_like" and "P" in self.env:
                t, tt = self._e(n.args[0])
                if tt == "τ":
                    return f"(P.partition {t})", T("τ", "τ")
            raise Untranslatable("eqx.partition form: only eqx.partition(<tree>, eqx.is_array_like)")
        if fn == "eqx.combine":
            if len(n.args) == 2 and not n.keywords and "P" in self.env:
                (a, ta), (b, tb) = self._e(n.args[0]), self._e(n.args[1])
                if ta == "τ" and tb == "τ":
                    return f"(P.combine {a} {b})", "τ"
            raise Untranslatable("eqx.combine form")
        if fn in ("lax.stop_gradient", "jax.lax.stop_gradient"):
            if len(n.args) == 1 and not n.keywords:
                x, tx = self._e(n.args[0])
                if tx == "τ":
                    return x, tx  # identity on values
            return None
        if fn == "eqx.error_if":
            if len(n.args) == 3 and not n.keywords:
                return self._e(n.args[0])  # the value when the check does not fire
            raise Untranslatable("eqx.error_if form")
        # <bijection record>._vectorize.transform(x) / .inverse(x)
        if (isinstance(f, ast.Attribute) and f.attr in ("transform", "inverse") and isinstance(f.value, ast.Attribute)
                and f.value.attr == "_vectorize"):
            b, tb = self._e(f.value.value)
            if tb != R("BijU") or len(n.args) != 1 or n.keywords:
                raise Untranslatable(f"{fn}: expected <bijection>._vectorize.{f.attr}(x)")
            x, tx = self._e(n.args[0])
            if tx != "X":
                raise Untranslatable(f"{fn} applied to {tx}")
            return f"({b}.{'fwd' if f.attr == 'transform' else 'inv'} {x} ())", "X"
        # self.fn(*self.args, **self.kwargs)
        if (len(n.args) == 1 and isinstance(n.args[0], ast.Starred) and len(n.keywords) == 1 and n.keywords[0].arg is None):
            fcode, ft = self._e(f)
            (a, ta), (k, tk) = self._e(n.args[0].value), self._e(n.keywords[0].value)
            if isinstance(ft, tuple) and len(ft) == 4 and ft[:3] == ("F", ta, tk):
                return f"({fcode} {a} {k})", ft[3]
            raise Untranslatable(f"call with argument packs: {ft} applied to *{ta}, **{tk}")
        return None

    def call(self, n: ast.Call):
        # the base `call` evaluates keyword arguments eagerly; `**pack` keywords (arg None) are ours
        if any(k.arg is None for k in n.keywords):
            r = self._nd_call(n)
            if r is None:
                raise Untranslatable(f"call with ** in {self.tgt.path}")
            return r
        return super().call(n)
