"""Typing sheet for the constructors and argument checks of flowjax (property C13), translated by `py2ctor.py` into the
exception-valued functions of `lean/Flowjaxv/Gen/CtorsGen.lean`.

What the sheet fixes (and the translator checks against the source): which functions / methods are translated, the Lean type of
every parameter, which attributes of `self` a method reads, which attributes an `__init__` must set (its result is the record of
them) and which it may set without the translation tracking them (then the right-hand side must be unable to raise), the import
aliases library calls are recognised by, and the few calls whose meaning is a hand-written primitive of `Model/CtorPrims.lean`.

Trusted (validated by the C13 correspondence on every run, through the generated definitions):
  * a bijection / distribution handed to a constructor is the record of its declared `shape` (a tuple of non-negative ints) and
    `cond_shape` (such a tuple or None) — `PyCtor.SB`; `unwrap` does not change either (`IDENTITY_CALLS`);
  * `Partial.idxs` is one of the modelled index kinds (`ArgCheck.Idx`: a Python int or a slice) and `jnp.zeros(shape)[idxs].shape`
    is `ArgCheck.indexShape` (JAX's static indexing);
  * `Vmap`: `in_axes` enters resolved against the unwrapped bijection (`PyCtor.InAxes`: one optional axis per array leaf + whether
    the `in_axes` pytree contains an unwrappable), the bijection with the shapes of its array leaves (`PyCtor.VB`);
    `_check_no_unwrappables` / `_infer_axis_size_from_params` (pytree traversals) are primitives;
  * Equinox runs `__check_init__` after `__init__` (`CTORS`), and a class without `__init__` gets the dataclass one (its
    annotated fields in order — checked against the class body).
Everything else — every statement of every listed function — is translated or refused."""
from py2ctor import Fn, Ctor, NAT, INT, BOOL, UNIT, SH, OSH, SB, VB, IDX, INAXES, OPAQUE, TL, TO

NAME = "CtorsGen"
UT = "flowjax/utils.py"
CH = "flowjax/bijections/chain.py"
CC = "flowjax/bijections/concatenate.py"
BU = "flowjax/bijections/utils.py"
JT = "flowjax/bijections/jax_transforms.py"
DI = "flowjax/distributions.py"

# alias -> what the source file must bind it to (only aliases a translated function actually uses are checked)
IMPORTS = {
    "jnp": "jax.numpy", "prod": "math.prod", "accumulate": "itertools.accumulate",
    "unwrap": "flowjax.wrappers.unwrap", "wrappers": "flowjax.wrappers",
    "merge_cond_shapes": "flowjax.utils.merge_cond_shapes", "check_shapes_match": "flowjax.utils.check_shapes_match",
    "_check_no_unwrappables": "flowjax.bijections.jax_transforms._check_no_unwrappables",
    "_infer_axis_size_from_params": "flowjax.bijections.jax_transforms._infer_axis_size_from_params",
}

# calls that are the identity on the shape-level records
IDENTITY_CALLS = {"unwrap", "wrappers.unwrap"}

# source name -> (Lean primitive, argument types, result type, cannot raise?)
PRIMS = {
    "_check_no_unwrappables": ("PyCtor.checkNoUnwrappables", [INAXES], UNIT, False),
    "_infer_axis_size_from_params": ("PyCtor.inferAxisSize", [VB, INAXES], NAT, False),
}

FUNCS = [
    Fn(UT, "merge_cond_shapes", "mergeCondShapes", [("shapes", TL(OSH))], OSH),
    Fn(UT, "check_shapes_match", "checkShapesMatch", [("shapes", TL(SH))], UNIT),
    Fn(CH, "Chain.__init__", "Chain.init", [("bijections", TL(SB))], record="ChainF",
       fields=[("shape", SH), ("cond_shape", OSH)], ignored=("bijections",)),
    Fn(CC, "Concatenate._argcheck_shapes", "Concatenate.argcheckShapes", [("shapes", TL(SH))], UNIT, selffields=[("axis", INT)]),
    Fn(CC, "Concatenate.__init__", "Concatenate.init", [("bijections", TL(SB)), ("axis", INT)], record="ConcatenateF",
       fields=[("shape", SH), ("cond_shape", OSH), ("split_idxs", SH), ("axis", INT)], ignored=("bijections",)),
    Fn(CC, "Stack.__init__", "Stack.init", [("bijections", TL(SB)), ("axis", INT)], record="StackF",
       fields=[("shape", SH), ("cond_shape", OSH), ("axis", INT)], ignored=("bijections",)),
    Fn(BU, "Partial.__check_init__", "Partial.checkInit", [], UNIT, selffields=[("bijection", SB), ("idxs", IDX), ("shape", SH)]),
    Fn(BU, "Partial.cond_shape", "Partial.condShape", [], OSH, selffields=[("bijection", SB)], prop=True),
    Fn(BU, "Reshape.__init__", "Reshape.init", [("bijection", SB), ("shape", OSH), ("cond_shape", OSH)], record="ReshapeF",
       fields=[("bijection", SB), ("shape", SH), ("cond_shape", OSH)]),
    Fn(BU, "Reshape.__check_init__", "Reshape.checkInit", [], UNIT,
       selffields=[("bijection", SB), ("shape", SH), ("cond_shape", OSH)]),
    Fn(BU, "EmbedCondition.__init__", "EmbedCondition.init", [("bijection", SB), ("embedding_net", OPAQUE), ("raw_cond_shape", SH)],
       record="EmbedConditionF", fields=[("bijection", SB), ("cond_shape", SH)], ignored=("embedding_net",)),
    Fn(BU, "EmbedCondition.shape", "EmbedCondition.shape", [], SH, selffields=[("bijection", SB)], prop=True),
    Fn(BU, "Invert.shape", "Invert.shape", [], SH, selffields=[("bijection", SB)], prop=True),
    Fn(BU, "Invert.cond_shape", "Invert.condShape", [], OSH, selffields=[("bijection", SB)], prop=True),
    Fn(JT, "Scan.shape", "Scan.shape", [], SH, selffields=[("bijection", SB)], prop=True),
    Fn(JT, "Scan.cond_shape", "Scan.condShape", [], OSH, selffields=[("bijection", SB)], prop=True),
    Fn(JT, "Vmap.get_cond_shape", "Vmap.getCondShape", [("cond_ax", TO(INT))], OSH, selffields=[("bijection", VB), ("axis_size", NAT)]),
    Fn(JT, "Vmap.__init__", "Vmap.init",
       [("bijection", VB), ("in_axes", TO(INAXES)), ("axis_size", TO(NAT)), ("in_axes_condition", TO(INT))], record="VmapF",
       fields=[("bijection", VB), ("axis_size", NAT), ("cond_shape", OSH)], ignored=("in_axes",)),
    Fn(JT, "Vmap.shape", "Vmap.shape", [], SH, selffields=[("axis_size", NAT), ("bijection", VB)], prop=True),
    Fn(DI, "AbstractTransformed.__check_init__", "Transformed.checkInit", [], UNIT, selffields=[("base_dist", SB), ("bijection", SB)]),
]

CTORS = [
    Ctor("Partial.ctor", "Partial", init=None, check="Partial.checkInit", record="PartialF",
         fields=[("bijection", SB), ("idxs", IDX), ("shape", SH)]),
    Ctor("Reshape.ctor", "Reshape", init="Reshape.init", check="Reshape.checkInit"),
]
