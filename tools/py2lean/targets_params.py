"""Typing sheet for the constrained parameterisations (C11).

Vector-valued kernels (`_real_to_increasing_on_interval`, `get_act_scale`) are translated on
`List α`; the wrappers' per-row / per-element kernels (`WeightNormalization.unwrap` for ONE row of the
weight matrix, the spline-derivative and mixture lambdas) are translated once for one row / one
1-d array.  `.size` needs a cast `Nat → α`, provided by the `[NatCast α]` argument of this module's
header only (the scalar interface `Transc` is unchanged).
"""
import py2lean
from py2lean import Struct, Target, S, V, B, I, T, R

NAME = "Params"
HEADER = py2lean.HEADER.replace("[Transc α] [Inhabited α]", "[Transc α] [Inhabited α] [NatCast α]")
assert "[NatCast α]" in HEADER

RQ = "flowjax/bijections/rational_quadratic_spline.py"
PL = "flowjax/bijections/planar.py"
WR = "flowjax/wrappers.py"
DI = "flowjax/distributions.py"

Planar = Struct("UnconditionalPlanar", [("weight", V), ("_act_scale", V), ("bias", S)], "_UnconditionalPlanar", PL,
                extra_ok=("shape", "negative_slope", "activation", "activation_fn"))
WeightNorm = Struct("WeightNormRow", [("weight", V), ("scale", S)], "WeightNormalization", WR)
STRUCTS = [Planar, WeightNorm]

ORDER = [
    # spline knot positions: softmax widths (+ floor), halved first width, cumulative sum, padding with the ends
    Target(RQ, "_real_to_increasing_on_interval", "realToIncreasingOnInterval",
           [("arr", V), ("interval", T(S, S)), ("softmax_adjust", S)], V, static={"pad_with_ends": True}),
    # spline derivatives: the lambda stored in `self.derivatives`, and the raw value it is initialised with
    Target(RQ, "RationalQuadraticSpline.__init__", "rqsDerivatives", [("arr", V)], V,
           sub=("lambda", "self.derivatives"), free=[("min_derivative", S)],
           consts={"self.min_derivative": ("min_derivative", S)}),
    Target(RQ, "RationalQuadraticSpline.__init__", "rqsDerivativeInit", [("min_derivative", S)], S,
           sub=("expr", "jnp.log(jnp.exp(1 - min_derivative) - 1)")),
    # planar: u-hat
    Planar,
    Target(PL, "_UnconditionalPlanar.get_act_scale", "UnconditionalPlanar.get_act_scale", [], V,
           selfstruct="UnconditionalPlanar"),
    # weight normalisation, one row of the matrix (`axis=-1, keepdims=True`)
    WeightNorm,
    Target(WR, "WeightNormalization.unwrap", "WeightNormRow.unwrap", [], V, selfstruct="WeightNormRow"),
    Target(WR, "WeightNormalization.__init__", "weightNormScaleInit", [("weight", V)], S,
           sub=("expr", "1 / jnp.linalg.norm(unwrap(weight), axis=-1, keepdims=True)"), calls={"unwrap": ("id", V)}),
    # mixture weights: log_softmax of the stored log-weights, and the stored value log(weights)
    Target(DI, "VmapMixture.__init__", "mixtureLogNormalizedWeights", [("w", V)], V,
           sub=("lambda", "self.log_normalized_weights")),
    Target(DI, "VmapMixture.__init__", "mixtureRawInit", [("weights", V)], V, sub=("expr", "jnp.log(weights)")),
]
TARGETS = [t for t in ORDER if isinstance(t, Target)]
