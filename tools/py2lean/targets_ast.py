"""Scalar kernels emitted as deep `Ad.Expr` ASTs (C18)."""
from py2lean import S, V, T
AF = "flowjax/bijections/affine.py"
TA = "flowjax/bijections/tanh.py"
RQ = "flowjax/bijections/rational_quadratic_spline.py"
NAME = "LeavesAst"
F_AFF = [("loc", S), ("scale", S)]
F_LK = [("max_val", S), ("intercept", S), ("linear_grad", S)]
F_RQ = [("interval", T(S, S)), ("x_pos", V), ("y_pos", V), ("derivatives", V)]
M4 = [("transform", "x"), ("inverse", "y"), ("transform_and_log_det", "x"), ("inverse_and_log_det", "y")]


def cls(file, c, fields, calls=None, methods=M4, order=None):
    out = []
    for m, arg in methods:
        out.append(dict(file=file, path=f"{c}.{m}", name=f"{c}.{m}", arg=arg, fields=fields, calls=dict(calls or {})))
    return out


tl = {"_tanh_log_grad": "tanhLogGrad.ast"}
SPECS = (
    cls(AF, "Affine", F_AFF) + cls(AF, "Loc", [("loc", S)]) + cls(AF, "Scale", [("scale", S)])
    + cls("flowjax/bijections/exp.py", "Exp", [])
    + cls("flowjax/bijections/softplus.py", "SoftPlus", [], {"self.inverse": "SoftPlus.inverse.ast"},
          methods=[("transform", "x"), ("inverse", "y"), ("transform_and_log_det", "x"), ("inverse_and_log_det", "y")])
    + [dict(file=TA, path="_tanh_log_grad", name="tanhLogGrad", arg="x", fields=None, calls={})]
    + cls(TA, "Tanh", [], tl)
    + cls(TA, "LeakyTanh", F_LK, dict(tl, **{"self.transform": "LeakyTanh.transform.ast", "self.inverse": "LeakyTanh.inverse.ast"}))
    + cls(RQ, "RationalQuadraticSpline", F_RQ,
          {"self.transform": "RationalQuadraticSpline.transform.ast", "self.inverse": "RationalQuadraticSpline.inverse.ast",
           "self.derivative": "RationalQuadraticSpline.derivative.ast"},
          methods=[("transform", "x"), ("inverse", "y"), ("derivative", "x"), ("transform_and_log_det", "x"), ("inverse_and_log_det", "y")])
)
