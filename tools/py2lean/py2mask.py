"""py2mask: the integer / Boolean-array subset of the translator (masks.py, the rank assignment of MaskedAutoregressive).

A subclass of `py2lean.Tr` (selected by a typing sheet through `TR = py2mask.MTr`).  Everything it accepts is tried FIRST and
is deliberately narrow; whatever it does not recognise falls through to the base translator, which refuses what is outside
its own subset.  The Lean meaning of every primitive it maps to is in `lean/Flowjaxv/Prelude/JnpMask.lean`.

Additional types (the type tags are the Lean type texts, which `py2lean.lean_type` passes through):
  IV   1-d integer array `List Int`         BM   Boolean matrix `List (List Bool)`
  NAT  non-negative Python int `Nat`        I    Python int `Int`          ONAT  `int | None` that is non-negative
  S3   Boolean array of rank 3 (`JnpMask.Stack3`)     CMP  a comparison from `operator` (`Int → Int → Bool`)
  IVC  (transient) `v[:, None]`, a column to be broadcast against a row

Accepted beyond the base subset
  expressions   range(n)  enumerate(xs)  max(a, b)  jnp.arange(n)  jnp.ones(n, int)  jnp.ones((n, *shape2), bool)
                jnp.zeros((r, c), bool)  jnp.hstack((a, b))  jnp.repeat(v, n)  jnp.asarray(v, jnp.int32)
                block_diag(*stack)  op(col[:, None], row)  m.at[a:b, c:d].set(True|False)
                operator.ge|gt|le|lt|eq|ne  and  `<op1> if flag else <op2>`
                Python int arithmetic + - * (Nat where closed, Int otherwise; Python's own % and // are refused: they raise
                on 0), array % int (jnp.remainder, `x % 0 = 0`), array ± int, -array, int comparisons
                [a, *xs, b]  xs * n  xs[i]  tuple(xs)  Where(mask, w, 0)
                eqx.tree_at(lambda v: v.f, obj, repl) / (…, replace=repl)  -> the record with field `f` replaced
  statements    for v in (a, b): if …: raise          (guard loop: recorded, not translated)
                for i in range(n): …   for i, v in enumerate(xs): …      (left folds over the mutated names)
                xs.append(e)
                if c is None: … else: …                (both branches assign the same names; `match` on the option)
                a, b, c = (f(v) for v in (a, b, c))
                x = <call declared opaque in the sheet>   (binds names the sheet declares as parameters)
                self.f = …  for fields the sheet declares irrelevant (`ignore_self`)
"""
from __future__ import annotations

import ast
import dataclasses

import py2lean
from py2lean import Untranslatable, Target, B, I, T, R, NAT

IV, BM, ONAT, S3, IVC = "List Int", "List (List Bool)", "Option Nat", "JnpMask.Stack3", "IVC"
CMP = ("F", I, I, B)
INTS = (NAT, I, "num")
OPERATOR = {"ge": "≥", "gt": ">", "le": "≤", "lt": "<", "eq": "=", "ne": "≠"}


@dataclasses.dataclass
class MTarget(Target):
    opaque: dict = dataclasses.field(default_factory=dict)      # callee text -> tuple of names the statement binds (declared in `free`)
    ignore_self: tuple = ()                                     # `self.<f> = …` statements that do not concern the translated value
    list_types: dict = dataclasses.field(default_factory=dict)  # name -> type of a list initialised with `[]`
    tree_at: dict = dataclasses.field(default_factory=dict)     # (record, field) -> record name of the result of replacing that field


def _is_none(n):
    return isinstance(n, ast.Constant) and n.value is None


class MTr(py2lean.Tr):
    # ------------------------------------------------------------------ helpers
    def _int(self, c, t):
        """an int-kinded expression as a Lean `Int`"""
        if t == I:
            return c
        if t == NAT:
            return f"(({c} : Nat) : Int)"
        if t == "num":
            return f"({c} : Int)"
        raise Untranslatable(f"expected a Python int, got {t}")

    def _nat_expr(self, n):
        c, t = self._e(n)
        if t == NAT:
            return c
        if t == "num" and isinstance(n, ast.Constant) and isinstance(n.value, int) and not isinstance(n.value, bool) and n.value >= 0:
            return f"({c} : Nat)"
        raise Untranslatable(f"expected a non-negative int, got {t}")

    def _slice_bound(self, n):
        if n is None:
            return "none"
        c, t = self._e(n)
        if t not in INTS:
            raise Untranslatable(f"slice bound of type {t}")
        return f"(some {self._int(c, t)})"

    def _slice(self, sl):
        if not isinstance(sl, ast.Slice) or sl.step is not None:
            raise Untranslatable("only plain slices a:b")
        return f"({self._slice_bound(sl.lower)}, {self._slice_bound(sl.upper)})"

    # ------------------------------------------------------------------ expressions
    def _e(self, n, gen_ok=False):
        r = self._mask_e(n)
        if r is not None:
            return r
        return super()._e(n, gen_ok)

    def _mask_e(self, n):
        if isinstance(n, ast.Attribute) and isinstance(n.value, ast.Name) and n.value.id == "operator" and "operator" not in self.env:
            if n.attr not in OPERATOR:
                raise Untranslatable(f"operator.{n.attr}")
            return f"(fun (a b : Int) => decide (a {OPERATOR[n.attr]} b))", CMP
        if isinstance(n, ast.IfExp):
            c, tc = self._e(n.test)
            if tc != B:
                return None
            (a, ta), (b, tb) = self._e(n.body), self._e(n.orelse)
            if ta == CMP and tb == CMP:
                return f"(if {c} then {a} else {b})", CMP
            return None
        if isinstance(n, ast.List):
            return self._list(n)
        if isinstance(n, ast.UnaryOp) and isinstance(n.op, ast.USub) and not isinstance(n.operand, ast.Constant):
            c, t = self._e(n.operand)
            if t == IV:
                return f"(List.map (fun v => -v) {c})", IV
            if t == NAT:
                return f"(-{self._int(c, t)})", I
            return None
        if isinstance(n, ast.BinOp):
            return self._mask_binop(n)
        if isinstance(n, ast.Compare) and len(n.ops) == 1:
            (a, ta), (b, tb) = self._e(n.left), self._e(n.comparators[0])
            if ta in INTS and tb in INTS and NAT in (ta, tb):
                sym = {ast.Eq: "=", ast.NotEq: "≠", ast.GtE: "≥", ast.LtE: "≤", ast.Lt: "<", ast.Gt: ">"}.get(type(n.ops[0]))
                if sym is None:
                    raise Untranslatable(ast.dump(n))
                return f"(decide ({self._int(a, ta)} {sym} {self._int(b, tb)}))", B
            return None
        if isinstance(n, ast.Subscript):
            return self._mask_subscript(n)
        if isinstance(n, ast.Call):
            return self._mask_call(n)
        return None

    def _list(self, n: ast.List):
        if not n.elts:
            raise Untranslatable("empty list literal outside a declared initialisation")
        parts, elem = [], None
        for el in n.elts:
            if isinstance(el, ast.Starred):
                c, t = self._e(el.value)
                if not (isinstance(t, tuple) and t[0] == "L"):
                    raise Untranslatable(f"*{t} in a list literal")
                parts.append(c)
                et = t[1]
            else:
                c, et = self._e(el)
                parts.append(f"[{c}]")
            if elem is not None and et != elem:
                raise Untranslatable(f"list literal mixes {elem} and {et}")
            elem = et
        if elem in ("num",):
            raise Untranslatable("list literal of constants")
        return "(" + " ++ ".join(parts) + ")", ("L", elem)

    def _mask_binop(self, n: ast.BinOp):
        (a, ta), (b, tb) = self._e(n.left), self._e(n.right)
        op = type(n.op)
        if isinstance(ta, tuple) and ta[0] == "L" and op is ast.Mult and tb == NAT:
            return f"(JnpMask.listMul {a} {b})", ta
        if ta == IV and tb in INTS:
            k = self._int(b, tb)
            if op is ast.Mod:
                return f"(List.map (fun v => JnpMask.imod v {k}) {a})", IV  # jnp.remainder(array, int)
            sym = {ast.Add: "+", ast.Sub: "-", ast.Mult: "*"}.get(op)
            if sym is None:
                raise Untranslatable(f"integer array {ast.dump(n.op)} int")
            return f"(List.map (fun v => v {sym} {k}) {a})", IV
        if ta in INTS and tb in INTS and (NAT in (ta, tb) or I in (ta, tb)):
            if op in (ast.Mod, ast.FloorDiv, ast.Div, ast.Pow):
                raise Untranslatable("Python int %, //, /, ** (may raise): not translated")
            sym = {ast.Add: "+", ast.Sub: "-", ast.Mult: "*"}.get(op)
            if sym is None:
                raise Untranslatable(ast.dump(n.op))
            nonneg_lit = lambda t, sd: t == NAT or (t == "num" and isinstance(sd, ast.Constant) and isinstance(sd.value, int) and sd.value >= 0)
            if sym in ("+", "*") and nonneg_lit(ta, n.left) and nonneg_lit(tb, n.right):
                return f"({a} {sym} {b})", NAT
            return f"({self._int(a, ta)} {sym} {self._int(b, tb)})", I
        return None

    def _mask_subscript(self, n: ast.Subscript):
        try:
            base, bt = self._e(n.value)
        except Untranslatable:
            return None
        sl = n.slice
        if bt == IV:
            if (isinstance(sl, ast.Tuple) and len(sl.elts) == 2 and isinstance(sl.elts[0], ast.Slice)
                    and sl.elts[0].lower is None and sl.elts[0].upper is None and sl.elts[0].step is None and _is_none(sl.elts[1])):
                return base, IVC  # v[:, None]
            raise Untranslatable("integer array subscript other than v[:, None]")
        if isinstance(bt, tuple) and bt[0] == "L" and not isinstance(sl, ast.Slice) and bt[1] != py2lean.SH:
            i = self._nat_expr(sl)
            return f"(JnpMask.listGet {base} {i})", bt[1]
        return None

    def _mask_call(self, n: ast.Call):
        fn = ast.unparse(n.func)
        f = n.func
        # m.at[a:b, c:d].set(True)
        if (isinstance(f, ast.Attribute) and f.attr == "set" and isinstance(f.value, ast.Subscript)
                and isinstance(f.value.value, ast.Attribute) and f.value.value.attr == "at"):
            base, bt = self._e(f.value.value.value)
            if bt != BM:
                return None
            idx = f.value.slice
            if not (isinstance(idx, ast.Tuple) and len(idx.elts) == 2 and len(n.args) == 1 and not n.keywords
                    and isinstance(n.args[0], ast.Constant) and isinstance(n.args[0].value, bool)):
                raise Untranslatable(f"Boolean matrix .at[].set form {fn}")
            v = "true" if n.args[0].value else "false"
            return f"(JnpMask.atSetSlice2 {base} {self._slice(idx.elts[0])} {self._slice(idx.elts[1])} {v})", BM
        # op(col[:, None], row)
        if isinstance(f, ast.Name) and self.env.get(f.id) == CMP:
            if len(n.args) != 2 or n.keywords:
                raise Untranslatable("comparison call form")
            (a, ta), (b, tb) = self._e(n.args[0]), self._e(n.args[1])
            if (ta, tb) != (IVC, IV):
                raise Untranslatable(f"comparison of {ta} with {tb}: only a column against a row")
            return f"(JnpMask.outer {f.id} {a} {b})", BM
        if fn in self.tgt.calls or fn in self.env:
            return None
        if fn == "range":
            if len(n.args) != 1 or n.keywords:
                return None
            return f"(List.range {self._nat_expr(n.args[0])})", ("L", NAT)
        if fn == "enumerate":
            if len(n.args) != 1 or n.keywords:
                raise Untranslatable("enumerate form")
            c, t = self._e(n.args[0])
            if not (isinstance(t, tuple) and t[0] == "L"):
                raise Untranslatable(f"enumerate of {t}")
            return f"(JnpMask.enumerate {c})", ("L", T(NAT, t[1]))
        if fn == "max":
            if len(n.args) != 2 or n.keywords:
                raise Untranslatable("max form")
            (a, ta), (b, tb) = self._e(n.args[0]), self._e(n.args[1])
            if ta in INTS and tb in INTS:
                return f"(max {self._int(a, ta)} {self._int(b, tb)})", I
            raise Untranslatable(f"max of {ta}, {tb}")
        if fn == "tuple":
            if len(n.args) == 1 and not n.keywords:
                c, t = self._e(n.args[0])
                if isinstance(t, tuple) and t[0] == "L" and isinstance(t[1], tuple) and t[1][0] == "R":
                    return c, t
            return None
        if fn == "jnp.arange":
            if len(n.args) != 1 or n.keywords:
                raise Untranslatable("jnp.arange form")
            return f"(JnpMask.arange {self._nat_expr(n.args[0])})", IV
        if fn in ("jnp.ones", "jnp.zeros"):
            if len(n.args) != 2 or n.keywords or not isinstance(n.args[1], ast.Name) or n.args[1].id not in ("int", "bool"):
                return None
            dt, sh = n.args[1].id, n.args[0]
            if dt == "int" and fn == "jnp.ones" and not isinstance(sh, ast.Tuple):
                return f"(JnpMask.ones {self._nat_expr(sh)})", IV
            if dt == "bool" and fn == "jnp.zeros" and isinstance(sh, ast.Tuple) and len(sh.elts) == 2 and not any(isinstance(e, ast.Starred) for e in sh.elts):
                return f"(JnpMask.zeros {self._nat_expr(sh.elts[0])} {self._nat_expr(sh.elts[1])})", BM
            if (dt == "bool" and fn == "jnp.ones" and isinstance(sh, ast.Tuple) and len(sh.elts) == 2 and isinstance(sh.elts[1], ast.Starred)
                    and not isinstance(sh.elts[0], ast.Starred)):
                c, t = self._e(sh.elts[1].value)
                if t != T(NAT, NAT):
                    raise Untranslatable(f"jnp.ones((n, *{t}), bool)")
                return f"(JnpMask.ones3 {self._nat_expr(sh.elts[0])} {c}.1 {c}.2)", S3
            raise Untranslatable(f"{fn} form: {ast.unparse(n)}")
        if fn == "jnp.hstack":
            if len(n.args) == 1 and not n.keywords and isinstance(n.args[0], ast.Tuple) and len(n.args[0].elts) == 2:
                (a, ta), (b, tb) = (self._e(e) for e in n.args[0].elts)
                if ta == IV and tb == IV:
                    return f"(JnpMask.hstack {a} {b})", IV
            return None
        if fn == "jnp.repeat":
            if len(n.args) != 2 or n.keywords:
                raise Untranslatable("jnp.repeat form")
            c, t = self._e(n.args[0])
            if t != IV:
                raise Untranslatable(f"jnp.repeat of {t}")
            return f"(JnpMask.repeat {c} {self._nat_expr(n.args[1])})", IV
        if fn == "jnp.asarray":
            if len(n.args) == 2 and not n.keywords and ast.unparse(n.args[1]) == "jnp.int32":
                c, t = self._e(n.args[0])
                if t == IV:
                    return c, IV  # a cast of small integers: identity on values
            return None
        if fn == "block_diag":
            if len(n.args) == 1 and not n.keywords and isinstance(n.args[0], ast.Starred):
                c, t = self._e(n.args[0].value)
                if t == S3:
                    return f"(JnpMask.blockDiag {c})", BM
            raise Untranslatable("block_diag form: only block_diag(*<rank-3 Boolean array>)")
        if fn == "Where":
            if (len(n.args) == 3 and not n.keywords and isinstance(n.args[2], ast.Constant) and n.args[2].value == 0
                    and not isinstance(n.args[2].value, bool)):
                (c, tc), (w, tw) = self._e(n.args[0]), self._e(n.args[1])
                if tc == BM and tw == "ω":
                    return f"({{ cond := {c}, if_true := {w} }} : JnpMask.WhereZ ω)", "JnpMask.WhereZ ω"
            raise Untranslatable("Where form: only Where(<Boolean matrix>, <weight>, 0)")
        if fn == "eqx.tree_at":
            return self._tree_at(n)
        return None

    def _tree_at(self, n: ast.Call):
        kws = {k.arg: k.value for k in n.keywords}
        if len(n.args) == 3 and not kws:
            where, obj, repl = n.args
        elif len(n.args) == 2 and set(kws) == {"replace"}:
            (where, obj), repl = n.args, kws["replace"]
        else:
            raise Untranslatable("eqx.tree_at form")
        if not (isinstance(where, ast.Lambda) and len(where.args.args) == 1 and isinstance(where.body, ast.Attribute)
                and isinstance(where.body.value, ast.Name) and where.body.value.id == where.args.args[0].arg):
            raise Untranslatable("eqx.tree_at: only `lambda v: v.<field>`")
        fld = where.body.attr
        o, to = self._e(obj)
        if not (isinstance(to, tuple) and to[0] == "R" and (to[1], fld) in self.tgt.tree_at):
            raise Untranslatable(f"eqx.tree_at on field {fld} of {to}")
        res = self.tgt.tree_at[(to[1], fld)]
        r, tr_ = self._e(repl)
        want = dict(self.structs[res].fields)[fld]
        if tr_ != want:
            raise Untranslatable(f"eqx.tree_at: replacement of type {tr_}, expected {want}")
        src_fields = [f for f, _ in self.structs[to[1]].fields]
        if src_fields != [f for f, _ in self.structs[res].fields]:
            raise Untranslatable("eqx.tree_at: source and result records differ in more than the replaced field")
        flds = ", ".join(f"{f} := {r}" if f == fld else f"{f} := {o}.{f}" for f in src_fields)
        return "({ " + flds + " } : " + py2lean.lean_type(R(res)) + ")", R(res)

    # ------------------------------------------------------------------ statements
    def stmt_ext(self, st):
        tgt = self.tgt
        # guard loop: `for v in (…): if …: raise`
        if (isinstance(st, ast.For) and not st.orelse and isinstance(st.iter, ast.Tuple)
                and all(isinstance(b, ast.If) and not b.orelse and all(isinstance(s, ast.Raise) for s in b.body) for b in st.body)):
            return []
        if isinstance(st, ast.Assign) and len(st.targets) == 1:
            t0, val = st.targets[0], st.value
            # names bound by a call outside flowjax that the sheet declares as parameters
            if isinstance(val, ast.Call) and ast.unparse(val.func) in getattr(tgt, "opaque", {}):
                names = [e.id for e in t0.elts] if isinstance(t0, ast.Tuple) and all(isinstance(e, ast.Name) for e in t0.elts) else ([t0.id] if isinstance(t0, ast.Name) else None)
                want = tgt.opaque[ast.unparse(val.func)]
                if names is None or tuple(names) != tuple(want):
                    raise Untranslatable(f"{ast.unparse(val.func)} binds {names}, declared {want}")
                for nm in names:  # what the call returns is an unconstrained parameter of the generated definition
                    if nm in self._slice_names and nm not in dict(tgt.free):
                        raise Untranslatable(f"{nm} (bound by {ast.unparse(val.func)}) is used but not declared as a parameter")
                return []
            if (isinstance(t0, ast.Attribute) and isinstance(t0.value, ast.Name) and t0.value.id == "self" and tgt.init_of is None
                    and t0.attr in getattr(tgt, "ignore_self", ())):
                return []
            # `xs = []` with a declared element type
            if isinstance(t0, ast.Name) and isinstance(val, ast.List) and not val.elts:
                lt = getattr(tgt, "list_types", {}).get(t0.id)
                if lt is None:
                    raise Untranslatable(f"{t0.id} = []: element type not declared")
                self.env[t0.id] = lt
                return [f"let {t0.id} : {py2lean.lean_type(lt)} := []"]
            # `a, b, c = (f(v) for v in (a, b, c))`
            if (isinstance(t0, ast.Tuple) and isinstance(val, (ast.GeneratorExp, ast.ListComp)) and len(val.generators) == 1
                    and isinstance(val.generators[0].iter, ast.Tuple)):
                g = val.generators[0]
                if g.ifs or g.is_async or not isinstance(g.target, ast.Name) or len(g.iter.elts) != len(t0.elts) or not all(isinstance(e, ast.Name) for e in t0.elts):
                    raise Untranslatable("tuple unpacking of a generator: form")
                out, news = [], []
                saved = dict(self.env)
                for tg, src in zip(t0.elts, g.iter.elts):
                    c, t = self._e(src)
                    self.env[g.target.id] = t
                    out.append(f"let {tg.id}_new := (let {g.target.id} := {c}; {self.es(val.elt)[0]})")
                    news.append((tg.id, self.es(val.elt)[1]))
                    self.env = dict(saved)
                for nm, t in news:
                    out.append(f"let {nm} := {nm}_new")
                    self.env[nm] = t
                return out
        if (isinstance(st, ast.Expr) and isinstance(st.value, ast.Call) and isinstance(st.value.func, ast.Attribute)
                and st.value.func.attr == "append" and isinstance(st.value.func.value, ast.Name)):
            return self._append(st.value)
        if isinstance(st, ast.If) and st.orelse and isinstance(st.test, ast.Compare) and len(st.test.ops) == 1 \
                and isinstance(st.test.ops[0], (ast.Is, ast.IsNot)) and _is_none(st.test.comparators[0]) and isinstance(st.test.left, ast.Name) \
                and self.env.get(st.test.left.id) == ONAT:
            return self._if_none(st)
        return None

    def _append(self, call: ast.Call):
        nm = call.func.value.id
        t = self.env.get(nm)
        if not (isinstance(t, tuple) and t[0] == "L") or len(call.args) != 1 or call.keywords:
            raise Untranslatable(f"{nm}.append form")
        c, te = self._e(call.args[0])
        if te != t[1]:
            raise Untranslatable(f"{nm}.append({te}) on a list of {t[1]}")
        return [f"let {nm} := ({nm} ++ [{c}])"]

    def _branch(self, stmts):
        """assignments of one branch -> (lines, {name: type}); `self.<ignored>` stores are dropped"""
        lines, names = [], {}
        for b in stmts:
            ext = self.stmt_ext(b)
            if ext is not None:
                if ext:
                    raise Untranslatable("conditional branch: only plain assignments")
                continue
            if not (isinstance(b, ast.Assign) and len(b.targets) == 1 and isinstance(b.targets[0], ast.Name)):
                raise Untranslatable("conditional branch: only plain assignments")
            lines += self.assign(b.targets[0], b.value)
            names[b.targets[0].id] = self.env[b.targets[0].id]
        return lines, names

    def _if_none(self, st: ast.If):
        v = st.test.left.id
        none_body, some_body = (st.body, st.orelse) if isinstance(st.test.ops[0], ast.Is) else (st.orelse, st.body)
        saved = dict(self.env)
        ln, nn = self._branch(none_body)
        self.env = dict(saved)
        self.env[v] = NAT  # inside the other branch the value is an int
        ls, ns = self._branch(some_body)
        self.env = dict(saved)
        if list(nn) != list(ns) or any(nn[k] != ns[k] for k in nn) or not nn:
            raise Untranslatable(f"`if {v} is None`: the branches assign {list(nn.items())} vs {list(ns.items())}")
        names = list(nn)
        pat = names[0] if len(names) == 1 else "(" + ", ".join(names) + ")"
        for k in names:
            self.env[k] = nn[k]
        arm = lambda lines: "(" + "; ".join(lines + [pat]) + ")"
        return [f"let {pat} := (match {v} with\n    | none => {arm(ln)}\n    | some {v} => {arm(ls)})"]

    def forloop(self, st: ast.For):
        """`for i in <list>:` / `for i, v in enumerate(<list>):` -> a left fold over the names the body mutates"""
        if st.orelse:
            raise Untranslatable("for … else")
        ic, ity = self._e(st.iter)
        if not (isinstance(ity, tuple) and ity[0] == "L"):
            raise Untranslatable(f"for loop over {ity}")
        if isinstance(st.target, ast.Name):
            binder, bound = st.target.id, {st.target.id: ity[1]}
        elif (isinstance(st.target, ast.Tuple) and all(isinstance(e, ast.Name) for e in st.target.elts)
              and isinstance(ity[1], tuple) and ity[1][0] == "T" and len(ity[1]) - 1 == len(st.target.elts)):
            binder = "(" + ", ".join(e.id for e in st.target.elts) + ")"
            bound = {e.id: t for e, t in zip(st.target.elts, ity[1][1:])}
        else:
            raise Untranslatable("for loop target")
        assigned = []
        for b in st.body:
            for x in ast.walk(b):
                if isinstance(x, ast.Name) and isinstance(x.ctx, ast.Store) and x.id not in assigned:
                    assigned.append(x.id)
            if (isinstance(b, ast.Expr) and isinstance(b.value, ast.Call) and isinstance(b.value.func, ast.Attribute)
                    and b.value.func.attr == "append" and isinstance(b.value.func.value, ast.Name) and b.value.func.value.id not in assigned):
                assigned.append(b.value.func.value.id)
        if set(assigned) & set(bound):
            raise Untranslatable("for loop re-assigns its own target")
        state = [v for v in assigned if v in self.env]
        if not state:
            raise Untranslatable("for loop mutates nothing")
        saved = dict(self.env)
        self.env.update(bound)
        inner = []
        for b in st.body:
            ext = self.stmt_ext(b)
            if ext is not None:
                inner += ext
            elif isinstance(b, ast.Assign) and len(b.targets) == 1 and isinstance(b.targets[0], ast.Name):
                inner += self.assign(b.targets[0], b.value)
            else:
                raise Untranslatable("for loop body statement " + type(b).__name__)
        for v in state:
            if self.env[v] != saved[v]:
                raise Untranslatable(f"for loop changes the type of {v}: {saved[v]} -> {self.env[v]}")
        self.env = saved
        pat = state[0] if len(state) == 1 else "(" + ", ".join(state) + ")"
        fun = f"(fun {pat} {binder} => " + "; ".join(inner + [pat]) + ")"
        return [f"let {pat} := List.foldl {fun} {pat} {ic}"]

    # names read by the translated slice (set by `body`)
    _slice_names: frozenset = frozenset()

    def body(self, stmts):
        self._slice_names = frozenset(x.id for st in stmts for x in ast.walk(st) if isinstance(x, ast.Name) and isinstance(x.ctx, ast.Load))
        return super().body(stmts)
