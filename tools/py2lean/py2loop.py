"""py2loop: translate the imperative training loops of flowjax/train into Lean state-transition functions
(lean/Flowjaxv/Gen/TrainGen.lean).  Stdlib `ast` only; the source is parsed, never imported.

Every statement of every function listed in the typing sheet (`targets_train.py`) is translated or the function is
REFUSED (an error entry in the generation report = a broken tie).  The subset:

  statements   `x = e`, `a, b = e`, `a, *b = e` (static unpacking), `xs.append(e)`, `if/elif/else` (joins on the assigned
               variables), `if c: raise …` (collected into `<f>_raises`, straight-line prefix only), `for v in it:` without
               `else` (a `List.foldl` of a generated body function over a generated state structure of the loop-carried
               variables; `break` only in the last statement of the body, as a `brk` flag that freezes the state),
               `return e` (last statement), docstrings, progress-bar calls (`set_postfix…` on a `tqdm` object: no-ops).
  expressions  names, int/bool/None constants, `+ - * //` on ints, `float * int`, `loss / int`, comparisons (chains),
               `and/or/not`, `a if c else b` (`v is None` narrows an optional), static tuples/lists, subscripts (`[k]`, `[-1]`,
               `[:e]`, `[e:]`, `d["key"]`, `.shape[0]`), single-generator comprehensions (`List.map` / `List.all`), and the
               library calls of the table in `Tr.call` — each mapped to a function of `Model/TrainWorld.lean`.

A function with a top-level loop is emitted in slices, like the `while_loop`s of `targets_bisect.py`: `<f>_loop<k>` (one
iteration), `<f>_exit` (everything after the loop, as a function of the final loop state) and `<f>` (prologue, fold, exit).

Python `int` → `Int`, `float` → `Float`, arrays → lists of rows, keys → split-tree paths; `raise` conditions met inside
loops (division by zero, `min([])`) are not collected: the hand model's guard (`Train.fitData`) states them.
"""
from __future__ import annotations

import ast
import dataclasses
import os
import re


class Refuse(Exception):
    pass


INT, BOOL, FLOAT, LOSS, KEY, PARAMS, OPT, GRADS, UPD, UNIT, ARR, LARGS = (
    "Int", "Bool", "Float", "Loss", "Path", "π", "ω", "γ", "υ", "Unit", "Arr", "LArgs")
AMBIENT = "<ambient>"
LEAN_KEYWORDS = {"at", "from", "end", "in", "do", "then", "else", "if", "fun", "let", "have", "show", "with", "match", "open",
                 "def", "theorem", "structure", "where", "by", "instance", "class", "namespace", "section", "variable", "s", "W"}


BUILTINS = {"len", "min", "sum", "round", "tuple", "list", "all", "zip", "range"}


def TL(t):
    return ("List", t)


def TO(t):
    return ("Option", t)


def TT(*ts):
    return ("Tup",) + tuple(ts)


def paren(s):
    return s if atomic(s) else f"({s})"


def atomic(s):
    if " " not in s:
        return True
    if s[0] in "([⟨" and s[-1] in ")]⟩":
        depth = 0
        for i, ch in enumerate(s):
            if ch in "([⟨":
                depth += 1
            elif ch in ")]⟩":
                depth -= 1
                if depth == 0 and i != len(s) - 1:
                    return False
        return True
    return False


def lean_ty(t):
    if t == ARR:
        return "List α"
    if t == LARGS:
        return "LossArgs α"
    if isinstance(t, str):
        return t
    if t is None:
        raise Refuse("a list whose element type is unknown")
    if t[0] in ("List", "Option"):
        return f"{t[0]} {paren(lean_ty(t[1]))}"
    if t[0] == "Tup":
        return " × ".join(paren(lean_ty(x)) if isinstance(x, tuple) and x[0] == "Tup" else lean_ty(x) for x in t[1:])
    raise Refuse(f"type {t}")


def tyvars(text):
    return [v for v in "απωγυ" if v in text]


@dataclasses.dataclass
class Fn:
    file: str
    pyname: str
    lean: str
    params: list  # (python name, type | AMBIENT) in signature order; "*args" / "**kwargs" with type LARGS
    hints: dict = dataclasses.field(default_factory=dict)


@dataclasses.dataclass
class V:
    ty: object = None
    code: str = ""
    kind: str = "lean"  # lean | tuple | dict | ambient | none | shape | str
    items: object = None
    ui: bool = False
    head: object = None  # set while the value is the one an enclosing loop iteration started with


def dotted_root(n):
    """root name of a pure dotted chain `a.b.c`, else None"""
    while isinstance(n, ast.Attribute):
        n = n.value
    return n.id if isinstance(n, ast.Name) else None


def proj(code, i, n):
    """component i of an n-tuple `(a, b, c)` = `(a, (b, c))`"""
    if n == 1:
        return code
    path = ".2" * i + (".1" if i < n - 1 else "")
    return f"{code}{path}"


class Tr:
    """translator of one function"""

    def __init__(self, gen, sheet_fn, node):
        self.gen, self.fn, self.node = gen, sheet_fn, node
        self.lines = []
        self.env = {}
        self.tmpc = 0
        self.guard_ok = True
        self.trace = []  # ("let", text) | ("raise", cond) — straight-line prefix, for `<f>_raises`
        self.assigned = []  # stack of sets
        self.killed = []  # stack of sets
        self.headreads = {}  # loop id -> names whose start-of-iteration value is read
        self.loop_depth = 0
        self.ret = None
        self.sig = None

    # ------------------------------------------------------------------ helpers
    def tmp(self):
        self.tmpc += 1
        return f"t{self.tmpc}"

    def check_name(self, name):
        if name in LEAN_KEYWORDS or re.fullmatch(r"t\d+|st\d+|it|brk|raises", name):
            raise Refuse(f"variable name `{name}` clashes with a reserved name of the translation")

    def let(self, name, v):
        if v.kind != "lean":
            raise Refuse(f"cannot bind a {v.kind} value to `{name}`")
        if v.code == "[]":
            line = f"let {name} : {lean_ty(v.ty)} := []"
        else:
            line = f"let {name} := {v.code}"
        self.lines.append(line)
        if self.guard_ok:
            self.trace.append(("let", line))
        if self.assigned:
            self.assigned[-1].add(name)
        return V(v.ty, name)

    def guard(self, cond):
        if self.guard_ok:
            self.trace.append(("raise", cond))

    def boolc(self, v):
        if v.kind != "lean" or v.ty != BOOL:
            raise Refuse(f"a condition of type {v.ty} ({v.kind})")
        return v.code

    def as_list(self, v):
        if v.kind == "tuple":
            items = [self.as_lean(x) for x in v.items]
            tys = {repr(x.ty) for x in items}
            if len(tys) != 1:
                raise Refuse("a tuple with components of different types used as a list")
            return V(TL(items[0].ty), "[" + ", ".join(x.code for x in items) + "]")
        if v.kind == "lean" and isinstance(v.ty, tuple) and v.ty[0] == "List" or v.ty == ARR:
            return v
        raise Refuse(f"a {v.kind} value of type {v.ty} used as a list")

    def as_lean(self, v):
        """Lean value for `return` / tuple components: static tuples become Lean tuples, dicts the tuple of their entries"""
        if v.kind == "lean":
            return v
        if v.kind == "tuple":
            items = [self.as_lean(x) for x in v.items]
            if len(items) == 1:
                raise Refuse("a 1-tuple as a value")
            return V(TT(*[x.ty for x in items]), "(" + ", ".join(x.code for x in items) + ")")
        if v.kind == "dict":
            return self.as_lean(V(kind="tuple", items=[self.env[n] for n in v.items.values()]))
        raise Refuse(f"a {v.kind} value where a Lean value is needed")

    def conv(self, v, ty):
        if isinstance(ty, tuple) and ty[0] == "List" and v.kind == "tuple":
            v = self.as_list(v)
        if v.kind != "lean":
            raise Refuse(f"a {v.kind} value where {ty} is expected")
        if v.ty == ty:
            return v
        if isinstance(v.ty, tuple) and v.ty == ("List", None) and isinstance(ty, tuple) and ty[0] == "List":
            return V(ty, f"([] : {lean_ty(ty)})")
        raise Refuse(f"type {v.ty} where {ty} is expected (`{v.code}`)")

    def dict_entry(self, n):
        """`d["k"]` for a dict variable of the translation -> the entry's variable name"""
        if (isinstance(n, ast.Subscript) and isinstance(n.value, ast.Name) and isinstance(n.slice, ast.Constant)
                and isinstance(n.slice.value, str)):
            d = self.env.get(n.value.id)
            if d is not None and d.kind == "dict":
                if n.slice.value not in d.items:
                    raise Refuse(f"key {n.slice.value!r} of `{n.value.id}`")
                return d.items[n.slice.value]
        return None

    # ------------------------------------------------------------------ expressions
    def ex(self, n) -> V:
        if isinstance(n, ast.Constant):
            c = n.value
            if c is None:
                return V(kind="none")
            if isinstance(c, bool):
                return V(BOOL, "true" if c else "false")
            if isinstance(c, int):
                return V(INT, str(c))
            if isinstance(c, str):
                return V(kind="str", items=c)
            raise Refuse(f"constant {c!r}")
        if isinstance(n, ast.Name):
            if n.id in self.env:
                self.use(n.id, self.env[n.id])
                return self.env[n.id]
            raise Refuse(f"name `{n.id}` is not defined on every path to this point (or is outside the subset)")
        if isinstance(n, (ast.Tuple, ast.List)):
            if any(isinstance(e, ast.Starred) for e in n.elts):
                raise Refuse("starred element in a tuple display")
            if not n.elts and isinstance(n, ast.List):
                return V(TL(None), "[]")
            return V(kind="tuple", items=[self.ex(e) for e in n.elts])
        if isinstance(n, ast.Dict):
            raise Refuse("a dict display is only supported as `name = {\"k\": [], …}`")
        if isinstance(n, ast.UnaryOp):
            a = self.ex(n.operand)
            if isinstance(n.op, ast.Not):
                return V(BOOL, f"!{paren(self.boolc(a))}")
            if isinstance(n.op, ast.USub) and a.kind == "lean" and a.ty == INT:
                return V(INT, f"-{paren(a.code)}")
            raise Refuse(f"unary {type(n.op).__name__} on {a.ty}")
        if isinstance(n, ast.BoolOp):
            cs = [paren(self.boolc(self.ex(v))) for v in n.values]
            return V(BOOL, (" && " if isinstance(n.op, ast.And) else " || ").join(cs))
        if isinstance(n, ast.BinOp):
            return self.binop(n)
        if isinstance(n, ast.Compare):
            return self.compare(n)
        if isinstance(n, ast.IfExp):
            return self.ifexp(n)
        if isinstance(n, ast.Attribute):
            if n.attr == "shape":
                a = self.ex(n.value)
                if a.kind == "lean" and a.ty == ARR:
                    return V(kind="shape", code=a.code)
            raise Refuse(f"attribute `.{n.attr}`")
        if isinstance(n, ast.Subscript):
            return self.subscript(n)
        if isinstance(n, ast.Call):
            return self.call(n)
        if isinstance(n, (ast.ListComp, ast.GeneratorExp)):
            return self.comp(n, "map")
        raise Refuse(f"expression {type(n).__name__}: `{ast.unparse(n)[:60]}`")

    def binop(self, n):
        a, b = self.ex(n.left), self.ex(n.right)
        if a.kind != "lean" or b.kind != "lean":
            raise Refuse(f"operator on {a.kind}/{b.kind} values")
        op = type(n.op).__name__
        if a.ty == INT and b.ty == INT:
            if op in ("Add", "Sub", "Mult"):
                return V(INT, f"{paren(a.code)} {dict(Add='+', Sub='-', Mult='*')[op]} {paren(b.code)}")
            if op == "FloorDiv":
                self.guard(f"{paren(b.code)} == 0")
                return V(INT, f"Int.fdiv {paren(a.code)} {paren(b.code)}")
        if op == "Mult" and {a.ty, b.ty} == {INT, FLOAT}:
            f, i = (a, b) if a.ty == FLOAT else (b, a)
            return V(FLOAT, f"Py.fmul {paren(f.code)} {paren(i.code)}")
        if op == "Div" and a.ty == LOSS and b.ty == INT:
            self.guard(f"{paren(b.code)} == 0")
            return V(LOSS, f"W.ldiv {paren(a.code)} {paren(b.code)}")
        raise Refuse(f"operator {op} on {a.ty} and {b.ty}")

    def compare(self, n):
        operands = [n.left] + list(n.comparators)
        parts = []
        for op, l, r in zip(n.ops, operands, operands[1:]):
            parts.append(self.compare1(op, l, r))
        return V(BOOL, parts[0] if len(parts) == 1 else " && ".join(paren(p) for p in parts))

    def compare1(self, op, l, r):
        a, b = self.ex(l), self.ex(r)
        o = type(op).__name__
        if o in ("Is", "IsNot"):
            if b.kind == "none" and a.kind == "lean" and isinstance(a.ty, tuple) and a.ty[0] == "Option":
                return f"{paren(a.code)}.{'isNone' if o == 'Is' else 'isSome'}"
            raise Refuse("`is` other than `<optional> is None`")
        if a.kind != "lean" or b.kind != "lean":
            raise Refuse(f"comparison of {a.kind}/{b.kind} values")
        # an int literal against a float is the float literal
        if a.ty == FLOAT and b.ty == INT and re.fullmatch(r"-?\d+", b.code):
            b = V(FLOAT, f"({b.code} : Float)")
        if b.ty == FLOAT and a.ty == INT and re.fullmatch(r"-?\d+", a.code):
            a = V(FLOAT, f"({a.code} : Float)")
        sym = dict(Lt="<", LtE="≤", Gt=">", GtE="≥")
        if o in sym:
            if a.ty == b.ty and a.ty in (INT, FLOAT, LOSS):
                return f"decide ({a.code} {sym[o]} {b.code})"
            raise Refuse(f"ordering comparison of {a.ty} and {b.ty}")
        if o in ("Eq", "NotEq"):
            # a possibly-raising operand (`min(l)`, `l[-1]`) is an Option; the other side is lifted
            oa = isinstance(a.ty, tuple) and a.ty[0] == "Option"
            ob = isinstance(b.ty, tuple) and b.ty[0] == "Option"
            if oa and not ob:
                b = V(TO(b.ty), f"some {paren(b.code)}")
            if ob and not oa:
                a = V(TO(a.ty), f"some {paren(a.code)}")
            if a.ty != b.ty or a.ty not in (INT, LOSS, BOOL, TO(LOSS), TO(INT)):
                raise Refuse(f"equality of {a.ty} and {b.ty}")
            return f"{paren(a.code)} {'==' if o == 'Eq' else '!='} {paren(b.code)}"
        raise Refuse(f"comparison {o}")

    def unify(self, a, b):
        if a.kind == "tuple" or b.kind == "tuple":
            a, b = self.as_list(a), self.as_list(b)
        if a.kind != "lean" or b.kind != "lean":
            raise Refuse(f"branches of kinds {a.kind}/{b.kind}")
        if a.ty != b.ty:
            raise Refuse(f"branches of types {a.ty} and {b.ty}")
        return a, b

    def ifexp(self, n):
        t = n.test
        if (isinstance(t, ast.Compare) and len(t.ops) == 1 and isinstance(t.ops[0], (ast.Is, ast.IsNot)) and isinstance(t.left, ast.Name)
                and isinstance(t.comparators[0], ast.Constant) and t.comparators[0].value is None):
            v = self.env.get(t.left.id)
            if v is not None and v.kind == "lean" and isinstance(v.ty, tuple) and v.ty[0] == "Option" and v.code == t.left.id:
                none_e, some_e = (n.body, n.orelse) if isinstance(t.ops[0], ast.Is) else (n.orelse, n.body)
                a = self.ex(none_e)
                saved = self.env[t.left.id]
                self.env[t.left.id] = V(v.ty[1], t.left.id)  # narrowed in the other branch
                try:
                    b = self.ex(some_e)
                finally:
                    self.env[t.left.id] = saved
                a, b = self.unify(a, b)
                return V(a.ty, f"Option.elim {t.left.id} {paren(a.code)} (fun {t.left.id} => {b.code})")
        c = self.boolc(self.ex(t))
        a, b = self.unify(self.ex(n.body), self.ex(n.orelse))
        return V(a.ty, f"if {c} then {a.code} else {b.code}")

    def const_int(self, n):
        if isinstance(n, ast.Constant) and isinstance(n.value, int) and not isinstance(n.value, bool):
            return n.value
        if isinstance(n, ast.UnaryOp) and isinstance(n.op, ast.USub) and isinstance(n.operand, ast.Constant) and isinstance(n.operand.value, int):
            return -n.operand.value
        return None

    def subscript(self, n):
        e = self.dict_entry(n)
        if e is not None:
            if e not in self.env:
                raise Refuse(f"`{ast.unparse(n)}` is not defined on every path to this point")
            self.use(e, self.env[e])
            return self.env[e]
        v = self.ex(n.value)
        k = self.const_int(n.slice)
        if v.kind == "shape":
            if k == 0:
                return V(INT, f"({paren(v.code)}.length : Int)")
            raise Refuse("`.shape[…]` other than `.shape[0]`")
        if v.kind == "tuple":
            if k is None or not -len(v.items) <= k < len(v.items):
                raise Refuse("index into a static tuple must be a literal in range")
            return v.items[k]
        if v.kind == "lean" and (v.ty == ARR or isinstance(v.ty, tuple) and v.ty[0] == "List"):
            elt = "α" if v.ty == ARR else v.ty[1]
            if isinstance(n.slice, ast.Slice):
                s = n.slice
                if s.step is not None or (s.lower is None) == (s.upper is None):
                    raise Refuse("slice other than `[:e]` / `[e:]`")
                b = self.ex(s.upper if s.lower is None else s.lower)
                if b.kind != "lean" or b.ty != INT:
                    raise Refuse("slice bound that is not an int")
                return V(v.ty, f"Py.{'sliceTo' if s.lower is None else 'sliceFrom'} {paren(v.code)} {paren(b.code)}")
            if v.ty == ARR:
                raise Refuse("a single row of an array")
            if k == -1:
                return V(TO(elt), f"{paren(v.code)}.getLast?")
            if k is not None and k >= 0:
                self.guard(f"decide ({paren(v.code)}.length ≤ {k})")
                return V(elt, f"Py.idx {paren(v.code)} {k}")
        raise Refuse(f"subscript `{ast.unparse(n)[:60]}`")

    def comp(self, n, how):
        if len(n.generators) != 1 or n.generators[0].ifs or n.generators[0].is_async or not isinstance(n.generators[0].target, ast.Name):
            raise Refuse("comprehension other than `f(v) for v in xs`")
        g = n.generators[0]
        it = self.as_list(self.ex(g.iter))
        elt = ARR if it.ty == TL(ARR) else it.ty[1]
        if it.ty == ARR:
            raise Refuse("comprehension over the rows of an array")
        name = g.target.id
        self.check_name(name)
        saved = self.env.get(name)
        saved_guard = self.guard_ok
        self.guard_ok = False
        self.env[name] = V(elt, name)
        try:
            body = self.ex(n.elt)
        finally:
            self.guard_ok = saved_guard
            if saved is None:
                del self.env[name]
            else:
                self.env[name] = saved
        if body.kind != "lean":
            raise Refuse("comprehension element that is not a single value")
        if how == "all":
            return V(BOOL, f"List.all {paren(it.code)} (fun {name} => {self.boolc(body)})")
        return V(TL(body.ty), f"List.map (fun {name} => {body.code}) {paren(it.code)}")

    # ------------------------------------------------------------------ calls
    def ambient_only(self, n):
        """the expression reads nothing but ambient names, constants and library attributes"""
        for x in ast.walk(n):
            if isinstance(x, ast.Name) and isinstance(x.ctx, ast.Load):
                v = self.env.get(x.id)
                if v is not None and v.kind != "ambient":
                    return False
        return True

    def pack(self, pos, kws):
        """the arguments a loss function receives after (params, static)"""
        if (len(pos) == 1 and isinstance(pos[0], ast.Starred) and len(kws) == 1 and kws[0].arg is None
                and isinstance(pos[0].value, ast.Name) and isinstance(kws[0].value, ast.Name)):
            a, b = self.env.get(pos[0].value.id), self.env.get(kws[0].value.id)
            if a is not None and b is not None and a.ty == LARGS and b.ty == LARGS and a.code == b.code:
                return a
        arrays, key = None, None
        for p in pos:
            if isinstance(p, ast.Starred):
                v = self.ex(p.value)
                if v.kind == "lean" and v.ty == TL(ARR) and arrays is None:
                    arrays = v.code
                    continue
                raise Refuse("starred argument of a loss call that is not one list of arrays")
            v = self.ex(p)
            if v.kind == "lean" and v.ty == KEY and key is None:
                key = v.code
                continue
            raise Refuse(f"positional argument `{ast.unparse(p)}` of a loss call")
        for k in kws:
            v = self.ex(k.value)
            if k.arg == "key" and v.kind == "lean" and v.ty == KEY and key is None:
                key = v.code
                continue
            raise Refuse(f"keyword argument `{k.arg}` of a loss call")
        return V(LARGS, f"LossArgs.mk {paren(arrays or '[]')} {paren('some ' + paren(key)) if key else 'none'}")

    def args_exact(self, n, npos, kws=()):
        if len(n.args) != npos or any(isinstance(a, ast.Starred) for a in n.args) or sorted(k.arg or "**" for k in n.keywords) != sorted(kws):
            raise Refuse(f"call `{ast.unparse(n)[:70]}`: unexpected arguments")

    def call(self, n):
        f = ast.unparse(n.func)
        g = self.gen
        # ---- methods
        if isinstance(n.func, ast.Attribute) and (dotted_root(n.func) is None or dotted_root(n.func) in self.env):
            recv = n.func.value
            if n.func.attr == "item":
                self.args_exact(n, 0)
                v = self.ex(recv)
                if v.kind == "lean" and v.ty in (LOSS, INT):
                    return v
                raise Refuse(f"`.item()` on {v.ty}")
            if n.func.attr == "reshape":
                v = self.ex(recv)
                base = ast.unparse(n.args[2].value) if len(n.args) == 3 and isinstance(n.args[2], ast.Starred) else None
                if v.kind == "lean" and v.ty == ARR and base is not None and not n.keywords and base.endswith(".shape[1:]"):
                    src = self.ex(ast.parse(base[: -len(".shape[1:]")], mode="eval").body)
                    nb, b = self.ex(n.args[0]), self.ex(n.args[1])
                    if src.kind == "lean" and src.ty == ARR and nb.ty == INT and b.ty == INT:
                        return V(TL(ARR), f"Py.reshape2 {paren(v.code)} {paren(nb.code)} {paren(b.code)}")
                raise Refuse(f"reshape other than `a.reshape(n, b, *arr.shape[1:])`: `{ast.unparse(n)[:70]}`")
            if isinstance(recv, ast.Name) and self.env.get(recv.id) is not None and self.env[recv.id].kind == "ambient" and recv.id == "optimizer":
                if n.func.attr == "init":
                    self.args_exact(n, 1)
                    return V(OPT, f"W.optInit {paren(self.conv(self.ex(n.args[0]), PARAMS).code)}")
                if n.func.attr == "update":
                    self.args_exact(n, 2, ("params",))
                    gr, os_ = self.ex(n.args[0]), self.conv(self.ex(n.args[1]), OPT)
                    pr = self.conv(self.ex(n.keywords[0].value), PARAMS)
                    if gr.kind != "lean" or gr.ty != GRADS:
                        raise Refuse("optimizer.update on something that is not the gradient")
                    return V(TT(UPD, OPT), f"W.optUpdate {paren(gr.code)} {paren(os_.code)} {paren(pr.code)}")
            raise Refuse(f"method call `{ast.unparse(n)[:70]}`")
        # ---- the loss function
        if f == "loss_fn" or f == "eqx.filter_value_and_grad(loss_fn)":
            if self.env.get("loss_fn") is None or self.env["loss_fn"].kind != "ambient":
                raise Refuse("`loss_fn` is not the ambient loss function here")
            if f != "loss_fn":
                g.need(self.fn.file, "eqx")
            if len(n.args) < 2:
                raise Refuse("loss call without (params, static)")
            pr, st = self.conv(self.ex(n.args[0]), PARAMS), self.ex(n.args[1])
            if st.kind != "lean" or st.ty != UNIT:
                raise Refuse("second argument of the loss function is not `static`")
            la = self.pack(n.args[2:], n.keywords)
            if f == "loss_fn":
                return V(LOSS, f"W.lossFn {paren(pr.code)} {paren(la.code)}")
            return V(TT(LOSS, GRADS), f"W.valueAndGrad {paren(pr.code)} {paren(la.code)}")
        if not isinstance(n.func, (ast.Name, ast.Attribute)):
            raise Refuse(f"call of `{f[:60]}`")
        root = f.split(".")[0]
        if root in self.env:
            raise Refuse(f"call of the local value `{f}`")
        # ---- functions translated from the source
        if f in g.funcs_by_py:
            g.need(self.fn.file, f)
            return self.call_gen(g.funcs_by_py[f], n)
        if f in g.sheet_py:
            raise Refuse(f"calls `{f}`, which was refused")
        # ---- library
        if root in g.sheet.IMPORTS:
            g.need(self.fn.file, root)
        if f in BUILTINS:
            g.need(self.fn.file, f)  # must NOT be bound at module level
        if f == "jr.split":
            if not 1 <= len(n.args) <= 2 or n.keywords:
                raise Refuse("jr.split arguments")
            k = self.conv(self.ex(n.args[0]), KEY)
            cnt = 2 if len(n.args) == 1 else self.const_int(n.args[1])
            if cnt is not None:
                if cnt < 0:
                    raise Refuse("negative split count")
                return V(kind="tuple", items=[V(KEY, f"child {paren(k.code)} {cnt} {i}") for i in range(cnt)])
            c = self.conv(self.ex(n.args[1]), INT)
            return V(TL(KEY), f"Py.split {paren(k.code)} {paren(c.code)}")
        if f == "jr.permutation":
            self.args_exact(n, 2)
            k, a = self.conv(self.ex(n.args[0]), KEY), self.conv(self.ex(n.args[1]), ARR)
            return V(ARR, f"Py.permutation W {paren(k.code)} {paren(a.code)}")
        if f in ("jnp.asarray", "jnp.array"):
            self.args_exact(n, 1)
            v = self.ex(n.args[0])
            if v.kind == "lean" and v.ty in (ARR, TL(LOSS)):
                return v
            raise Refuse(f"{f} of {v.ty}")
        if f == "jnp.argmin":
            self.args_exact(n, 1)
            v = self.conv(self.ex(n.args[0]), TL(LOSS))
            self.guard(f"{paren(v.code)}.isEmpty")
            return V(INT, f"Py.argmin {paren(v.code)}")
        if f == "len":
            self.args_exact(n, 1)
            v = self.ex(n.args[0])
            if v.kind == "tuple":
                return V(INT, str(len(v.items)))
            if v.kind == "lean" and (v.ty == ARR or isinstance(v.ty, tuple) and v.ty[0] == "List"):
                return V(INT, f"({paren(v.code)}.length : Int)")
            raise Refuse(f"len of {v.ty}")
        if f == "min":
            if n.keywords:
                raise Refuse("min with keywords")
            if len(n.args) == 2:
                a, b = self.conv(self.ex(n.args[0]), INT), self.conv(self.ex(n.args[1]), INT)
                return V(INT, f"min {paren(a.code)} {paren(b.code)}")
            self.args_exact(n, 1)
            v = self.conv(self.ex(n.args[0]), TL(LOSS))
            return V(TO(LOSS), f"listMin? {paren(v.code)}")
        if f == "sum":
            self.args_exact(n, 1)
            v = self.conv(self.ex(n.args[0]), TL(LOSS))
            return V(LOSS, f"W.lsum {paren(v.code)}")
        if f == "round":
            self.args_exact(n, 1)
            v = self.conv(self.ex(n.args[0]), FLOAT)
            return V(INT, f"Py.round {paren(v.code)}")
        if f in ("tuple", "list", "all"):
            self.args_exact(n, 1)
            if isinstance(n.args[0], (ast.GeneratorExp, ast.ListComp)):
                return self.comp(n.args[0], "all" if f == "all" else "map")
            raise Refuse(f"{f}(…) of something that is not a comprehension")
        if f == "zip":
            if (len(n.args) == 1 and isinstance(n.args[0], ast.Starred) and len(n.keywords) == 1 and n.keywords[0].arg == "strict"
                    and isinstance(n.keywords[0].value, ast.Constant) and n.keywords[0].value.value is True):
                v = self.ex(n.args[0].value)
                if v.kind == "lean" and isinstance(v.ty, tuple) and v.ty[0] == "List" and isinstance(v.ty[1], tuple) and v.ty[1][0] == "List":
                    return V(v.ty, f"Py.zipStar {paren(v.code)}")
            raise Refuse("zip other than `zip(*lists, strict=True)`")
        if f == "range":
            self.args_exact(n, 1)
            v = self.conv(self.ex(n.args[0]), INT)
            return V(TL(INT), f"Py.range {paren(v.code)}")
        if f == "tqdm":
            if len(n.args) != 1 or any(k.arg != "disable" or not self.ambient_only(k.value) for k in n.keywords):
                raise Refuse("tqdm arguments")
            v = self.as_list(self.ex(n.args[0]))
            return V(v.ty, v.code, ui=True)
        if f == "eqx.partition":
            want = "eqx.partition(dist, eqx.is_inexact_array, is_leaf=lambda leaf: isinstance(leaf, wrappers.NonTrainable))"
            if ast.unparse(n) != want:
                raise Refuse(f"eqx.partition call differs from `{want}`")
            g.need(self.fn.file, "wrappers")
            d = self.conv(self.ex(n.args[0]), PARAMS)
            return V(kind="tuple", items=[d, V(UNIT, "()")])
        if f == "eqx.combine":
            self.args_exact(n, 2)
            p, s = self.conv(self.ex(n.args[0]), PARAMS), self.conv(self.ex(n.args[1]), UNIT)
            return p
        if f == "eqx.apply_updates":
            self.args_exact(n, 2)
            p, u = self.conv(self.ex(n.args[0]), PARAMS), self.conv(self.ex(n.args[1]), UPD)
            return V(PARAMS, f"W.applyUpdates {paren(p.code)} {paren(u.code)}")
        raise Refuse(f"call of `{f[:60]}` is outside the subset")

    def call_gen(self, info, n):
        sheet = info["sheet"]
        names = [p for p, _ in sheet.params]
        fixed = [p for p in names if not p.startswith("*")]
        star = names.index("*args") if "*args" in names else None
        npos_fixed = star if star is not None else len(fixed)
        bound, extra_pos, extra_kw = {}, [], []
        for i, a in enumerate(n.args):
            if i < npos_fixed and not isinstance(a, ast.Starred):
                bound[names[i]] = a
            elif star is not None and i >= npos_fixed:
                extra_pos.append(a)
            else:
                raise Refuse(f"positional argument {i} of `{sheet.pyname}`")
        for k in n.keywords:
            if k.arg in fixed and k.arg not in bound:
                bound[k.arg] = k.value
            elif "**kwargs" in names:
                extra_kw.append(k)
            else:
                raise Refuse(f"keyword `{k.arg}` of `{sheet.pyname}`")
        args, done_pack = [], False
        for p, ty in sheet.params:
            if p.startswith("*"):
                if not done_pack:
                    args.append(paren(self.pack(extra_pos, extra_kw).code))
                    done_pack = True
                continue
            if ty == AMBIENT:
                if p in bound and not (isinstance(bound[p], ast.Name) and bound[p].id == p and self.env.get(p) is not None and self.env[p].kind == "ambient"):
                    raise Refuse(f"`{sheet.pyname}({p}=…)` is not handed the ambient `{p}`")
                continue
            if p not in bound:
                raise Refuse(f"`{sheet.pyname}` called without `{p}` (defaults are not modelled)")
            args.append(paren(self.conv(self.ex(bound[p]), ty).code))
        w = ["W"] if info["usesW"] else []
        return V(info["ret"], " ".join([f"{sheet.lean}"] + w + args))

    # ------------------------------------------------------------------ statements
    def assign_name(self, name, v):
        self.check_name(name)
        old = self.env.get(name)
        if old is not None and old.kind == "ambient":
            raise Refuse(f"assignment to the ambient `{name}`")
        if v.kind == "tuple":
            items = []
            for i, x in enumerate(v.items):
                if x.kind != "lean":
                    raise Refuse("nested static tuple bound to a name")
                nm = f"{name}_{i}"
                self.env[nm] = self.let(nm, x)
                items.append(self.env[nm])
            self.env[name] = V(kind="tuple", items=items)
            if self.assigned:
                self.assigned[-1].add(name)
            return
        if v.kind != "lean":
            raise Refuse(f"a {v.kind} value bound to `{name}`")
        if v.ty == TL(None):
            hint = self.fn.hints.get(name)
            if hint is None:
                raise Refuse(f"`{name} = []`: element type not in the sheet")
            v = V(hint, "[]")
        nv = self.let(name, V(v.ty, v.code))
        nv.ui = v.ui
        self.env[name] = nv

    def do_assign(self, st):
        if len(st.targets) != 1:
            raise Refuse("chained assignment")
        tgt = st.targets[0]
        if isinstance(tgt, ast.Name) and isinstance(st.value, ast.Dict):
            d = {}
            for k, val in zip(st.value.keys, st.value.values):
                if not (isinstance(k, ast.Constant) and isinstance(k.value, str) and isinstance(val, ast.List) and not val.elts):
                    raise Refuse("dict display other than `{\"k\": [], …}`")
                hint = self.fn.hints.get(f"{tgt.id}.{k.value}")
                if hint is None:
                    raise Refuse(f"`{tgt.id}[{k.value!r}] = []`: element type not in the sheet")
                nm = f"{tgt.id}_{k.value}"
                self.check_name(nm)
                self.env[nm] = self.let(nm, V(hint, "[]"))
                d[k.value] = nm
            self.env[tgt.id] = V(kind="dict", items=d)
            return
        v = self.ex(st.value)
        if isinstance(tgt, ast.Name):
            return self.assign_name(tgt.id, v)
        if isinstance(tgt, (ast.Tuple, ast.List)):
            elts = tgt.elts
            stars = [i for i, e in enumerate(elts) if isinstance(e, ast.Starred)]
            if len(stars) > 1 or not all(isinstance(e.value if isinstance(e, ast.Starred) else e, ast.Name) for e in elts):
                raise Refuse("unpacking target")
            if v.kind == "lean" and isinstance(v.ty, tuple) and v.ty[0] == "Tup":
                if stars:
                    raise Refuse("starred unpacking of a function result")
                tys = v.ty[1:]
                t = self.let(self.tmp(), v)
                v = V(kind="tuple", items=[V(ty, proj(t.code, i, len(tys))) for i, ty in enumerate(tys)])
            if v.kind != "tuple":
                raise Refuse(f"unpacking a {v.kind} value of type {v.ty}")
            items = list(v.items)
            if stars:
                i = stars[0]
                rest = len(elts) - 1 - i
                if len(items) < len(elts) - 1:
                    raise Refuse("not enough values to unpack")
                items = items[:i] + [V(kind="tuple", items=items[i:len(items) - rest])] + items[len(items) - rest:]
            if len(items) != len(elts):
                raise Refuse(f"unpacking {len(items)} values into {len(elts)} targets")
            # right-hand side first (simultaneous assignment): temporaries, then the targets
            tmps = []
            for x in items:
                if x.kind == "tuple":
                    tmps.append(V(kind="tuple", items=[self.let(self.tmp(), y) for y in x.items]))
                else:
                    tmps.append(self.let(self.tmp(), x) if x.kind == "lean" and not re.fullmatch(r"t\d+(\.[12])*", x.code) else x)
            for e, x in zip(elts, tmps):
                self.assign_name((e.value if isinstance(e, ast.Starred) else e).id, x)
            return
        raise Refuse(f"assignment target `{ast.unparse(tgt)}`")

    def is_ui_call(self, e):
        return (isinstance(e, ast.Call) and isinstance(e.func, ast.Attribute) and isinstance(e.func.value, ast.Name)
                and e.func.attr in ("set_postfix", "set_postfix_str", "set_description", "update", "close")
                and self.env.get(e.func.value.id) is not None and self.env[e.func.value.id].ui)

    def do_expr(self, st):
        e = st.value
        if isinstance(e, ast.Constant) and isinstance(e.value, str):
            return
        if self.is_ui_call(e):
            return
        if isinstance(e, ast.Call) and isinstance(e.func, ast.Attribute) and e.func.attr == "append" and len(e.args) == 1 and not e.keywords:
            recv = e.func.value
            name = self.dict_entry(recv) or (recv.id if isinstance(recv, ast.Name) else None)
            if name is None or name not in self.env:
                raise Refuse(f"append to `{ast.unparse(recv)}`")
            lst = self.env[name]
            self.use(name, lst)
            v = self.ex(e.args[0])
            if lst.kind != "lean" or not (isinstance(lst.ty, tuple) and lst.ty[0] == "List") or v.kind != "lean" or v.ty != lst.ty[1]:
                raise Refuse(f"append of {v.ty} to `{name}` of type {lst.ty}")
            self.env[name] = self.let(name, V(lst.ty, f"{lst.code} ++ [{v.code}]"))
            return
        raise Refuse(f"expression statement `{ast.unparse(e)[:60]}`")

    def is_ambient_if(self, st):
        if not self.ambient_only(st.test):
            return False
        for b in st.body + st.orelse:
            if not (isinstance(b, ast.Assign) and len(b.targets) == 1 and isinstance(b.targets[0], ast.Name)
                    and self.env.get(b.targets[0].id) is not None and self.env[b.targets[0].id].kind == "ambient" and self.ambient_only(b.value)):
                return False
        return True

    def branch(self, body):
        saved = (self.lines, dict(self.env), self.guard_ok)
        self.lines, self.guard_ok = [], False
        self.assigned.append(set())
        try:
            self.block(body, in_branch=True)
            return self.lines, self.env, self.assigned[-1]
        finally:
            self.assigned.pop()
            self.lines, self.env, self.guard_ok = saved

    def do_if(self, st):
        if len(st.body) == 1 and isinstance(st.body[0], ast.Raise) and not st.orelse:
            text = ast.unparse(st.test)
            if not self.guard_ok:
                raise Refuse("`raise` inside a loop or branch")
            if text in self.gen.sheet.OPAQUE_GUARDS:
                for x in ast.walk(st.test):
                    if isinstance(x, ast.Name) and x.id in self.gen.sheet.IMPORTS:
                        self.gen.need(self.fn.file, x.id)
                self.trace.append(("raise", self.gen.sheet.OPAQUE_GUARDS[text][0]))
            else:
                self.trace.append(("raise", self.boolc(self.ex(st.test))))
            return
        if self.is_ambient_if(st):
            return
        chain, cur = [], st
        while True:
            chain.append((cur.test, cur.body))
            if len(cur.orelse) == 1 and isinstance(cur.orelse[0], ast.If):
                cur = cur.orelse[0]
                continue
            if cur.orelse:
                chain.append((None, cur.orelse))
            break
        conds, results, names = [], [], set()
        for test, body in chain:
            conds.append(self.boolc(self.ex(test)) if test is not None else None)
            lines, env, assigned = self.branch(body)
            results.append((lines, env))
            names |= assigned
        order = [n for n in self.env if n in names]
        for nm in names:
            if nm not in self.env:
                raise Refuse(f"`{nm}` is assigned only inside a branch")
        if not order:
            return
        for nm in order:
            if self.env[nm].kind != "lean":
                raise Refuse(f"`{nm}` ({self.env[nm].kind}) assigned inside a branch")
            for _, env in results:
                if env[nm].kind != "lean" or env[nm].ty != self.env[nm].ty:
                    raise Refuse(f"`{nm}` changes type in a branch")

        def value(lines, env):
            for nm in order:
                self.use(nm, env[nm])
            t = ", ".join(env[nm].code for nm in order)
            t = t if len(order) == 1 else f"({t})"
            return t if not lines else "(" + "; ".join(lines + [t]) + ")"

        if conds[-1] is not None:
            conds.append(None)
            results.append(([], self.env))
        expr = value(*results[-1])
        for c, r in zip(reversed(conds[:-1]), reversed(results[:-1])):
            expr = f"if {c} then {value(*r)} else {paren(expr) if expr.startswith('if ') else expr}"
        if len(order) == 1:
            self.env[order[0]] = self.let(order[0], V(self.env[order[0]].ty, expr))
        else:
            t = self.let(self.tmp(), V(TT(*[self.env[nm].ty for nm in order]), expr))
            for i, nm in enumerate(order):
                self.env[nm] = self.let(nm, V(self.env[nm].ty, proj(t.code, i, len(order))))

    def reads_of(self, stmts):
        out = set()
        for st in self.walk_same_loop(stmts, into_loops=True):
            if isinstance(st, ast.Expr) and self.is_ui_call(st.value):
                continue
            for x in (y for ch in ast.iter_child_nodes(st) if not isinstance(ch, ast.stmt) for y in ast.walk(ch)):
                if isinstance(x, ast.Name) and isinstance(x.ctx, ast.Load):
                    v = self.env.get(x.id)
                    if v is None:
                        continue
                    if v.kind == "dict":
                        out |= set(v.items.values())
                    elif v.kind == "tuple":
                        out |= {y.code for y in v.items if y.kind == "lean"}
                    else:
                        out.add(x.id)
        return out

    def assigned_of(self, stmts):
        out = set()
        for st in stmts:
            for x in ast.walk(st):
                if isinstance(x, ast.Name) and isinstance(x.ctx, ast.Store):
                    out.add(x.id)
                if isinstance(x, ast.Call) and isinstance(x.func, ast.Attribute) and x.func.attr == "append":
                    e = self.dict_entry(x.func.value)
                    if e:
                        out.add(e)
                    elif isinstance(x.func.value, ast.Name):
                        out.add(x.func.value.id)
        return out

    def use(self, name, v):
        """a read of variable `name`: recorded when the value is still the one the enclosing loop iteration started with"""
        if v.head is not None:
            self.headreads[v.head].add(name)
        if v.kind == "tuple":
            for y in v.items:
                if y.kind == "lean" and y.head is not None:
                    self.headreads[y.head].add(y.code)

    def kill(self, names):
        """variables a loop assigns without carrying them: their value after the loop is not modelled — any later read is refused"""
        names = set(names)
        for nm, v in list(self.env.items()):
            if nm in names or (v.kind == "tuple" and any(y.kind == "lean" and y.code in names for y in v.items)):
                del self.env[nm]
        if self.killed:
            self.killed[-1] |= names

    def do_for(self, st, rest=None):
        """translate the loop; `rest` (function level only) = the statements after it, emitted as `<f>_exit`.

        The loop state (`structure <F>St<k>`) holds exactly the variables that an iteration assigns AND whose value at the start of
        the iteration is read (by the iteration itself); the other variables defined before the loop and read by the body are
        parameters of the body function.  A variable the body assigns but does not carry (the loop target, a scratch variable that
        is always assigned before it is read) is undefined after the loop as far as the translation is concerned."""
        if st.orelse:
            raise Refuse("`for … else`")
        if not isinstance(st.target, ast.Name):
            raise Refuse("loop target other than a name")
        it = self.ex(st.iter)
        if it.kind == "tuple":
            it = self.as_list(it)
        if it.kind != "lean" or not (isinstance(it.ty, tuple) and it.ty[0] == "List"):
            raise Refuse(f"iteration over `{ast.unparse(st.iter)[:50]}` ({it.ty})")
        elt = it.ty[1]
        k = self.gen.next_loop(self.fn)
        hid = (self.fn.lean, k)
        has_break = any(isinstance(x, ast.Break) for x in self.walk_same_loop(st.body))
        tgt = st.target.id
        outer_env = dict(self.env)
        plain = [nm for nm, v in outer_env.items() if v.kind == "lean" and v.code == nm]
        # ---- body
        saved = (self.lines, self.env, self.guard_ok)
        self.lines, self.guard_ok = [], False
        self.loop_depth += 1
        self.assigned.append(set())
        self.killed.append(set())
        self.headreads[hid] = set()
        try:
            body_env = {nm: v for nm, v in outer_env.items() if v.kind in ("ambient", "dict")}
            body_env.update({nm: V(kind="progress-bar", ui=True) for nm, v in outer_env.items() if v.ui})
            for nm in plain:
                if not outer_env[nm].ui:
                    body_env[nm] = V(outer_env[nm].ty, nm, head=hid)
            for nm, v in outer_env.items():
                if v.kind == "tuple" and all(y.kind == "lean" and y.code in body_env for y in v.items):
                    body_env[nm] = V(kind="tuple", items=[body_env[y.code] for y in v.items])
            self.env = body_env
            itname = "_it" if tgt == "_" else tgt
            if tgt != "_":
                self.check_name(tgt)
                self.env[tgt] = V(elt, tgt)
                self.assigned[-1].add(tgt)
            if has_break:
                self.lines.append("let brk := false")
                self.env["brk"] = V(BOOL, "brk")
            self.block(st.body, in_loop=True)
            assigned = self.assigned[-1]
            carried = [nm for nm in plain if nm in assigned and nm in self.headreads[hid]]
            fields = [(nm, outer_env[nm].ty) for nm in carried] + ([("brk", BOOL)] if has_break else [])
            for nm in carried:
                if nm not in self.env or self.env[nm].kind != "lean" or self.env[nm].ty != outer_env[nm].ty:
                    raise Refuse(f"loop-carried `{nm}` changes type or is undefined at the end of an iteration")
            result = "⟨" + ", ".join(self.env[nm].code for nm, _ in fields) + "⟩"
            body_lines = [f"let {nm} := s.{nm}" for nm in carried] + self.lines
            free = [nm for nm in plain if nm in self.headreads[hid] and nm not in carried]
            dead = ((assigned - set(carried)) | self.killed[-1]) & set(outer_env)
        finally:
            self.loop_depth -= 1
            self.assigned.pop()
            self.killed.pop()
            self.lines, self.env, self.guard_ok = saved
        self.guard_ok = False
        sname = f"{self.fn.lean[0].upper()}{self.fn.lean[1:]}St{k}"
        ftxt = [lean_ty(t) for _, t in fields]
        tvs = tyvars(" ".join(ftxt))
        sty = " ".join([sname] + tvs)
        struct = [f"/-- the variables `{self.fn.pyname}` carries around its loop {k} (`for {tgt} in {ast.unparse(st.iter)[:60]}`)"
                  + (" and the `break` flag" if has_break else "") + " -/",
                  f"structure {sname}" + (f" ({' '.join(tvs)} : Type)" if tvs else "") + " where"]
        struct += [f"  {nm} : {t}" for (nm, _), t in zip(fields, ftxt)]
        usesW = bool(re.search(r"\bW\b", " ".join(body_lines)))
        fparams = [f"({nm} : {lean_ty(outer_env[nm].ty)})" for nm in free]
        sig_tvs = "απωγυ" if usesW else "".join(tyvars(" ".join(fparams + [sty, lean_ty(elt)])))
        head = (f"def {self.fn.lean}_loop{k}" + (f" {{{' '.join(sig_tvs)} : Type}}" if sig_tvs else "")
                + (" (W : World α π ω γ υ)" if usesW else "") + "".join(" " + p for p in fparams)
                + f" (s : {sty}) ({itname} : {lean_ty(elt)}) : {sty} :=")
        text = struct + ["", f"/-- one iteration of loop {k} of `{self.fn.pyname}`" + (" (a broken loop keeps its state)" if has_break else "") + " -/", head]
        if has_break:
            text.append("  if s.brk then s else")
        text += ["  " + l for l in body_lines] + ["  " + result, ""]
        self.gen.emit("\n".join(text))
        # ---- the fold (it reads the carried and the free variables), then the carried variables again
        for nm in carried + free:
            self.use(nm, self.env[nm])
        sv = f"st{k}"
        init = "⟨" + ", ".join([self.env[nm].code for nm in carried] + (["false"] if has_break else [])) + "⟩"
        call = " ".join([f"{self.fn.lean}_loop{k}"] + (["W"] if usesW else []) + free)
        self.lines.append(f"let {sv} := List.foldl ({call}) ({init} : {sty}) {paren(it.code)}")
        self.kill(dead)
        if rest is None:
            for nm in carried:
                self.lines.append(f"let {nm} := {sv}.{nm}")
                self.env[nm] = V(outer_env[nm].ty, nm)
                if self.assigned:
                    self.assigned[-1].add(nm)
            return
        # ---- function level: everything after the loop is `<f>_exit`
        outer_lines, after_env = self.lines, dict(self.env)
        self.lines = [f"let {nm} := s.{nm}" for nm in carried]
        for nm in carried:
            self.env[nm] = V(outer_env[nm].ty, nm)
        reads, defined = set(), set()
        for r in rest:  # a name the epilogue assigns before reading it is not a parameter of `<f>_exit`
            reads |= self.reads_of([r]) - defined
            if isinstance(r, ast.Assign):
                defined |= self.assigned_of([r])
        efree = [nm for nm in after_env if nm in reads and nm not in carried and after_env[nm].kind == "lean" and after_env[nm].code == nm]
        self.block(rest, at_function_level=False, must_return=True)
        ret = self.ret
        eusesW = bool(re.search(r"\bW\b", " ".join(self.lines + [ret.code])))
        eparams = [f"({nm} : {lean_ty(after_env[nm].ty)})" for nm in efree]
        etvs = "απωγυ" if eusesW else "".join(tyvars(" ".join(eparams + [sty, lean_ty(ret.ty)])))
        ehead = (f"def {self.fn.lean}_exit" + (f" {{{' '.join(etvs)} : Type}}" if etvs else "") + (" (W : World α π ω γ υ)" if eusesW else "")
                 + "".join(" " + p for p in eparams) + f" (s : {sty}) : {lean_ty(ret.ty)} :=")
        self.gen.emit("\n".join([f"/-- `{self.fn.pyname}` after its loop {k}, as a function of the final loop state -/", ehead]
                                + ["  " + l for l in self.lines] + ["  " + ret.code, ""]))
        self.lines, self.env = outer_lines, after_env
        self.ret = V(ret.ty, " ".join([f"{self.fn.lean}_exit"] + (["W"] if eusesW else []) + efree + [sv]))

    def walk_same_loop(self, stmts, into_loops=False):
        """the statements of a block, recursively, without (or with) the bodies of nested loops"""
        for st in stmts:
            yield st
            if isinstance(st, (ast.For, ast.While)) and not into_loops:
                continue
            for ch in ast.iter_child_nodes(st):
                if isinstance(ch, ast.stmt):
                    yield from self.walk_same_loop([ch], into_loops)

    def block(self, stmts, in_loop=False, in_branch=False, at_function_level=False, must_return=False):
        for i, st in enumerate(stmts):
            last = i == len(stmts) - 1
            if any(isinstance(x, ast.Break) for x in self.walk_same_loop([st])) and not last:
                raise Refuse("`break` that is not in the last statement of its block")
            if isinstance(st, ast.Assign):
                self.do_assign(st)
            elif isinstance(st, ast.Expr):
                self.do_expr(st)
            elif isinstance(st, ast.If):
                self.do_if(st)
            elif isinstance(st, ast.For):
                if at_function_level and not last:
                    self.do_for(st, rest=stmts[i + 1:])
                    return
                self.do_for(st)
            elif isinstance(st, ast.Break):
                if not (in_branch and "brk" in self.env):
                    raise Refuse("`break` outside an `if` of a loop body")
                self.env["brk"] = self.let("brk", V(BOOL, "true"))
            elif isinstance(st, ast.Return):
                if not last or in_loop or in_branch or st.value is None:
                    raise Refuse("`return` that is not the last statement of the function")
                self.ret = self.as_lean(self.ex(st.value))
            elif isinstance(st, ast.Pass):
                pass
            else:
                raise Refuse(f"statement {type(st).__name__}: `{ast.unparse(st)[:60]}`")
        if must_return and self.ret is None:
            raise Refuse("function does not end in `return`")

    # ------------------------------------------------------------------ the function
    def signature(self):
        a = self.node.args
        if a.posonlyargs or a.kw_defaults and False:
            raise Refuse("positional-only parameters")
        names = [x.arg for x in a.args] + (["*" + a.vararg.arg] if a.vararg else []) + [x.arg for x in a.kwonlyargs] + (["**" + a.kwarg.arg] if a.kwarg else [])
        want = [p for p, _ in self.fn.params]
        if names != want:
            raise Refuse(f"signature ({', '.join(names)}) differs from the sheet ({', '.join(want)})")
        for d in self.node.decorator_list:
            if ast.unparse(d) not in self.gen.sheet.DECORATORS:
                raise Refuse(f"decorator `{ast.unparse(d)}`")
            for x in ast.walk(d):
                if isinstance(x, ast.Name) and x.id in self.gen.sheet.IMPORTS:
                    self.gen.need(self.fn.file, x.id)
        params, packed = [], None
        for p, ty in self.fn.params:
            if ty == AMBIENT:
                self.env[p] = V(kind="ambient", code=p)
                continue
            if p.startswith("*"):
                if packed is None:
                    packed = p.lstrip("*")
                    params.append((packed, ty))
                self.env[p.lstrip("*")] = V(ty, packed)
                continue
            self.check_name(p)
            self.env[p] = V(ty, p)
            params.append((p, ty))
        return params

    def translate(self):
        params = self.signature()
        self.block(self.node.body, at_function_level=True, must_return=True)
        ret = self.ret
        body = " ".join(self.lines + [ret.code])
        usesW = bool(re.search(r"\bW\b", body))
        ptxt = [f"({p} : {lean_ty(t)})" for p, t in params]
        tvs = "απωγυ" if usesW else "".join(tyvars(" ".join(ptxt + [lean_ty(ret.ty)])))
        binders = (f" {{{' '.join(tvs)} : Type}}" if tvs else "") + (" (W : World α π ω γ υ)" if usesW else "") + "".join(" " + p for p in ptxt)
        out = [f"/-- `{self.fn.file}` :: `{self.fn.pyname}` -/", f"def {self.fn.lean}{binders} : {lean_ty(ret.ty)} :="]
        out += ["  " + l for l in self.lines] + ["  " + ret.code, ""]
        raises = [i for i, (k, _) in enumerate(self.trace) if k == "raise"]
        if raises:
            rl = ["let raises := false"]
            for k, t in self.trace[: raises[-1] + 1]:
                rl.append(t if k == "let" else f"let raises := raises || {paren(t)}")
            rbody = " ".join(rl)
            rW = bool(re.search(r"\bW\b", rbody))
            rt = "απωγυ" if rW else "".join(tyvars(" ".join(ptxt)))
            rb = (f" {{{' '.join(rt)} : Type}}" if rt else "") + (" (W : World α π ω γ υ)" if rW else "") + "".join(" " + p for p in ptxt)
            out += [f"/-- the conditions under which `{self.fn.pyname}` raises before its first loop (explicit `raise`, `// 0`, `l[k]` out of range, `argmin([])`) -/",
                    f"def {self.fn.lean}_raises{rb} : Bool :="] + ["  " + l for l in rl] + ["  raises", ""]
        self.gen.emit("\n".join(out))
        return dict(sheet=self.fn, ret=ret.ty, usesW=usesW, params=params)


class Gen:
    def __init__(self, repo, sheet):
        self.repo, self.sheet = repo, sheet
        self.out = []
        self.funcs_by_py = {}
        self.sheet_py = {f.pyname for f in sheet.FUNCS}
        self.loops = {}
        self.trees = {}
        self.needed = {}

    def emit(self, text):
        self.out.append(text)

    def next_loop(self, fn):
        self.loops[fn.lean] = self.loops.get(fn.lean, 0) + 1
        return self.loops[fn.lean]

    def need(self, file, alias):
        self.needed.setdefault(file, set()).add(alias.split(".")[0])

    def tree(self, rel):
        if rel not in self.trees:
            self.trees[rel] = ast.parse(open(os.path.join(self.repo, rel)).read())
        return self.trees[rel]

    def bindings(self, rel):
        """module-level name -> what it is bound to: imports, and how often the name is (re)bound at module level"""
        b, count = {}, {}
        for node in self.tree(rel).body:
            if isinstance(node, ast.Import):
                for a in node.names:
                    nm = a.asname or a.name.split(".")[0]
                    b[nm] = a.name if a.asname else a.name.split(".")[0]
                    count[nm] = count.get(nm, 0) + 1
            elif isinstance(node, ast.ImportFrom):
                for a in node.names:
                    nm = a.asname or a.name
                    b[nm] = f"{node.module}.{a.name}"
                    count[nm] = count.get(nm, 0) + 1
            elif isinstance(node, (ast.FunctionDef, ast.ClassDef)):
                b[node.name] = f"<def {node.name}>"
                count[node.name] = count.get(node.name, 0) + 1
            elif isinstance(node, (ast.Assign, ast.AugAssign, ast.AnnAssign)):
                for x in ast.walk(node):
                    if isinstance(x, ast.Name) and isinstance(x.ctx, ast.Store):
                        b[x.id] = "<assigned>"
                        count[x.id] = count.get(x.id, 0) + 1
        return b, count

    def check_bindings(self, fn):
        b, count = self.bindings(fn.file)
        for alias in sorted(self.needed.get(fn.file, ())):
            if alias in BUILTINS:
                if alias in b:
                    raise Refuse(f"the builtin `{alias}` is rebound at module level in {fn.file} (`{b[alias]}`)")
                continue
            if alias in self.sheet_py:
                mod = fn.file[:-3].replace("/", ".")
                ok = b.get(alias) in (f"<def {alias}>", self.sheet.IMPORTS.get(alias)) and (b.get(alias) != f"<def {alias}>" or mod == "flowjax.train.train_utils")
            else:
                ok = b.get(alias) == self.sheet.IMPORTS.get(alias)
            if not ok or count.get(alias, 0) != 1:
                raise Refuse(f"`{alias}` is bound to `{b.get(alias)}` in {fn.file} ({count.get(alias, 0)} bindings), the sheet expects `{self.sheet.IMPORTS.get(alias, '<def>')}`")

    def run(self):
        errors = []
        header = ["/-", "GENERATED by tools/py2lean/py2loop.py from /repo/flowjax/train/{train_utils,data_fit,variational_fit}.py on every run — do not edit.",
                  "The training loops as state-transition functions over the primitives of `Model/TrainWorld.lean` (sheet: `tools/py2lean/targets_train.py`).",
                  "-/", "import Flowjaxv.Model.TrainWorld", "set_option linter.unusedVariables false", "namespace GenTrain", "open Train", ""]
        for fn in self.sheet.FUNCS:
            mark = len(self.out)
            try:
                node = None
                for x in self.tree(fn.file).body:
                    if isinstance(x, ast.FunctionDef) and x.name == fn.pyname:
                        if node is not None:
                            raise Refuse("defined twice")
                        node = x
                if node is None:
                    raise Refuse("function not found")
                info = Tr(self, fn, node).translate()
                self.check_bindings(fn)
                self.funcs_by_py[fn.pyname] = info
            except (Refuse, OSError, SyntaxError) as ex:
                del self.out[mark:]
                errors.append({"target": fn.lean, "error": f"{fn.file}::{fn.pyname}: {ex}"})
                self.emit(f"-- UNTRANSLATABLE {fn.lean}: {ex}\n")
        text = "\n".join(header + self.out + ["end GenTrain", ""])
        return {"text": text, "errors": errors, "targets": [f.lean for f in self.sheet.FUNCS]}


def generate(repo: str) -> dict:
    import importlib
    import targets_train
    importlib.reload(targets_train)
    return {targets_train.NAME: Gen(repo, targets_train).run()}


if __name__ == "__main__":
    import sys
    sys.path.insert(0, os.path.dirname(os.path.abspath(__file__)))
    r = generate(sys.argv[1] if len(sys.argv) > 1 else "/repo")["TrainGen"]
    sys.stdout.write(r["text"])
    for e in r["errors"]:
        sys.stderr.write(f"REFUSED {e['target']}: {e['error']}\n")
