"""Regenerate lean/Flowjaxv/Gen/*.lean from the repository source.  Usage: gen.py [repo] [outdir]
Writes <outdir>/<Name>.lean (only when changed, to keep lake incremental) and <outdir>/gen_report.json."""
import importlib, json, os, sys
sys.path.insert(0, os.path.dirname(os.path.abspath(__file__)))
import py2lean
import structure
import tracegen

AST_MODULES = ["targets_dast", "targets_vast", "targets_sast", "targets_tast"]
MODULES = ["targets_leaves", "targets_comb", "targets_bisect", "targets_misc", "targets_dist", "targets_params", "targets_planar", "targets_bnaf", "targets_arrcomb", "targets_flows", "targets_masks", "targets_wrappers", "targets_triangular"]

def main(repo="/repo", outdir=None):
    here = os.path.dirname(os.path.abspath(__file__))
    outdir = outdir or os.path.join(here, "..", "..", "lean", "Flowjaxv", "Gen")
    os.makedirs(outdir, exist_ok=True)
    report = {}
    for m in MODULES:
        mod = importlib.import_module(m)
        res = py2lean.generate(repo, mod)
        path = os.path.join(outdir, mod.NAME + ".lean")
        old = open(path).read() if os.path.exists(path) else None
        if old != res["text"]:
            open(path, "w").write(res["text"])
        report[mod.NAME] = {"errors": res["errors"], "changed": old != res["text"], "targets": [t.name for t in mod.TARGETS]}
    importlib.reload(structure)
    for name, res in structure.generate(repo).items():  # class table (data) + the wrapper's two inner checks
        path = os.path.join(outdir, name + ".lean")
        old = open(path).read() if os.path.exists(path) else None
        if old != res["text"]:
            open(path, "w").write(res["text"])
        report[name] = {"errors": res["errors"], "changed": old != res["text"], "targets": res["targets"]}
    importlib.reload(tracegen)
    for name, res in tracegen.generate(repo).items():  # control-flow skeletons + field table (C14)
        path = os.path.join(outdir, name + ".lean")
        old = open(path).read() if os.path.exists(path) else None
        if old != res["text"]:
            open(path, "w").write(res["text"])
        report[name] = {"errors": res["errors"], "changed": old != res["text"], "targets": res["targets"]}
    import py2loop
    importlib.reload(py2loop)
    for name, res in py2loop.generate(repo).items():  # the training loops as state-transition functions (C15/C16)
        path = os.path.join(outdir, name + ".lean")
        old = open(path).read() if os.path.exists(path) else None
        if old != res["text"]:
            open(path, "w").write(res["text"])
        report[name] = {"errors": res["errors"], "changed": old != res["text"], "targets": res["targets"]}
    import py2meth
    importlib.reload(py2meth)
    for name, res in py2meth.generate(repo).items():  # losses.py (C17) and the public wrappers of AbstractDistribution (C06) over hand-written worlds
        path = os.path.join(outdir, name + ".lean")
        old = open(path).read() if os.path.exists(path) else None
        if old != res["text"]:
            open(path, "w").write(res["text"])
        report[name] = {"errors": res["errors"], "changed": old != res["text"], "targets": res["targets"]}
    import py2ctor
    importlib.reload(py2ctor)
    for name, res in py2ctor.generate(repo).items():  # constructors / argument checks as exception-valued functions (C13)
        path = os.path.join(outdir, name + ".lean")
        old = open(path).read() if os.path.exists(path) else None
        if old != res["text"]:
            open(path, "w").write(res["text"])
        report[name] = {"errors": res["errors"], "changed": old != res["text"], "targets": res["targets"]}
    import py2wrap
    importlib.reload(py2wrap)
    for name, res in py2wrap.generate(repo).items():  # the argument-checking wrapper as a whole + __init_subclass__ (C13)
        path = os.path.join(outdir, name + ".lean")
        old = open(path).read() if os.path.exists(path) else None
        if old != res["text"]:
            open(path, "w").write(res["text"])
        report[name] = {"errors": res["errors"], "changed": old != res["text"], "targets": res["targets"]}
    import py2perm
    importlib.reload(py2perm)
    for name, res in py2perm.generate(repo).items():  # Permute: exception-valued __init__ and the four methods (C01 / C07 / C11)
        path = os.path.join(outdir, name + ".lean")
        old = open(path).read() if os.path.exists(path) else None
        if old != res["text"]:
            open(path, "w").write(res["text"])
        report[name] = {"errors": res["errors"], "changed": old != res["text"], "targets": res["targets"]}
    import py2ast, targets_ast
    importlib.reload(py2ast); importlib.reload(targets_ast)
    res = py2ast.generate_ast(repo, targets_ast.SPECS)
    path = os.path.join(outdir, targets_ast.NAME + ".lean")
    old = open(path).read() if os.path.exists(path) else None
    if old != res["text"]:
        open(path, "w").write(res["text"])
    report[targets_ast.NAME] = {"errors": res["errors"], "changed": old != res["text"], "targets": [sp["name"] + ".ast" for sp in targets_ast.SPECS]}
    for m in AST_MODULES:  # further deep-AST files (C18): own header, let-ids offset by the module's ID_BASE
        mod = importlib.import_module(m)
        importlib.reload(mod)
        res = py2ast.generate_ast(repo, mod.SPECS, header=mod.HEADER, id_base=mod.ID_BASE)
        path = os.path.join(outdir, mod.NAME + ".lean")
        old = open(path).read() if os.path.exists(path) else None
        if old != res["text"]:
            open(path, "w").write(res["text"])
        report[mod.NAME] = {"errors": res["errors"], "changed": old != res["text"], "targets": [sp["name"] + ".ast" for sp in mod.SPECS]}
    json.dump(report, open(os.path.join(outdir, "gen_report.json"), "w"), indent=1)
    return report

if __name__ == "__main__":
    r = main(*sys.argv[1:])
    bad = {k: v["errors"] for k, v in r.items() if v["errors"]}
    print(json.dumps(bad, indent=1) if bad else "gen ok")
