"""py2lean: translate the numeric / structural kernels of flowjax from the Python AST
into Lean 4 definitions (generic in the scalar type).

Only `ast` is used: the source is parsed, never imported or executed.  The accepted
Python subset is deliberately small; anything else raises `Untranslatable`, which the
check driver treats as "tie broken" for every property depending on that definition.

Types tracked for expressions:
  S scalar (α)     V vector (List α)   B bool   I int (Int)   N nat-like static int
  T(...) tuple     R(name) record      F(arg..->ret) function
"""
from __future__ import annotations

import ast
import dataclasses
import os
import sys
from typing import Any


class Untranslatable(Exception):
    pass


# ----------------------------------------------------------------------------- types
S, V, B, I = "S", "V", "B", "I"
# log-domain matrices (entries `Option α`, `none` = -inf; Prelude/JnpExt.lean): EM matrix, EMC / EMR the `keepdims=True`
# reductions over axis -1 / -2 (one value per row / per column), M a finite matrix
EM, EMC, EMR, M = "EM", "EMC", "EMR", "M"
MAT_TYPES = {EM: "List (List (Jnp.Ext α))", EMC: "List (Jnp.Ext α)", EMR: "List (Jnp.Ext α)", M: "List (List α)"}
# n-d arrays (`Model/Arr.lean`, `Model/ArrJnp.lean`): A an array `Arr κ` (element type κ; the log-det scalar stays α),
# SH a shape / tuple of non-negative ints, OSH a shape or None, IDX a resolved `Partial` index, NAT a non-negative int
A, SH, OSH, IDX, NAT = "A", "SH", "OSH", "IDX", "Nat"
ARR_TYPES = {A: "Arr κ", SH: "List Nat", OSH: "Option (List Nat)", IDX: "Arr.Idx"}
# applied Lean types of records declared by typing sheets: record name -> type text (sheets register theirs at import)
RECORD_TYPES: dict[str, str] = {}
# records whose four public methods are called as on a child bijection
BIJ_RECORDS = {"Bij"}


def T(*ts):
    return ("T",) + tuple(ts)


def R(name):
    return ("R", name)


def lean_type(t) -> str:
    if t == S:
        return "α"
    if t == V:
        return "List α"
    if t == B:
        return "Bool"
    if t == I:
        return "Int"
    if t == "Nat":
        return "Nat"
    if isinstance(t, tuple) and t[0] == "T":
        return "(" + " × ".join(lean_type(x) for x in t[1:]) + ")"
    if isinstance(t, tuple) and t[0] == "R" and t[1] in RECORD_TYPES:
        return RECORD_TYPES[t[1]]
    if isinstance(t, tuple) and t[0] == "G":  # generator (consumed exactly once, checked) -> list
        return f"List ({lean_type(t[1])})"
    if t in ARR_TYPES:
        return ARR_TYPES[t]
    if isinstance(t, tuple) and t[0] == "R":
        return f"{t[1]} X C α" if t[1] in ("Bij", "Chain", "Invert") else (f"{'Distn' if t[1] == 'Dist' else t[1]} X C K α" if t[1] in ("Dist", "Transformed", "DistCore") else None) or (f"{t[1]} C α" if t[1] in ("AdditiveCondition",) else f"{t[1]} α")
    if isinstance(t, tuple) and t[0] == "F":
        return "(" + " → ".join(lean_type(x) for x in t[1:]) + ")"
    if isinstance(t, tuple) and t[0] == "L":  # list of something
        return f"List ({lean_type(t[1])})"
    if t == "num":
        return "α"
    if t in MAT_TYPES:
        return MAT_TYPES[t]
    if isinstance(t, str):
        return t  # raw Lean type
    raise Untranslatable(f"type {t}")


# ----------------------------------------------------------------------------- specs
@dataclasses.dataclass
class Struct:
    name: str
    fields: list  # (python field name, type)
    pyclass: str | None = None  # class whose annotations must contain the fields
    file: str | None = None
    extra_ok: tuple = ()  # python fields deliberately not modelled
    tparams: str = "(α : Type)"
    defaults: dict = dataclasses.field(default_factory=dict)  # field -> lean default (keyword constructors)


@dataclasses.dataclass
class Target:
    file: str
    path: str  # e.g. "Affine.transform" or "_bisection_search.body_fn"
    name: str  # Lean name
    args: list  # (python name, type) in Lean order; python args not listed must be unused
    ret: Any
    selfstruct: str | None = None  # name of Struct for `self`
    free: list = dataclasses.field(default_factory=list)  # free vars (closure) -> extra params
    init_of: str | None = None  # for __init__: struct name to build
    calls: dict = dataclasses.field(default_factory=dict)  # python callee text -> (lean name, ret type)
    consts: dict = dataclasses.field(default_factory=dict)  # python names bound to lean exprs
    lets_types: dict = dataclasses.field(default_factory=dict)
    tuple_types: dict = dataclasses.field(default_factory=dict)  # name -> element types of a tuple literal assigned to it (types its numerals)
    doc: str = ""
    part: tuple | None = None  # ("before"|"after", "<call text marker>"): translate only that slice of the body
    ret_expr: str | None = None  # python expression returned by a sliced body
    ctors: dict = dataclasses.field(default_factory=dict)  # python class name -> Struct name (keyword construction)
    pre_env: dict = dataclasses.field(default_factory=dict)  # names bound before a sliced body
    static: dict = dataclasses.field(default_factory=dict)  # python flag argument -> bool: `if flag:` is inlined (must equal the signature default)
    sub: tuple | None = None  # ("lambda", "<assign target text>") | ("expr", "<expression text>"): translate that sub-expression of the function
    config: dict = dataclasses.field(default_factory=dict)  # static string field of `self` -> its value in THIS specialisation (checked against the class annotation and `__init__`); `if self.f == "v":` is decided at translation time
    guard_calls: tuple = ()  # statement-level calls that only raise or return None (argument checks): recorded in the sheet, not translated
    config_fns: tuple = ()  # callable fields of `self` that `__init__` binds in the same block as the `config` value (e.g. activation_fn); `self.f(x)` is translated through that binding
    methods: dict = dataclasses.field(default_factory=dict)  # python method name -> (lean function, ret type): `<expr>.m()` (no arguments) is translated to `(f <expr>)`


# whitelisted library calls: python dotted name -> handler(translator, args(code,type)) -> (code,type)
def _unary_S(lean):
    def h(tr, a, kw):
        (c, t), = a
        if t == S:
            return f"({lean} {c})", S
        if t == V:
            return f"(List.map (fun v => {lean} v) {c})", V
        raise Untranslatable(f"{lean} on {t}")
    return h


def _where(tr, a, kw):
    (c, tc), (x, tx), (y, ty) = a
    if tc != B:
        raise Untranslatable("where cond not scalar bool")
    if tx != ty:
        raise Untranslatable(f"where branches {tx} vs {ty}")
    return f"(Jnp.where {c} {x} {y})", tx


def _and(tr, a, kw):
    (x, tx), (y, ty) = a
    return f"(Jnp.logicalAnd {x} {y})", B


def _not(tr, a, kw):
    (x, tx), = a
    if tx != B or kw:
        raise Untranslatable("logical_not of a non-boolean")
    return f"(!{x})", B


def _searchsorted(tr, a, kw):
    (x, tx), (v, tv) = a
    if tx != V or tv != S:
        raise Untranslatable("searchsorted types")
    return f"(Jnp.searchsorted {x} {v})", I


def _clip(tr, a, kw):
    (x, tx), (lo, _), (hi, _) = a
    if tx == I:
        return f"(Jnp.clipInt {x} {lo} {hi})", I
    return f"(Jnp.clip {x} {lo} {hi})", S


def _tlogpdf(tr, a, kw):
    (x, t), = a
    if set(kw) != {"df"}:
        raise Untranslatable("jstats.t.logpdf: expected (x, df=...)")
    return f"(Stats.tLogpdf {x} {kw['df'][0]})", S


def _flip(tr, a, kw):
    (x, t), = a
    if t == V:
        return f"(List.reverse {x})", V
    raise Untranslatable("flip of " + str(t))


def _len(tr, a, kw):
    (x, t), = a
    if t == V or t == SH or (isinstance(t, tuple) and t[0] == "L"):
        return f"((List.length {x} : Nat) : Int)", I
    raise Untranslatable("len of " + str(t))


def _sum(tr, a, kw):
    (x, t), = a
    if t == S:
        return f"(Jnp.sumElem {x})", S
    if t == V:
        return f"(Jnp.sum {x})", S
    raise Untranslatable("sum of " + str(t))


def _zero(tr, a, kw):
    return "0", S


def _float(tr, a, kw):
    (x, t), = a
    return x, t


def _full(tr, a, kw):
    """jnp.full(n, v) with a static length n (a `Nat` argument) and a scalar fill value"""
    if len(a) != 2 or kw or a[0][1] != "Nat" or a[1][1] not in (S, "num"):
        raise Untranslatable("jnp.full: expected (static length, scalar)")
    v = a[1][0] if a[1][1] == S else f"({a[1][0]} : α)"
    return f"(List.replicate {a[0][0]} {v})", V
def _vec1(lean):
    def h(tr, a, kw):
        if len(a) != 1 or a[0][1] != V or kw:
            raise Untranslatable(f"{lean}: expected one 1-d array")
        return f"({lean} {a[0][0]})", V
    return h


def _pad(tr, a, kw):
    if len(a) != 1 or a[0][1] != V or set(kw) != {"pad_width", "constant_values"}:
        raise Untranslatable("jnp.pad form")
    if kw["pad_width"][0] != "(1 : α)" or kw["constant_values"][1] != T(S, S):
        raise Untranslatable("jnp.pad: only pad_width=1 with a pair of constants")
    return f"(Jnp.pad1 {a[0][0]} {kw['constant_values'][0]})", V


def _linalg_norm(tr, a, kw):
    # one row of `jnp.linalg.norm(m, axis=-1, keepdims=True)`
    if len(a) != 1 or a[0][1] != V or not set(kw) <= {"axis", "keepdims"}:
        raise Untranslatable("jnp.linalg.norm form")
    if "axis" in kw and kw["axis"][0] != "((-1) : α)":
        raise Untranslatable("jnp.linalg.norm axis")
    return _norm(tr, a, {})




def _norm(tr, a, kw):
    (x, t), = a
    return f"(Transc.sqrt (Jnp.dot {x} {x}))", S


def _leaky(tr, a, kw):
    (x, t), = a
    if "negative_slope" not in kw:
        raise Untranslatable("leaky_relu without slope")
    return f"(Jnp.leakyRelu {x} {kw['negative_slope'][0]})", S


BIJ_METHODS = {
    "transform": ("fwd", "X"),
    "inverse": ("inv", "X"),
    "transform_and_log_det": ("fwdLd", ("T", "X", "S")),
    "inverse_and_log_det": ("invLd", ("T", "X", "S")),
}

DIST_METHODS = {
    "_log_prob": ("logProb", "S"),
    "_sample": ("sample", "X"),
    "_sample_and_log_prob": ("sampleLp", ("T", "X", "S")),
}

LIB = {
    "jnp.where": _where,
    "jnp.logical_and": _and,
    "jnp.logical_not": _not,
    "jnp.searchsorted": _searchsorted,
    "jnp.clip": _clip,
    "jax.nn.softmax": _vec1("Jnp.softmax"),
    "log_softmax": _vec1("Jnp.logSoftmax"),
    "jnp.cumsum": _vec1("Jnp.cumsum"),
    "jnp.pad": _pad,
    "jnp.linalg.norm": _linalg_norm,
    "len": _len,
    "jnp.flip": _flip,
    "jstats.norm.logpdf": _unary_S("Stats.normLogpdf"),
    "jstats.uniform.logpdf": _unary_S("Stats.uniformLogpdf"),
    "jstats.cauchy.logpdf": _unary_S("Stats.cauchyLogpdf"),
    "jstats.laplace.logpdf": _unary_S("Stats.laplaceLogpdf"),
    "jstats.expon.logpdf": _unary_S("Stats.exponLogpdf"),
    "jstats.logistic.logpdf": _unary_S("Stats.logisticLogpdf"),
    "jstats.t.logpdf": _tlogpdf,
    "jnp.abs": _unary_S("Jnp.abs"),
    "jnp.sign": _unary_S("Jnp.sign"),
    "jnp.tanh": _unary_S("Transc.tanh"),
    "jnp.arctanh": _unary_S("Transc.artanh"),
    "jnp.sqrt": _unary_S("Transc.sqrt"),
    "jnp.log": _unary_S("Transc.log"),
    "jnp.exp": _unary_S("Transc.exp"),
    "jnp.expm1": _unary_S("Transc.expm1"),
    "softplus": _unary_S("Transc.softplus"),
    "nn.softplus": _unary_S("Transc.softplus"),
    "jax.nn.softplus": _unary_S("Transc.softplus"),
    "math.exp": _unary_S("Transc.exp"),
    "math.tanh": _unary_S("Transc.tanh"),
    "jnp.sum": _sum,
    "jnp.zeros": _zero,
    "jnp.full": _full,
    "jnp.array": _float,
    "jnp.asarray": _float,
    "float": _float,
    "norm": _norm,
    "nn.leaky_relu": _leaky,
    "jax.nn.leaky_relu": _leaky,
}


# ---- log-domain matrix primitives (`logmatmulexp`): handlers get the Call node, return None to fall through to LIB
def _mat_amax(tr, n):
    if len(n.args) != 2 or [k.arg for k in n.keywords] != ["keepdims"]:
        raise Untranslatable("jnp.amax form: expected (x, axis, keepdims=True)")
    kd = n.keywords[0].value
    if not (isinstance(kd, ast.Constant) and kd.value is True):
        raise Untranslatable("jnp.amax: keepdims must be True")
    x, tx = tr._e(n.args[0])
    try:
        axis = ast.literal_eval(n.args[1])
    except ValueError:
        raise Untranslatable("jnp.amax: axis not a literal")
    if tx != EM or axis not in (-1, -2):
        raise Untranslatable(f"jnp.amax on {tx} axis {axis}")
    return (f"(Jnp.Ext.amaxRows {x})", EMC) if axis == -1 else (f"(Jnp.Ext.amaxCols {x})", EMR)


def _mat_stop_gradient(tr, n):
    if len(n.args) != 1 or n.keywords:
        raise Untranslatable("stop_gradient form")
    return tr._e(n.args[0])  # identity on values


def _mat_unary(want, lean, ret):
    def h(tr, n):
        if len(n.args) != 1 or n.keywords:
            return None
        x, tx = tr._e(n.args[0])
        if tx != want:
            if tx in MAT_TYPES:
                raise Untranslatable(f"{lean} on {tx}")
            return None
        return f"({lean} {x})", ret
    return h


def _mat_matmul(tr, n):
    if len(n.args) != 2 or n.keywords:
        raise Untranslatable("jnp.matmul form")
    (a, ta), (b, tb) = tr._e(n.args[0]), tr._e(n.args[1])
    if ta != M or tb != M:
        raise Untranslatable(f"jnp.matmul {ta} {tb}")
    return f"(Jnp.matmul {a} {b})", M


MAT_LIB = {
    "jnp.amax": _mat_amax,
    "jax.lax.stop_gradient": _mat_stop_gradient,
    "jnp.exp": _mat_unary(EM, "Jnp.Ext.expM", M),
    "jnp.log": _mat_unary(M, "Jnp.Ext.logM", EM),
    "jnp.matmul": _mat_matmul,
}


# ---- n-d array primitives (`Model/ArrJnp.lean`): handlers get the Call node
def _is_list_of(t, elem=None):
    return isinstance(t, tuple) and t[0] in ("L", "G") and (elem is None or t[1] == elem)


def _arr_axis(tr, n, npos):
    """the `axis` argument: positional number `npos` or the keyword `axis`; nothing else may be passed"""
    kws = {k.arg: k.value for k in n.keywords}
    if len(n.args) == npos + 1 and not kws:
        ax = n.args[npos]
    elif len(n.args) == npos and set(kws) == {"axis"}:
        ax = kws["axis"]
    else:
        raise Untranslatable(f"{ast.unparse(n.func)}: expected {npos} positional argument(s) and an axis")
    c, t = tr._e(ax)
    if t == "num":
        return f"({c} : Int)"  # a literal axis
    if t != I:
        raise Untranslatable(f"{ast.unparse(n.func)}: axis of type {t}")
    return c


def _arr_array_split(tr, n):
    ax = _arr_axis(tr, n, 2)
    (x, tx), (ix, ti) = tr._e(n.args[0]), tr._e(n.args[1])
    if tx != A or ti != SH:
        raise Untranslatable(f"jnp.array_split({tx}, {ti})")
    return f"(ArrJnp.arraySplit {x} {ix} {ax})", ("L", A)


def _arr_split(tr, n):
    ax = _arr_axis(tr, n, 2)
    (x, tx), (k, tk) = tr._e(n.args[0]), tr._e(n.args[1])
    if tx != A or tk != I:
        raise Untranslatable(f"jnp.split({tx}, {tk}): only an integer number of sections")
    return f"(ArrJnp.split {x} {k} {ax})", ("L", A)


def _arr_join(lean):
    def h(tr, n):
        ax = _arr_axis(tr, n, 1)
        ps, tp = tr._e(n.args[0])
        if tp != ("L", A):
            raise Untranslatable(f"{lean} of {tp}")
        return f"({lean} {ps} {ax})", A
    return h


def _arr_sum(tr, n):
    """Python's builtin `sum` of a list of scalars / a list or generator of non-negative ints"""
    if len(n.args) != 1 or n.keywords:
        raise Untranslatable("sum form")
    c, t = tr._e(n.args[0], gen_ok=True)
    if _is_list_of(t, S):
        return f"(ArrJnp.pySum {c})", S
    if _is_list_of(t, NAT):
        return f"(ArrJnp.natSum {c})", NAT
    raise Untranslatable(f"sum of {t}")


def _arr_tuple(tr, n):
    if len(n.args) != 1 or n.keywords:
        raise Untranslatable("tuple form")
    c, t = tr._e(n.args[0], gen_ok=True)
    if _is_list_of(t, NAT):
        return c, SH
    raise Untranslatable(f"tuple of {t}")


def _arr_accumulate(tr, n):
    if len(n.args) != 1 or n.keywords:
        raise Untranslatable("accumulate form")
    c, t = tr._e(n.args[0])
    if t == ("L", NAT) or t == SH:
        return f"(ArrJnp.accumulate {c})", ("L", NAT)
    raise Untranslatable(f"accumulate of {t}")


def _arr_zip_star(tr, n):
    """`zip(*pairs, strict=True)` (to be unpacked into two names)"""
    if not (len(n.args) == 1 and isinstance(n.args[0], ast.Starred) and _strict_true(n)):
        raise Untranslatable("zip form: only zip(*pairs, strict=True) outside a comprehension")
    c, t = tr._e(n.args[0].value)
    if not (_is_list_of(t) and t[0] == "L" and isinstance(t[1], tuple) and t[1][0] == "T" and len(t[1]) == 3):
        raise Untranslatable(f"zip(*{t})")
    return f"(ArrJnp.unzipStar {c})", T(("L", t[1][1]), ("L", t[1][2]))


def _strict_true(n: ast.Call):
    return (len(n.keywords) == 1 and n.keywords[0].arg == "strict" and isinstance(n.keywords[0].value, ast.Constant)
            and n.keywords[0].value.value is True)


ARR_LIB = {
    "jnp.array_split": _arr_array_split,
    "jnp.split": _arr_split,
    "jnp.concatenate": _arr_join("ArrJnp.concatenate"),
    "jnp.stack": _arr_join("ArrJnp.stack"),
    "sum": _arr_sum,
    "tuple": _arr_tuple,
    "accumulate": _arr_accumulate,
    "zip": _arr_zip_star,
}


class Tr:
    def __init__(self, tgt: Target, structs: dict):
        self.tgt = tgt
        self.structs = structs
        self.env: dict[str, Any] = {}
        self.numerals: set[int] = set()
        self.uses_sci = False
        self.selfvals: dict[str, tuple] = {}  # for __init__: field -> (code, type)
        self.cfg_fns: dict[str, Any] = {}  # callable config field -> AST of the expression `__init__` binds it to

    # ---------------------------------------------------------------- expressions
    def const(self, v):
        if isinstance(v, bool):
            return ("true" if v else "false"), B
        if isinstance(v, int):
            if v >= 0:
                self.numerals.add(v)
                return str(v), "num"
            self.numerals.add(-v)
            return f"(-{-v})", "num"
        if isinstance(v, float):
            if v == int(v) and abs(v) < 1e6:
                return self.const(int(v))
            self.uses_sci = True
            return f"({v!r} : α)", S
        raise Untranslatable(f"constant {v!r}")

    @staticmethod
    def _num(t):
        return S if t == "num" else t

    def e(self, n) -> tuple[str, Any]:
        c, t = self._e(n)
        return c, t

    def es(self, n):
        """expression, with numerals resolved to scalar"""
        c, t = self._e(n)
        if t == "num":
            return f"({c} : α)", S
        return c, t

    def _e(self, n, gen_ok=False):
        if isinstance(n, ast.Constant):
            return self.const(n.value)
        if isinstance(n, (ast.ListComp, ast.GeneratorExp)):
            if isinstance(n, ast.GeneratorExp) and not gen_ok:
                raise Untranslatable("generator expression outside sum(...) / tuple(...) / a declared generator return")
            return self.comprehension(n)
        if isinstance(n, ast.Name):
            if n.id in self.tgt.consts:
                return self.tgt.consts[n.id]
            if n.id in self.env:
                return n.id, self.env[n.id]
            raise Untranslatable(f"unbound name {n.id} in {self.tgt.path}")
        if isinstance(n, ast.Attribute):
            txt = ast.unparse(n)
            if txt in self.tgt.consts:
                return self.tgt.consts[txt]
            if isinstance(n.value, ast.Name) and n.value.id == "self":
                if self.tgt.init_of is not None:
                    if n.attr in self.selfvals:
                        return f"self_{n.attr}", self.selfvals[n.attr][1]
                    raise Untranslatable(f"self.{n.attr} read before assignment")
                st = self.structs[self.tgt.selfstruct]
                for f, t in st.fields:
                    if f == n.attr:
                        return f"self.{f}", t
                raise Untranslatable(f"self.{n.attr}: not a modelled field of {st.name}")
            base, bt = self._e(n.value)
            if isinstance(bt, tuple) and bt[0] == "R":
                st = self.structs[bt[1]]
                for f, t in st.fields:
                    if f == n.attr:
                        return f"{base}.{f}", t
            if n.attr == "size" and bt == V:
                return f"((List.length {base} : Nat) : α)", S  # module HEADER must provide [NatCast α]
            raise Untranslatable(f"attribute {txt}")
        if isinstance(n, ast.UnaryOp):
            if isinstance(n.op, ast.USub):
                if isinstance(n.operand, ast.Constant):
                    return self.const(-n.operand.value)
                c, t = self.es(n.operand)
                if t == S:
                    return f"(-{c})", S
                if t == V:
                    return f"(List.map (fun v => -v) {c})", V
                if t == I:
                    return f"(-{c})", I
            if isinstance(n.op, ast.Not):
                c, t = self._e(n.operand)
                if t == B:
                    return f"(!{c})", B
            raise Untranslatable(ast.dump(n))
        if isinstance(n, ast.BinOp):
            return self.binop(n)
        if isinstance(n, ast.Compare):
            if len(n.ops) != 1:
                raise Untranslatable("chained comparison")
            if isinstance(n.ops[0], (ast.Is, ast.IsNot)):
                if not (isinstance(n.comparators[0], ast.Constant) and n.comparators[0].value is None):
                    raise Untranslatable("`is` other than against None")
                a, ta = self._e(n.left)
                if ta != OSH:
                    raise Untranslatable(f"`is None` on {ta}")
                return (f"(Option.isNone {a})" if isinstance(n.ops[0], ast.Is) else f"(Option.isSome {a})"), B
            a, ta = self._e(n.left)
            b, tb = self._e(n.comparators[0])
            if ta == "num" and tb == "num":
                raise Untranslatable("constant comparison")
            ty = self._num(tb) if ta == "num" else self._num(ta)
            if ta == "num":
                a = f"({a} : {lean_type(ty)})"
            if tb == "num":
                b = f"({b} : {lean_type(ty)})"
            if ta == "num":
                ta = ty
            if tb == "num":
                tb = ty
            if self._num(ta) != self._num(tb):
                raise Untranslatable(f"comparison {ta} vs {tb}")
            op = type(n.ops[0])
            if op in (ast.Eq, ast.NotEq):
                if ty == I:
                    c = f"(decide ({a} = {b}))"
                else:
                    c = f"({a} == {b})"
                return (c if op is ast.Eq else f"(!{c})"), B
            sym = {ast.GtE: "≥", ast.LtE: "≤", ast.Lt: "<", ast.Gt: ">"}.get(op)
            if sym is None:
                raise Untranslatable(ast.dump(n))
            return f"(decide ({a} {sym} {b}))", B
        if isinstance(n, ast.Subscript) and ast.unparse(n) in self.tgt.consts:
            return self.tgt.consts[ast.unparse(n)]
        if isinstance(n, ast.Subscript):
            if (isinstance(n.value, ast.Call) and ast.unparse(n.value.func) == "range" and len(n.value.args) == 1
                    and not n.value.keywords):
                # `range(n)[i]`: Python's index normalisation of a possibly negative `i`
                (k, tk), (i, ti) = self._e(n.value.args[0]), self._e(n.slice)
                if tk != I or ti != I:
                    raise Untranslatable(f"range({tk})[{ti}]")
                return f"(ArrJnp.rangeGet {k} {i})", NAT
            base, bt = self._e(n.value)
            if bt in (A, SH) or bt == ("L", SH):
                return self.arr_subscript(n, base, bt)
            if isinstance(bt, tuple) and bt[0] == "T":
                if isinstance(n.slice, ast.Constant) and isinstance(n.slice.value, int):
                    i = n.slice.value
                    arity = len(bt) - 1
                    if i < 0:
                        i += arity
                    if not 0 <= i < arity:
                        raise Untranslatable("tuple index out of range")
                    proj = base + "".join(".2" for _ in range(i)) + (".1" if i < arity - 1 else "")
                    return proj, bt[1 + i]
                raise Untranslatable("tuple index not constant")
            if bt == V:
                if isinstance(n.slice, ast.Slice):
                    sl = n.slice
                    if sl.step is not None:
                        raise Untranslatable("slice step")
                    lo = self._static_int(sl.lower) if sl.lower is not None else None
                    hi = self._static_int(sl.upper) if sl.upper is not None else None
                    lo_c = "none" if lo is None else f"(some {lo})"
                    hi_c = "none" if hi is None else f"(some {hi})"
                    return f"(Jnp.slice {base} {lo_c} {hi_c})", V
                idx, it = self._e(n.slice)
                if it == "num":
                    return f"(Jnp.getItem {base} {idx})", S
                if it == I:
                    return f"(Jnp.getItem {base} {idx})", S
                raise Untranslatable(f"index type {it}")
            raise Untranslatable(f"subscript on {bt}")
        if isinstance(n, ast.Tuple):
            parts = [self.es(x) for x in n.elts]
            return "(" + ", ".join(p[0] for p in parts) + ")", T(*[p[1] for p in parts])
        if isinstance(n, ast.Call):
            return self.call(n)
        if isinstance(n, ast.List):
            if not n.elts:
                raise Untranslatable("empty list literal")
            parts = [self.es(x) for x in n.elts]
            if any(p[1] != parts[0][1] for p in parts):
                raise Untranslatable("list literal with elements of different types: " + ", ".join(str(p[1]) for p in parts))
            return "[" + ", ".join(p[0] for p in parts) + "]", ("L", parts[0][1])
        if isinstance(n, ast.IfExp):
            # `v if v is not None else d` on an optional shape
            t = n.test
            if (isinstance(t, ast.Compare) and len(t.ops) == 1 and isinstance(t.ops[0], ast.IsNot) and isinstance(t.comparators[0], ast.Constant)
                    and t.comparators[0].value is None and isinstance(t.left, ast.Name) and isinstance(n.body, ast.Name) and n.body.id == t.left.id):
                v, tv = self._e(n.body)
                d, td = self._e(n.orelse)
                if tv == OSH and td == SH:
                    return f"(match {v} with | some v => v | none => {d})", SH
                if tv == OSH and td == OSH:
                    return f"(match {v} with | some v => some v | none => {d})", OSH
            c, t = self._e(n.test)
            if t != B:
                raise Untranslatable("conditional expression: test is not a bool")
            (a, ta), (b, tb) = self.es(n.body), self.es(n.orelse)
            if ta != tb:
                raise Untranslatable(f"conditional expression: branches {ta} vs {tb}")
            return f"(if {c} then {a} else {b})", ta
        raise Untranslatable(ast.dump(n))

    def comprehension(self, n):
        """`[e for v in xs]` -> List.map;  `[e for a, b in zip(as, bs, strict=True)]` -> zipWithStrict.  No filters, one generator."""
        if len(n.generators) != 1 or n.generators[0].ifs or n.generators[0].is_async:
            raise Untranslatable("comprehension form")
        g = n.generators[0]
        saved = dict(self.env)
        try:
            if isinstance(g.iter, ast.Call) and ast.unparse(g.iter.func) == "zip":
                z = g.iter
                if not (len(z.args) == 2 and _strict_true(z) and not any(isinstance(a, ast.Starred) for a in z.args)):
                    raise Untranslatable("zip in a comprehension: only zip(a, b, strict=True)")
                if not (isinstance(g.target, ast.Tuple) and len(g.target.elts) == 2 and all(isinstance(e, ast.Name) for e in g.target.elts)):
                    raise Untranslatable("comprehension target over zip")
                (a, ta), (b, tb) = self._e(z.args[0]), self._e(z.args[1])
                if not (_is_list_of(ta) and _is_list_of(tb)):
                    raise Untranslatable(f"zip of {ta}, {tb}")
                n1, n2 = (e.id for e in g.target.elts)
                self.env[n1], self.env[n2] = ta[1], tb[1]
                body, tbody = self.es(n.elt)
                return f"(ArrJnp.zipWithStrict (fun {n1} {n2} => {body}) {a} {b})", ("L", tbody)
            if not isinstance(g.target, ast.Name):
                raise Untranslatable("comprehension target")
            it, tit = self._e(g.iter)
            if not (_is_list_of(tit) and tit[0] == "L"):
                raise Untranslatable(f"comprehension over {tit}")
            self.env[g.target.id] = tit[1]
            body, tbody = self._e(n.elt)
            if tbody == "num":
                raise Untranslatable("comprehension of constants")
            return f"(List.map (fun {g.target.id} => {body}) {it})", ("L", tbody)
        finally:
            self.env = saved

    def _nat(self, n):
        """an expression that is a non-negative int (index / bound into a shape)"""
        c, t = self._e(n)
        if t == NAT:
            return c
        if t == "num" and isinstance(n, ast.Constant) and isinstance(n.value, int) and n.value >= 0:
            return c
        raise Untranslatable(f"index of type {t} into a shape")

    def arr_subscript(self, n, base, bt):
        sl = n.slice
        if bt == A:
            idx, it = self._e(sl)
            if it != IDX:
                raise Untranslatable(f"array indexed by {it}")
            return f"(ArrJnp.getIdx {base} {idx})", A
        if isinstance(sl, ast.Slice):
            if sl.step is not None:
                raise Untranslatable("slice step")
            if (bt == ("L", SH) and sl.lower is None and isinstance(sl.upper, ast.UnaryOp) and isinstance(sl.upper.op, ast.USub)
                    and isinstance(sl.upper.operand, ast.Constant) and sl.upper.operand.value == 1):
                return f"(List.dropLast {base})", bt  # seq[:-1]
            if bt != SH:
                raise Untranslatable(f"slice of {bt}")
            if sl.lower is None and sl.upper is not None:
                return f"(List.take {self._nat(sl.upper)} {base})", SH
            if sl.upper is None and sl.lower is not None:
                return f"(List.drop {self._nat(sl.lower)} {base})", SH
            raise Untranslatable("slice form on a shape")
        if bt == ("L", SH):
            if isinstance(sl, ast.Constant) and sl.value == 0:
                return f"(ArrJnp.first {base})", SH
            raise Untranslatable("index into a list of shapes other than [0]")
        return f"(ArrJnp.shapeGet {base} {self._nat(sl)})", NAT

    def _static_int(self, n):
        c, t = self._e(n)
        if t in ("num", I, "Nat"):
            return f"({c} : Int)"
        raise Untranslatable("slice bound not an int")

    def _shape_elt(self, e):
        """an element of a tuple that is a shape: a non-negative int, or `len(...)`"""
        if isinstance(e, ast.Call) and ast.unparse(e.func) == "len" and len(e.args) == 1 and not e.keywords:
            c, t = self._e(e.args[0])
            if t == V or t == SH or _is_list_of(t):
                return f"(List.length {c})"
        return self._nat(e)

    def binop(self, n):
        if isinstance(n.op, ast.Pow):
            if isinstance(n.right, ast.Constant) and n.right.value == 2:
                a, t = self.es(n.left)
                if t == S:
                    return f"({a} * {a})", S
            raise Untranslatable("power other than **2")
        if isinstance(n.op, ast.MatMult):
            a, ta = self._e(n.left)
            b, tb = self._e(n.right)
            if ta == V and tb == V:
                return f"(Jnp.dot {a} {b})", S
            raise Untranslatable("matmul types")
        sym = {ast.Add: "+", ast.Sub: "-", ast.Mult: "*", ast.Div: "/", ast.FloorDiv: "/", ast.Mod: "%"}.get(type(n.op))
        if sym is None:
            raise Untranslatable(ast.dump(n.op))
        if isinstance(n.op, ast.Add):
            sides = []
            for side in (n.left, n.right):
                if isinstance(side, ast.Tuple) and side.elts:
                    sides.append(("[" + ", ".join(self._shape_elt(e) for e in side.elts) + "]", SH))
                else:
                    sides.append(None)
            if any(x is not None for x in sides):
                (a, ta), (b, tb) = (x if x is not None else self._e(sd) for x, sd in zip(sides, (n.left, n.right)))
                if ta == SH and tb == SH:
                    return f"({a} ++ {b})", SH
                raise Untranslatable(f"tuple concatenation {ta} + {tb}")
        a, ta = self._e(n.left)
        b, tb = self._e(n.right)
        if ta == SH and tb == SH and isinstance(n.op, ast.Add):
            return f"({a} ++ {b})", SH
        if NAT in (ta, tb):
            if isinstance(n.op, ast.Add) and {ta, tb} <= {NAT, "num"} and all(
                    t == NAT or (isinstance(sd, ast.Constant) and isinstance(sd.value, int) and sd.value >= 0)
                    for t, sd in ((ta, n.left), (tb, n.right))):
                return f"({a} + {b})", NAT
            # static naturals: `*` of two of them, `//` and `%` by a positive literal (Lean's Nat `/`, `%` are Python's on non-negative ints;
            # a literal divisor rules out the ZeroDivisionError that Lean would totalise to 0); `-` (truncated in Lean) and `/` are refused
            def _nonneg_lit(sd, t, positive=False):
                return (t == "num" and isinstance(sd, ast.Constant) and isinstance(sd.value, int) and not isinstance(sd.value, bool)
                        and sd.value >= (1 if positive else 0))
            if isinstance(n.op, ast.Mult) and all(t == NAT or _nonneg_lit(sd, t) for t, sd in ((ta, n.left), (tb, n.right))):
                return f"({a} * {b})", NAT
            if isinstance(n.op, (ast.FloorDiv, ast.Mod)) and ta == NAT and _nonneg_lit(n.right, tb, positive=True):
                return f"({a} {sym} {b})", NAT
            raise Untranslatable(f"arithmetic on a non-negative int other than + * and // % by a positive literal: {ta} {sym} {tb}")
        if ta == EM and tb in (EMC, EMR) and sym in ("+", "-"):
            # broadcast of a log-domain matrix against a `keepdims=True` reduction of matching orientation
            fn = {("-", EMC): "subCol", ("-", EMR): "subRow", ("+", EMC): "addCol", ("+", EMR): "addRow"}[(sym, tb)]
            return f"(Jnp.Ext.{fn} {a} {b})", EM
        if ta == "num" and tb == "num":
            return f"({a} {sym} {b})", "num"
        if ta == "num":
            ta = tb if tb in (S, I) else S
            if tb == V:
                a = f"({a} : α)"
        if tb == "num":
            tb = ta if ta in (S, I) else S
            if ta == V:
                b = f"({b} : α)"
        if isinstance(n.op, (ast.FloorDiv, ast.Mod)) and not (ta == I and tb == I):
            raise Untranslatable("// or % on non-int")
        if isinstance(n.op, ast.Div) and (ta == I or tb == I):
            raise Untranslatable("/ on int")
        if ta == tb and ta in (S, I):
            return f"({a} {sym} {b})", ta
        if ta == V and tb == V:
            return f"(List.zipWith (fun a b => a {sym} b) {a} {b})", V
        if ta == V and tb == S:
            return f"(List.map (fun a => a {sym} {b}) {a})", V
        if ta == S and tb == V:
            return f"(List.map (fun b => {a} {sym} b) {b})", V
        raise Untranslatable(f"binop {ta} {sym} {tb}")

    def call(self, n: ast.Call):
        fn = ast.unparse(n.func)
        if fn == "eqx.tree_at":
            return self.tree_at(n)
        if fn in self.tgt.calls and len(self.tgt.calls[fn]) > 4 and isinstance(self.tgt.calls[fn][4], dict):
            return self.call_with_keywords(n, fn)
        if (isinstance(n.func, ast.Attribute) and n.func.attr in self.tgt.methods and fn not in self.tgt.calls
                and n.func.attr not in BIJ_METHODS and n.func.attr not in DIST_METHODS):
            if n.args or n.keywords:
                raise Untranslatable(f"method {n.func.attr} with arguments")
            lname, rt = self.tgt.methods[n.func.attr]
            return f"({lname} {self.es(n.func.value)[0]})", rt
        kw = {k.arg: self.es(k.value) for k in n.keywords}
        # method-style .sum()
        if isinstance(n.func, ast.Attribute) and n.func.attr == "sum" and not n.args and fn not in self.tgt.calls:
            return _sum(self, [self.es(n.func.value)], kw)
        f = n.func
        if (isinstance(f, ast.Attribute) and f.attr == "set" and isinstance(f.value, ast.Subscript)
                and isinstance(f.value.value, ast.Attribute) and f.value.value.attr == "at"):
            base, bt = self._e(f.value.value.value)
            idx = f.value.slice
            if bt == A:
                # `x.at[idxs].set(v)` on an n-d array with a resolved index
                if len(n.args) != 1 or n.keywords:
                    raise Untranslatable(f".at[].set form {fn}")
                (ic, it), (v, vt) = self._e(idx), self._e(n.args[0])
                if it != IDX or vt != A:
                    raise Untranslatable(f"array .at[{it}].set({vt})")
                return f"(ArrJnp.atSet {base} {ic} {v})", A
            if (bt != V or not (isinstance(idx, ast.Constant) and isinstance(idx.value, int) and not isinstance(idx.value, bool)
                                and idx.value >= 0) or len(n.args) != 1 or n.keywords):
                raise Untranslatable(f".at[].set form {fn}")
            v, vt = self.es(n.args[0])
            if vt != S:
                raise Untranslatable(".at[i].set value not scalar")
            return f"(Jnp.setItem {base} {idx.value} {v})", V
        if fn in self.tgt.ctors:
            st = self.structs[self.tgt.ctors[fn]]
            if n.args:
                raise Untranslatable(f"{fn}: positional constructor arguments")
            vals = {}
            for k in n.keywords:
                vals[k.arg] = self.es(k.value)[0]
            flds = []
            for f, t in st.fields:
                if f in vals:
                    flds.append(f"{f} := {vals.pop(f)}")
                elif f in st.defaults:
                    flds.append(f"{f} := {st.defaults[f]}")
                else:
                    raise Untranslatable(f"{fn}: field {f} not given")
            if vals:
                raise Untranslatable(f"{fn}: unknown fields {sorted(vals)}")
            return "({ " + ", ".join(flds) + " } : " + lean_type(R(st.name)) + ")", R(st.name)
        if fn in self.tgt.calls:
            lname, rt, *rest = self.tgt.calls[fn]
            drop = rest[1] if len(rest) > 1 else ()  # positional pass-through arguments the callee ignores (`condition`)
            argc = [self.es(a)[0] for a in n.args if not (isinstance(a, ast.Name) and a.id in drop)]
            if n.keywords:
                # keyword arguments are accepted only in the declared order of the callee's remaining parameters
                kworder = rest[2] if len(rest) > 2 else None
                if kworder is None or [k.arg for k in n.keywords] != list(kworder):
                    raise Untranslatable(f"call {fn}: keyword arguments {[k.arg for k in n.keywords]} (expected {kworder})")
                argc += [self.es(k.value)[0] for k in n.keywords]
            extra = rest[0] if rest else []
            return "(" + " ".join([lname] + extra + argc) + ")", rt
        if (isinstance(n.func, ast.Attribute) and isinstance(n.func.value, ast.Name) and n.func.value.id == "self"
                and n.func.attr in self.cfg_fns):
            return self.config_fn_call(n, self.cfg_fns[n.func.attr])
        if fn in ARR_LIB:
            return ARR_LIB[fn](self, n)
        if isinstance(n.func, ast.Attribute) and n.func.attr in ("reshape", "squeeze"):
            try:
                base, bt = self._e(n.func.value)
            except Untranslatable:
                base, bt = None, None
            if bt == A:
                if n.func.attr == "reshape":
                    if len(n.args) != 1 or n.keywords:
                        raise Untranslatable("reshape form: expected one shape argument")
                    sh, tsh = self._e(n.args[0])
                    if tsh == SH:
                        return f"(ArrJnp.reshape {base} {sh})", A
                    if tsh == OSH:
                        return f"(ArrJnp.reshapeOpt {base} {sh})", A
                    raise Untranslatable(f"reshape to {tsh}")
                return f"(ArrJnp.squeeze {base} {_arr_axis(self, n, 0)})", A
        if fn in MAT_LIB:
            r = MAT_LIB[fn](self, n)
            if r is not None:
                return r
        if fn in LIB:
            pos = [a for a in n.args if not (isinstance(a, ast.Name) and a.id in ("float", "int", "bool"))]
            raw = [self._e(a) for a in pos]
            has_int = any(t == I for _, t in raw)
            has_sc = any(t in (S, V) for _, t in raw)
            args = []
            for c, t in raw:
                if t == "num":
                    args.append((f"({c} : Int)", I) if (has_int and not has_sc) else (f"({c} : α)", S))
                else:
                    args.append((c, t))
            return LIB[fn](self, args, kw)
        # method call on a child bijection record
        if isinstance(n.func, ast.Attribute) and n.func.attr in BIJ_METHODS:
            try:
                base, bt = self._e(n.func.value)
            except Untranslatable:
                base, bt = None, None
            if isinstance(bt, tuple) and bt[0] == "R" and bt[1] in BIJ_RECORDS:
                fld, rt = BIJ_METHODS[n.func.attr]
                if bt != R("Bij"):
                    rt = A if rt == "X" else T(A, S)
                if len(n.args) != 2 or n.keywords:
                    raise Untranslatable(f"child call {fn}: expected (x, condition)")
                argc = [self.es(a)[0] for a in n.args]
                return "(" + " ".join([f"{base}.{fld}"] + argc) + ")", rt
        if isinstance(n.func, ast.Attribute) and n.func.attr in DIST_METHODS:
            try:
                base, bt = self._e(n.func.value)
            except Untranslatable:
                base, bt = None, None
            if bt == R("Dist"):
                fld, rt = DIST_METHODS[n.func.attr]
                if len(n.args) != 2 or n.keywords:
                    raise Untranslatable(f"child call {fn}: expected two arguments")
                argc = [self.es(a)[0] for a in n.args]
                return "(" + " ".join([f"{base}.{fld}"] + argc) + ")", rt
        # call of a function-typed variable (closure parameter)
        if isinstance(n.func, ast.Name) and n.func.id in self.env:
            ft = self.env[n.func.id]
            if isinstance(ft, tuple) and ft[0] == "F":
                argc = [self.es(a)[0] for a in n.args]
                return "(" + " ".join([n.func.id] + argc) + ")", ft[-1]
        if isinstance(n.func, ast.Attribute) and isinstance(n.func.value, ast.Attribute):
            # self.activation_fn(...)
            base, bt = self._e(n.func.value) if False else (None, None)
        if isinstance(n.func, ast.Attribute):
            try:
                f, ft = self._e(n.func)
            except Untranslatable:
                f, ft = None, None
            if isinstance(ft, tuple) and ft[0] == "F":
                argc = [self.es(a)[0] for a in n.args]
                return "(" + " ".join([f] + argc) + ")", ft[-1]
        # a simple private helper (module-level `_f(..)` or `self._f(..)` with a single return): translate its body in place
        import inline
        ex = inline.expand_call(n, getattr(self, "helpers", {}))
        if ex is not None:
            return self._e(ex)
        raise Untranslatable(f"call {fn} in {self.tgt.path}")

    def call_with_keywords(self, n: ast.Call, fn: str):
        """`calls[fn] = (lean name, ret type, extra, drop, {"used": [...], "ignored": [...]})` (a dict as fifth element; a plain
        sequence there is the exact keyword order of the ordinary `calls` form): positional arguments first, then the keyword
        arguments named in `used` (in that order; each must be present); every other keyword must be listed in `ignored`
        (`**name` for a double-star argument) — a keyword that is neither is a refusal, so a new argument is noticed."""
        lname, rt, extra, drop, kwspec = self.tgt.calls[fn]
        if set(kwspec) != {"used", "ignored"}:
            raise Untranslatable(f"call {fn}: keyword specification must have exactly the entries `used` and `ignored`")
        used, ignored = kwspec["used"], kwspec["ignored"]
        argc = [self.es(a)[0] for a in n.args if not (isinstance(a, ast.Name) and a.id in drop)]
        given = {}
        for k in n.keywords:
            nm = k.arg if k.arg is not None else "**" + ast.unparse(k.value)
            if nm in used:
                given[nm] = self.es(k.value)[0]
            elif nm not in ignored:
                raise Untranslatable(f"call {fn}: keyword {nm} is neither modelled nor declared ignorable")
        for nm in used:
            if nm not in given:
                raise Untranslatable(f"call {fn}: keyword {nm} no longer passed")
        return "(" + " ".join([lname] + list(extra) + argc + [given[nm] for nm in used]) + ")", rt

    def tree_at(self, n: ast.Call):
        """`eqx.tree_at(where=lambda t: t.<field>, pytree=<record>, replace=<value>)` -> `{ <record> with <field> := <value> }`"""
        kws = {k.arg: k.value for k in n.keywords}
        if n.args or set(kws) != {"where", "pytree", "replace"}:
            raise Untranslatable("eqx.tree_at form")
        lam = kws["where"]
        if not (isinstance(lam, ast.Lambda) and len(lam.args.args) == 1 and isinstance(lam.body, ast.Attribute)
                and isinstance(lam.body.value, ast.Name) and lam.body.value.id == lam.args.args[0].arg):
            raise Untranslatable("eqx.tree_at: where is not `lambda t: t.<field>`")
        base, bt = self.es(kws["pytree"])
        if not (isinstance(bt, tuple) and bt[0] == "R" and bt[1] in self.structs):
            raise Untranslatable(f"eqx.tree_at on {bt}")
        ftypes = dict(self.structs[bt[1]].fields)
        if lam.body.attr not in ftypes:
            raise Untranslatable(f"eqx.tree_at: {bt[1]} has no modelled field {lam.body.attr}")
        rep_, rt = self.es(kws["replace"])
        if rt != ftypes[lam.body.attr]:
            raise Untranslatable(f"eqx.tree_at: replacing {lam.body.attr} : {ftypes[lam.body.attr]} by {rt}")
        return f"({{ {base} with {lam.body.attr} := {rep_} }})", bt

    def config_fn_call(self, n: ast.Call, bound):
        """`self.f(args)` where `__init__` binds `self.f = <lib function>` or `self.f = partial(<lib function>, kw=<ctor arg>)`
        and the constructor stores that argument unchanged in `self.<ctor arg>` (checked in `resolve_config`)."""
        if n.keywords:
            raise Untranslatable("keyword arguments in a call of a bound function field")
        args = [self.es(a) for a in n.args]
        if isinstance(bound, (ast.Name, ast.Attribute)) and ast.unparse(bound) in LIB:
            return LIB[ast.unparse(bound)](self, args, {})
        if (isinstance(bound, ast.Call) and ast.unparse(bound.func) in ("partial", "functools.partial") and len(bound.args) == 1
                and ast.unparse(bound.args[0]) in LIB):
            kw = {}
            for k in bound.keywords:
                if not isinstance(k.value, ast.Name):
                    raise Untranslatable("partial(...) keyword is not a constructor argument")
                kw[k.arg] = self.es(ast.Attribute(value=ast.Name(id="self", ctx=ast.Load()), attr=k.value.id, ctx=ast.Load()))
            return LIB[ast.unparse(bound.args[0])](self, args, kw)
        raise Untranslatable(f"bound function field: {ast.unparse(bound)}")

    def _config_test(self, test):
        """`self.<config field> ==/!= "<string>"` -> True / False; anything else -> None"""
        if (isinstance(test, ast.Compare) and len(test.ops) == 1 and isinstance(test.ops[0], (ast.Eq, ast.NotEq))
                and isinstance(test.left, ast.Attribute) and isinstance(test.left.value, ast.Name) and test.left.value.id == "self"
                and test.left.attr in self.tgt.config and isinstance(test.comparators[0], ast.Constant)
                and isinstance(test.comparators[0].value, str)):
            eq = self.tgt.config[test.left.attr] == test.comparators[0].value
            return eq if isinstance(test.ops[0], ast.Eq) else not eq
        return None

    # ---------------------------------------------------------------- statements
    def stmt_ext(self, st):
        """extension point for subclasses (py2mask.MTr, py2nd.NTr): Lean lines for a statement form of their own, or None"""
        return None

    def body(self, stmts) -> str:
        out = []
        ret = None
        for si, st in enumerate(stmts):
            if ret is not None:
                raise Untranslatable("statement after return")
            ext = self.stmt_ext(st)
            if ext is not None:
                out += ext
                continue
            if isinstance(st, ast.Expr) and isinstance(st.value, ast.Constant):
                continue  # docstring
            if (isinstance(st, ast.Expr) and isinstance(st.value, ast.Call) and ast.unparse(st.value.func) in self.tgt.guard_calls):
                continue  # argument check (raises or returns None): recorded in the typing sheet, not translated
            if isinstance(st, ast.Assign):
                if len(st.targets) != 1:
                    raise Untranslatable("multi-target assign")
                out += self.assign(st.targets[0], st.value)
                continue
            if isinstance(st, ast.If):
                cv = self._config_test(st.test)
                if cv is not None:
                    # test on a static string field fixed in this specialisation: inline the branch taken
                    for b in (st.body if cv else st.orelse):
                        if isinstance(b, ast.Raise):
                            raise Untranslatable(f"{self.tgt.path} raises unconditionally when " + ", ".join(f"{k} == {v!r}" for k, v in self.tgt.config.items()))
                        if not (isinstance(b, ast.Assign) and len(b.targets) == 1):
                            raise Untranslatable("static config if: only assignments are inlined")
                        out += self.assign(b.targets[0], b.value)
                    continue
                # only `if <static>: raise` guards are accepted, and are recorded not translated
                if all(isinstance(s, ast.Raise) for s in st.body) and not st.orelse:
                    continue
                if (isinstance(st.test, ast.Compare) and len(st.test.ops) == 1 and isinstance(st.test.ops[0], (ast.Is, ast.IsNot))
                        and not st.orelse):
                    # `if <optional shape> is [not] None: v = e` -> `let v := if … then e else v` (v already bound, same type)
                    tc, _ = self._e(st.test)
                    for b in st.body:
                        if not (isinstance(b, ast.Assign) and len(b.targets) == 1 and isinstance(b.targets[0], ast.Name)
                                and b.targets[0].id in self.env):
                            raise Untranslatable("`if … is None`: only re-assignments of bound names are translated")
                        nm = b.targets[0].id
                        c, t = self.es(b.value)
                        if t != self.env[nm]:
                            raise Untranslatable(f"`if … is None`: {nm} changes type {self.env[nm]} -> {t}")
                        out.append(f"let {nm} := if {tc} then {c} else {nm}")
                    continue
                if isinstance(st.test, ast.Name) and st.test.id in self.tgt.static:
                    for b in (st.body if self.tgt.static[st.test.id] else st.orelse):
                        if not (isinstance(b, ast.Assign) and len(b.targets) == 1):
                            raise Untranslatable("static if: only assignments are inlined")
                        out += self.assign(b.targets[0], b.value)
                    continue
                if not st.orelse and st.body and isinstance(st.body[-1], ast.Return) and self.tgt.init_of is None:
                    # early return: `if c: …; return a` followed by the rest  ->  `if c then a else <rest>`
                    c, t = self._e(st.test)
                    if t != B:
                        raise Untranslatable("early return: test is not a bool")
                    saved = dict(self.env)
                    a = self.body(st.body)
                    self.env = dict(saved)
                    b = self.body(stmts[si + 1:])
                    self.env = saved
                    ret = f"if {c} then\n    ({a})\n  else\n  ({b})"
                    break  # the rest of the statements is the else-branch
                raise Untranslatable("if statement in " + self.tgt.path)
            if isinstance(st, (ast.FunctionDef, ast.ClassDef)):
                continue  # nested definitions are separate targets
            if isinstance(st, ast.Return):
                want_gen = isinstance(self.tgt.ret, tuple) and self.tgt.ret[0] == "G"
                if isinstance(st.value, ast.GeneratorExp) != want_gen:
                    raise Untranslatable("generator returned / expected, but not both")
                if want_gen:
                    c, t = self._e(st.value, gen_ok=True)
                    if t != ("L", self.tgt.ret[1]):
                        raise Untranslatable(f"generator of {t}")
                else:
                    c, t = self.es(st.value)
                ret = c
                continue
            if isinstance(st, ast.AugAssign) and isinstance(st.target, ast.Name) and isinstance(st.op, ast.Add):
                if st.target.id not in self.env:
                    raise Untranslatable("augmented assignment to unbound name")
                c, t = self.es(st.value)
                out.append(f"let {st.target.id} := ({st.target.id} + {c})")
                continue
            if isinstance(st, ast.For):
                out += self.forloop(st)
                continue
            raise Untranslatable(f"statement {type(st).__name__} in {self.tgt.path}")
        if self.tgt.init_of is not None:
            st = self.structs[self.tgt.init_of]
            flds = []
            for f, t in st.fields:
                if f not in self.selfvals:
                    raise Untranslatable(f"__init__ does not set {f}")
                flds.append(f"{f} := self_{f}")
            ret = "{ " + ", ".join(flds) + " }"
        if ret is None:
            raise Untranslatable("no return in " + self.tgt.path)
        return "\n  ".join(out + [ret])

    def forloop(self, st: ast.For) -> list[str]:
        """`for v in <list>: <assignments>`  ->  a left fold over the mutated variables."""
        if st.orelse or not isinstance(st.target, ast.Name):
            raise Untranslatable("for loop form")
        it = st.iter
        rev = False
        if isinstance(it, ast.Call) and ast.unparse(it.func) == "reversed" and len(it.args) == 1:
            rev, it = True, it.args[0]
        ic, ity = self._e(it)
        if not (isinstance(ity, tuple) and ity[0] == "L"):
            raise Untranslatable(f"for loop over {ity}")
        if rev:
            ic = f"(List.reverse {ic})"
        assigned = []
        for b in st.body:
            for n in ast.walk(b):
                if isinstance(n, ast.Name) and isinstance(n.ctx, ast.Store) and n.id not in assigned:
                    assigned.append(n.id)
        state = [v for v in assigned if v in self.env]
        if not state:
            raise Untranslatable("for loop mutates nothing")
        saved = dict(self.env)
        for v in state:
            if self.env[v] == "num":
                self.env[v] = S
        self.env[st.target.id] = ity[1]
        inner = []
        for b in st.body:
            if isinstance(b, ast.Assign) and len(b.targets) == 1:
                inner += self.assign(b.targets[0], b.value)
            elif isinstance(b, ast.AugAssign) and isinstance(b.target, ast.Name) and isinstance(b.op, ast.Add):
                c, t = self.es(b.value)
                inner.append(f"let {b.target.id} := ({b.target.id} + {c})")
            else:
                raise Untranslatable("for loop body statement " + type(b).__name__)
        types = {v: self.env[v] for v in state}
        self.env = saved
        for v in state:
            self.env[v] = types[v]
        pat = state[0] if len(state) == 1 else "(" + ", ".join(state) + ")"
        body = "; ".join([f"let {pat} := st"] + inner + [pat]) if len(state) > 1 else "; ".join(inner + [pat]).replace("let " + pat + " := st; ", "")
        if len(state) == 1:
            fun = f"(fun {state[0]} {st.target.id} => " + "; ".join(inner + [state[0]]) + ")"
        else:
            fun = f"(fun st {st.target.id} => {body})"
        return [f"let {pat} := List.foldl {fun} {pat} {ic}"]

    def assign(self, tgt, val) -> list[str]:
        if isinstance(tgt, ast.Name) and tgt.id in self.tgt.tuple_types and isinstance(val, ast.Tuple):
            tys = self.tgt.tuple_types[tgt.id]
            if len(tys) != len(val.elts):
                raise Untranslatable(f"tuple {tgt.id}: {len(val.elts)} elements, declared {len(tys)}")
            parts = []
            for el, ty in zip(val.elts, tys):
                c, t = self._e(el)
                if t == "num":
                    c, t = (f"({c} : Int)", I) if ty == I else (f"({c} : α)", S)
                if t != ty:
                    raise Untranslatable(f"tuple {tgt.id}: element of type {t}, declared {ty}")
                parts.append(c)
            self.env[tgt.id] = T(*tys)
            return [f"let {tgt.id} := (" + ", ".join(parts) + ")"]
        if isinstance(tgt, ast.Name):
            c, t = self.es(val)
            if isinstance(t, tuple) and t[0] == "G":
                uses = sum(1 for x in ast.walk(self.fn_node) if isinstance(x, ast.Name) and x.id == tgt.id and isinstance(x.ctx, ast.Load))
                if uses != 1:
                    raise Untranslatable(f"generator {tgt.id} is consumed {uses} times")
            self.env[tgt.id] = t
            ann = ""
            if tgt.id in self.tgt.lets_types:
                ann = " : " + self.tgt.lets_types[tgt.id]
            return [f"let {tgt.id}{ann} := {c}"]
        if isinstance(tgt, ast.Attribute) and isinstance(tgt.value, ast.Name) and tgt.value.id == "self" and self.tgt.init_of:
            st = self.structs[self.tgt.init_of]
            names = [f for f, _ in st.fields]
            if tgt.attr not in names:
                if tgt.attr in st.extra_ok:
                    return []
                raise Untranslatable(f"__init__ sets unmodelled field {tgt.attr}")
            c, t = self.es(val)
            self.selfvals[tgt.attr] = (c, t)
            return [f"let self_{tgt.attr} := {c}"]
        if isinstance(tgt, ast.Tuple):
            names = []
            for el in tgt.elts:
                if not isinstance(el, ast.Name):
                    raise Untranslatable("nested tuple target")
                names.append(el.id)
            if isinstance(val, ast.Tuple) and len(val.elts) == len(names):
                # simultaneous assignment: evaluate all RHS first
                parts = [self.es(v) for v in val.elts]
                out = []
                tmp = []
                for nm, (c, t) in zip(names, parts):
                    tmp.append((nm, c, t))
                # RHS evaluated in the old environment: use fresh temporaries if a target is read
                rhs_src = " ".join(p[0] for p in parts)
                clash = any(nm in self.env and (nm in rhs_src) for nm in names)
                if clash:
                    for nm, c, t in tmp:
                        out.append(f"let {nm}_new := {c}")
                    for nm, c, t in tmp:
                        out.append(f"let {nm} := {nm}_new")
                        self.env[nm] = t
                else:
                    for nm, c, t in tmp:
                        out.append(f"let {nm} := {c}")
                        self.env[nm] = t
                return out
            c, t = self.es(val)
            if not (isinstance(t, tuple) and t[0] == "T" and len(t) - 1 == len(names)):
                raise Untranslatable(f"tuple unpack of {t}")
            for nm, ty in zip(names, t[1:]):
                self.env[nm] = ty
            return [f"let ({', '.join(names)}) := {c}"]
        raise Untranslatable("assign target " + ast.dump(tgt))


def find_def(tree: ast.Module, path: str):
    node: Any = tree
    for part in path.split("."):
        found = None
        for ch in node.body:
            if isinstance(ch, (ast.FunctionDef, ast.ClassDef)) and ch.name == part:
                found = ch
        if found is None:
            raise Untranslatable(f"definition {path} not found")
        node = found
    return node


def class_fields(tree, cname):
    cls = find_def(tree, cname)
    out = []
    for st in cls.body:
        if isinstance(st, ast.AnnAssign) and isinstance(st.target, ast.Name):
            out.append(st.target.id)
    return out


def resolve_config(tree, tgt: Target) -> dict:
    """Check a specialisation `config = {field: value}` against the class and return the ASTs `__init__` binds `config_fns` to.

    * the class annotates `field` with a `Literal[...]` containing `value`;
    * exactly one block of `__init__` assigns `self.field = value`; every `config_fns` field is assigned exactly once in that block;
    * a constructor argument used by such a binding is stored unchanged and unconditionally (`self.a = a` at the top level)."""
    if not tgt.config:
        if tgt.config_fns:
            raise Untranslatable("config_fns without config")
        return {}
    cname = tgt.path.rsplit(".", 1)[0]
    cls = find_def(tree, cname)
    if not isinstance(cls, ast.ClassDef):
        raise Untranslatable(f"{cname} is not a class")
    init = find_def(tree, cname + ".__init__")
    blocks_by_field = {}
    for field, value in tgt.config.items():
        anns = [st for st in cls.body if isinstance(st, ast.AnnAssign) and isinstance(st.target, ast.Name) and st.target.id == field]
        if len(anns) != 1 or f"Literal[{value!r}]" not in ast.unparse(anns[0].annotation):
            raise Untranslatable(f"{cname}.{field} is not annotated as a Literal containing {value!r}")
        blocks = []

        def visit(stmts):
            for st in stmts:
                if (isinstance(st, ast.Assign) and len(st.targets) == 1 and ast.unparse(st.targets[0]) == f"self.{field}"):
                    if isinstance(st.value, ast.Constant) and st.value.value == value:
                        blocks.append(stmts)
                    elif not isinstance(st.value, ast.Constant):
                        raise Untranslatable(f"{cname}.__init__ assigns a non-constant to self.{field}")
                if isinstance(st, ast.If):
                    visit(st.body)
                    visit(st.orelse)
                elif isinstance(st, (ast.For, ast.While, ast.With, ast.Try)):
                    raise Untranslatable(f"{cname}.__init__: compound statement")
        visit(init.body)
        if len(blocks) != 1:
            raise Untranslatable(f"{cname}.__init__ assigns self.{field} = {value!r} in {len(blocks)} places")
        blocks_by_field[field] = blocks[0]
    out = {}
    initargs = [a.arg for a in init.args.args + init.args.kwonlyargs]
    for f in tgt.config_fns:
        hits = [st.value for blk in blocks_by_field.values() for st in blk
                if isinstance(st, ast.Assign) and len(st.targets) == 1 and ast.unparse(st.targets[0]) == f"self.{f}"]
        if len(hits) != 1:
            raise Untranslatable(f"{cname}.__init__ binds self.{f} {len(hits)} times next to the config value")
        out[f] = hits[0]
        for nm in {n.id for n in ast.walk(hits[0]) if isinstance(n, ast.Name)} & set(initargs):
            stored = [st for st in init.body if isinstance(st, ast.Assign) and len(st.targets) == 1
                      and ast.unparse(st.targets[0]) == f"self.{nm}" and isinstance(st.value, ast.Name) and st.value.id == nm]
            if len(stored) != 1:
                raise Untranslatable(f"{cname}.__init__ does not store argument {nm} unchanged in self.{nm}")
    return out


def translate_target(repo, tgt: Target, structs, tr_class=None) -> tuple[str, Tr]:
    src = open(os.path.join(repo, tgt.file)).read()
    tree = ast.parse(src)
    fn = find_def(tree, tgt.path)
    import inline
    fn = inline.normalise(fn)
    tr = (tr_class or Tr)(tgt, structs)  # a typing sheet may select a subclass (`TR = …`) that accepts further constructs
    tr.fn_node = fn
    tr.module_tree = tree  # for subclasses that check how a name was imported
    import inline
    tr.helpers = inline.helpers_of(tree, tgt.path.split(".")[0] if "." in tgt.path else None)
    tr.cfg_fns = resolve_config(tree, tgt)
    pyargs = [a.arg for a in fn.args.args + fn.args.kwonlyargs]
    for flag, val in tgt.static.items():
        dflt = dict(zip([a.arg for a in fn.args.kwonlyargs], fn.args.kw_defaults))
        if not (isinstance(dflt.get(flag), ast.Constant) and dflt[flag].value is val):
            raise Untranslatable(f"{tgt.path}: static flag {flag} is not a keyword-only argument defaulting to {val}")
    sub_stmts = None
    if tgt.sub is not None:
        kind, key = tgt.sub
        if kind == "lambda":
            lams = [l for st in ast.walk(fn) if isinstance(st, ast.Assign) and len(st.targets) == 1 and ast.unparse(st.targets[0]) == key
                    for l in ast.walk(st.value) if isinstance(l, ast.Lambda)]
            if len(lams) != 1:
                raise Untranslatable(f"{tgt.path}: {len(lams)} lambdas assigned into {key}")
            pyargs = [a.arg for a in lams[0].args.args]
            sub_stmts = [ast.Return(value=lams[0].body)]
        elif kind == "expr":
            hits = [e for e in ast.walk(fn) if isinstance(e, ast.expr) and ast.unparse(e) == key]
            if not hits:
                raise Untranslatable(f"{tgt.path}: expression {key!r} not found")
            sub_stmts = [ast.Return(value=hits[0])]
        elif kind == "default":
            # the default value of a keyword / positional argument, as written in the signature
            pos = fn.args.args
            dfl = dict(zip([a.arg for a in pos[len(pos) - len(fn.args.defaults):]], fn.args.defaults))
            dfl.update({a.arg: d for a, d in zip(fn.args.kwonlyargs, fn.args.kw_defaults) if d is not None})
            if key not in dfl:
                raise Untranslatable(f"{tgt.path}: argument {key} has no default")
            pyargs = []
            sub_stmts = [ast.Return(value=dfl[key])]
    declared = dict(tgt.args)
    params = []
    if tgt.selfstruct and tgt.init_of is None:
        params.append(f"(self : {lean_type(R(tgt.selfstruct))})")
    for nm, ty in tgt.free:
        params.append(f"({nm} : {lean_type(ty)})")
        tr.env[nm] = ty
    for nm, ty in tgt.args:
        if nm not in pyargs:
            raise Untranslatable(f"{tgt.path}: argument {nm} no longer exists")
        params.append(f"({nm} : {lean_type(ty)})")
        tr.env[nm] = ty
    # python args not declared must not be read in the body
    if tgt.init_of is not None:
        ok = structs[tgt.init_of].extra_ok
        fn.body = [st for st in fn.body if not (
            isinstance(st, ast.Assign) and len(st.targets) == 1 and isinstance(st.targets[0], ast.Attribute)
            and isinstance(st.targets[0].value, ast.Name) and st.targets[0].value.id == "self"
            and st.targets[0].attr in ok)]
    stmts = list(fn.body) if sub_stmts is None else sub_stmts
    if tgt.part is not None:
        where, marker = tgt.part[0], tgt.part[1]
        idx = [i for i, st in enumerate(stmts) if marker in ast.unparse(st) and not isinstance(st, (ast.FunctionDef, ast.ClassDef))]
        if len(idx) != 1:
            raise Untranslatable(f"{tgt.path}: marker {marker!r} found {len(idx)} times")
        if where == "between":  # ("between", <marker after which to start>, <marker before which to stop>)
            idx2 = [i for i, st in enumerate(stmts) if tgt.part[2] in ast.unparse(st) and not isinstance(st, (ast.FunctionDef, ast.ClassDef))]
            if len(idx2) != 1 or idx2[0] <= idx[0]:
                raise Untranslatable(f"{tgt.path}: end marker {tgt.part[2]!r} found {len(idx2)} times / not after the start marker")
            stmts = stmts[idx[0] + 1: idx2[0]]
            where = "before"
        else:
            stmts = stmts[: idx[0]] if where == "before" else stmts[idx[0] + 1:]
        stmts = [st for st in stmts if not (isinstance(st, ast.If) and all(isinstance(b, ast.Raise) for b in st.body))]
        if where == "before" or tgt.ret_expr is not None:
            stmts = [st for st in stmts if not isinstance(st, ast.Return)]
            stmts.append(ast.Return(value=ast.parse(tgt.ret_expr, mode="eval").body))
    used = {n.id for st in stmts for n in ast.walk(st) if isinstance(n, ast.Name) and not isinstance(st, (ast.FunctionDef, ast.ClassDef))}
    for a in pyargs:
        if tgt.part is None and a not in declared and a != "self" and a in used and a not in dict(tgt.free) and a not in tgt.consts and a not in tgt.static:
            # `condition` passed through to nested self-calls is allowed if the callee drops it
            if not _only_passed_to_dropping_calls(ast.Module(body=stmts, type_ignores=[]), a, tgt):
                raise Untranslatable(f"{tgt.path}: undeclared argument {a} is used")
    for k, v in tgt.pre_env.items():
        tr.env[k] = v
    body = tr.body(stmts)
    ret = (RECORD_TYPES.get(tgt.init_of, tgt.init_of + " α")) if tgt.init_of else lean_type(tgt.ret)
    doc = f"/-- generated from `{tgt.file}` :: `{tgt.path}` -/\n"
    code = f"{doc}def {tgt.name} {' '.join(params)} : {ret} :=\n  {body}\n"
    return code, tr


def _only_passed_to_dropping_calls(fn, argname, tgt):
    for n in ast.walk(fn):
        if isinstance(n, ast.Name) and n.id == argname:
            # find a parent Call in tgt.calls that lists it as positional arg
            ok = False
            for c in ast.walk(fn):
                if isinstance(c, ast.Call) and ast.unparse(c.func) in tgt.calls:
                    if any(a is n for a in c.args):
                        ok = True
            if not ok:
                return False
    return True


HEADER = """/-
GENERATED by tools/py2lean from /repo on every run — do not edit.
-/
import Flowjaxv.Prelude.Jnp
set_option linter.unusedVariables false
namespace Gen
variable {α : Type} [Add α] [Sub α] [Mul α] [Div α] [Neg α] [LT α] [LE α] [BEq α]
  [OfNat α 0] [OfNat α 1] [OfNat α 2] [OfNat α 4] [OfScientific α]
  [DecidableLT α] [DecidableLE α] [Transc α] [Inhabited α]

"""


def struct_code(repo, st: Struct) -> str:
    if st.pyclass:
        tree = ast.parse(open(os.path.join(repo, st.file)).read())
        have = class_fields(tree, st.pyclass)
        for f, _ in st.fields:
            if f not in have:
                raise Untranslatable(f"class {st.pyclass} no longer declares field {f}")
    lines = [f"structure {st.name} {st.tparams} where"]
    for f, t in st.fields:
        lines.append(f"  {f} : {lean_type(t)}")
    return "\n".join(lines) + "\n"


def generate(repo: str, module) -> dict:
    """module: python module object with STRUCTS, TARGETS, NAME. Returns dict(text=..., errors=[...])"""
    structs = {s.name: s for s in module.STRUCTS}
    out = [getattr(module, "HEADER", HEADER)]
    errors = []
    emitted_structs = set()
    for item in module.ORDER:
        if isinstance(item, Struct):
            try:
                out.append(struct_code(repo, item))
            except (Untranslatable, OSError, SyntaxError) as ex:
                errors.append({"target": item.name, "error": str(ex)})
                # keep a placeholder so dependants still elaborate where possible
                out.append("\n".join([f"structure {item.name} {item.tparams} where"] + [f"  {f} : {lean_type(t)}" for f, t in item.fields]) + "\n")
            emitted_structs.add(item.name)
        elif isinstance(item, str):
            out.append(item + "\n")
        else:
            try:
                code, tr = translate_target(repo, item, structs, getattr(module, "TR", None))
                for k in sorted(tr.numerals):
                    if k not in (0, 1, 2, 4):
                        raise Untranslatable(f"{item.path}: numeral {k} outside the supported set")
                out.append(code)
            except (Untranslatable, OSError, SyntaxError) as ex:
                errors.append({"target": item.name, "error": str(ex)})
                out.append(f"-- UNTRANSLATABLE {item.name}: {ex}\n")
    for item in getattr(module, "REFUSED", []):
        # targets the sheet declares untranslatable (a method that raises unconditionally in a specialisation):
        # becoming translatable means the source changed under the model
        try:
            translate_target(repo, item, structs, getattr(module, "TR", None))
            errors.append({"target": item.name, "error": "expected to be refused by the translator, but it translates"})
        except (Untranslatable, OSError, SyntaxError):
            pass
    out.append("end Gen\n")
    return {"text": "\n".join(out), "errors": errors}
