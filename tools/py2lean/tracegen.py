"""tracegen: abstract every method in scope to its control-flow skeleton (lean/Flowjaxv/Model/Trace.lean)
and emit lean/Flowjaxv/Gen/Trace.lean (data only): `GenTrace.methods : List Trace.Method`,
`GenTrace.fields : List Trace.Field`.  Stdlib `ast` only; the source is parsed, never imported.

Abstraction of an expression = the variables it reads, each flagged `aspectOnly` when only a static
aspect is used (`.shape/.ndim/.size/.dtype`, `len(v)`, `v is None`, `isinstance(v, …)`), plus `arrayLib`
when the expression calls an array library or a module method (its value is an array / staged value).
The staging itself (which variables are traced, whether every test is static) is decided in Lean by
`Trace.check`, not here.
"""
from __future__ import annotations

import ast
import os

FILES = ["flowjax/bijections/" + f for f in (
    "affine.py bijection.py block_autoregressive_network.py chain.py concatenate.py coupling.py exp.py jax_transforms.py "
    "masked_autoregressive.py planar.py rational_quadratic_spline.py softplus.py tanh.py utils.py").split()] + [
    "flowjax/distributions.py", "flowjax/wrappers.py", "flowjax/bisection_search.py", "flowjax/masks.py", "flowjax/utils.py",
    "flowjax/train/losses.py"]

CONSTRUCTION = {"__init__", "__check_init__", "__post_init__", "__init_subclass__",
                # helpers called only from constructors (they inspect pytree structure eagerly)
                "_check_no_unwrappables", "_infer_axis_size_from_params", "_resolve_vmapped_axes"}
ASPECT_ATTRS = {"shape", "ndim", "size", "dtype", "cond_shape", "cond_ndim", "__name__"}
ASPECT_FUNCS = {"len", "isinstance", "callable", "type", "hasattr", "jnp.shape", "jnp.ndim", "jnp.size", "jnp.result_type",
                "jnp.broadcast_shapes", "jnp.issubdtype", "eqx.is_array", "eqx.is_inexact_array", "eqx.is_array_like", "id"}
ARRAY_PREFIXES = ("jnp.", "jax.", "lax.", "jr.", "random.", "nn.", "jnn.", "jstats.", "linalg.", "eqx.", "scan", "softplus", "logsumexp",
                  "log_softmax", "solve_triangular", "block_diag", "norm", "vmap", "stop_gradient", "tree_map", "ravel_pytree")
FORCING_FUNCS = {"bool", "int", "float", "complex", "range"}
FORCING_METHODS = {"item", "tolist", "__bool__", "__index__", "__float__", "__int__"}
HOST_PREFIXES = ("np.", "numpy.", "math.", "operator.")
TRACED_ANN = ("Array", "ArrayLike", "PRNGKeyArray", "Float[", "Int[", "Real[", "Bool[", "Shaped[", "Scalar", "AbstractUnwrappable", "PyTree")
STATIC_ANN = ("int", "bool", "str", "float", "tuple", "None", "Callable", "Literal", "slice", "Sequence[tuple", "list[float]")
TRACED_NAMES = {"x", "y", "z", "u", "condition", "key", "keys", "params", "arr", "array", "samples", "x_i", "condition_i", "carry",
                "init", "contrastive_idxs", "tree", "leaf", "pytree", "xs", "v", "ravelled_params", "unwrappable", "weights", "loc", "scale",
                "x_part", "y_part", "log_det", "state", "midpoint", "lower", "upper", "_"}
STATIC_NAMES = {"self", "cls", "shape", "cond_shape", "sample_shape", "axis", "cond_ax", "in_axes", "shapes", "in_shapes", "out_shapes",
                "block_shape", "n_blocks", "k", "eq", "func", "f", "fn", "method", "meth", "name", "length", "max_iter", "tol", "log_det_flag",
                "filter_spec", "reverse", "batch_size", "n_contrastive", "i", "err_name", "kwargs", "args", "autoregressive_fn",
                "expand_factor", "bijection", "static", "in_ranks", "out_ranks", "hidden_ranks", "mlp", "linear", "dim", "num_samples", "log_det"}


def lean_str(s):
    return '"' + s.replace("\\", "\\\\").replace('"', '\\"') + '"'


class Abs:
    """abstract an expression"""

    def __init__(self, static_locals=()):
        self.reads = []  # (name, aspectOnly)
        self.array_lib = False
        self.forces = []  # sub-expressions whose concrete value Python needs (ast nodes)
        self.hazards = []

    def add(self, name, aspect):
        if (name, aspect) not in self.reads:
            self.reads.append((name, aspect))

    def visit(self, n, aspect=False):
        if n is None:
            return
        if isinstance(n, ast.Constant):
            return
        if isinstance(n, ast.Name):
            self.add(n.id, aspect)
            return
        if isinstance(n, ast.Attribute):
            base = root_name(n)
            if n.attr in ASPECT_ATTRS:
                self.visit(n.value, True)
                return
            if base == "self" and isinstance(n.value, ast.Name):
                self.add("self." + n.attr, aspect)
                return
            self.visit(n.value, aspect)
            return
        if isinstance(n, ast.Compare):
            is_none = any(isinstance(op, (ast.Is, ast.IsNot)) for op in n.ops) and any(
                isinstance(c, ast.Constant) and c.value is None for c in [n.left] + n.comparators)
            self.visit(n.left, aspect or is_none)
            for c in n.comparators:
                self.visit(c, aspect or is_none)
            return
        if isinstance(n, ast.Call):
            fn = ast.unparse(n.func)
            if fn in ASPECT_FUNCS:
                for a in n.args:
                    self.visit(a, True)
                return
            if fn in FORCING_FUNCS:
                for a in n.args:
                    self.forces.append(a)
                    self.visit(a, aspect)
                return
            if isinstance(n.func, ast.Attribute) and n.func.attr in FORCING_METHODS:
                self.forces.append(n.func.value)
                self.visit(n.func.value, aspect)
                return
            if fn.startswith(HOST_PREFIXES) or fn == "print":
                # NumPy / math on a value: needs it concrete
                for a in n.args:
                    self.forces.append(a)
            if fn.startswith(ARRAY_PREFIXES) or (isinstance(n.func, ast.Attribute) and root_name(n.func) not in ("self",) and not fn.startswith(HOST_PREFIXES)
                                                  and n.func.attr in ("transform", "inverse", "transform_and_log_det", "inverse_and_log_det",
                                                                      "_log_prob", "_sample", "_sample_and_log_prob", "log_prob", "sample",
                                                                      "sample_and_log_prob", "sum", "mean", "reshape", "squeeze", "ravel", "set",
                                                                      "at", "astype", "sort", "split")):
                self.array_lib = True
            if isinstance(n.func, ast.Attribute):
                self.visit(n.func.value, aspect)
                if root_name(n.func) == "self" and isinstance(n.func.value, ast.Name):
                    pass
            elif isinstance(n.func, ast.Name):
                self.add(n.func.id, True)  # the callee itself is static data
            else:
                self.visit(n.func, aspect)
            for a in n.args:
                self.visit(a.value if isinstance(a, ast.Starred) else a, aspect)
            for k in n.keywords:
                self.visit(k.value, aspect)
            return
        if isinstance(n, ast.IfExp):
            self.forces.append(n.test)
            for c in (n.test, n.body, n.orelse):
                self.visit(c, aspect)
            return
        if isinstance(n, (ast.ListComp, ast.GeneratorExp, ast.SetComp, ast.DictComp)):
            inner = Abs()
            for e in ([n.elt] if not isinstance(n, ast.DictComp) else [n.key, n.value]):
                inner.visit(e, aspect)
            bound = set()
            for g in n.generators:
                gb = set()
                for t in ast.walk(g.target):
                    if isinstance(t, ast.Name):
                        gb.add(t.id)
                for c in g.ifs:
                    self.forces.append(c)
                    inner.visit(c, aspect)
                bound |= gb
                # iterating needs the iterable's static aspect only; its elements flow into the result exactly as far as
                # the bound variables are used with their full value
                full = any((b, False) in inner.reads for b in gb)
                self.forces.append(("iter", g.iter))
                self.visit(g.iter, aspect or not full)
            for nm, a in inner.reads:
                if nm not in bound:
                    self.add(nm, a)
            self.array_lib |= inner.array_lib
            self.forces += inner.forces
            return
        if isinstance(n, ast.Lambda):
            inner = Abs()
            inner.visit(n.body, aspect)
            bound = {a.arg for a in n.args.args}
            for nm, a in inner.reads:
                if nm not in bound:
                    self.add(nm, a)
            return
        if isinstance(n, ast.BoolOp):
            for v in n.values[:-1]:
                self.forces.append(v)  # short-circuit needs truthiness
            for v in n.values:
                self.visit(v, aspect)
            return
        if isinstance(n, ast.UnaryOp) and isinstance(n.op, ast.Not):
            self.forces.append(n.operand)
            self.visit(n.operand, aspect)
            return
        for ch in ast.iter_child_nodes(n):
            if isinstance(ch, (ast.expr,)):
                self.visit(ch, aspect)
            elif isinstance(ch, ast.keyword):
                self.visit(ch.value, aspect)
            elif isinstance(ch, ast.Slice):
                for p in (ch.lower, ch.upper, ch.step):
                    self.visit(p, aspect)


def root_name(n):
    while isinstance(n, ast.Attribute):
        n = n.value
    while isinstance(n, (ast.Call, ast.Subscript)):
        n = n.func if isinstance(n, ast.Call) else n.value
        while isinstance(n, ast.Attribute):
            n = n.value
    return n.id if isinstance(n, ast.Name) else None


def abs_expr(n):
    a = Abs()
    a.visit(n)
    return a


def e_code(a: Abs):
    rs = ", ".join(f"⟨{lean_str(nm)}, {'true' if asp else 'false'}⟩" for nm, asp in a.reads)
    return f"⟨[{rs}], {'true' if a.array_lib else 'false'}⟩"


def targets_of(t):
    out = []
    for n in ast.walk(t):
        if isinstance(n, ast.Name) and isinstance(n.ctx, ast.Store):
            out.append(n.id)
        elif isinstance(n, ast.Attribute) and isinstance(n.ctx, ast.Store) and isinstance(n.value, ast.Name) and n.value.id == "self":
            out.append("self." + n.attr)
    return out


class Skel:
    def __init__(self, in_constructor):
        self.in_constructor = in_constructor

    def forces(self, a: Abs, out):
        for f in a.forces:
            if isinstance(f, tuple):  # comprehension iterable: only its static aspect (length) is needed
                fa = Abs(); fa.visit(f[1], True)
                out.append(f"Stmt.force {e_code(fa)}")
            else:
                fa = abs_expr(f)
                out.append(f"Stmt.force {e_code(fa)}")

    def stmts(self, body):
        out = []
        for st in body:
            out += self.stmt(st)
        return out

    def block(self, body):
        return "[" + ", ".join(self.stmts(body)) + "]"

    def stmt(self, st):
        out = []
        if isinstance(st, ast.Expr):
            if isinstance(st.value, ast.Constant):
                return []
            a = abs_expr(st.value)
            self.forces(a, out)
            out.append(f"Stmt.exprS {e_code(a)}")
            return out
        if isinstance(st, (ast.Assign, ast.AugAssign, ast.AnnAssign)):
            val = st.value
            if val is None:
                return []
            a = abs_expr(val)
            tg = []
            for t in (st.targets if isinstance(st, ast.Assign) else [st.target]):
                tg += targets_of(t)
                if isinstance(t, ast.Subscript):
                    tg += targets_of(t.value)
            if isinstance(st, ast.AugAssign):
                for nm in targets_of(st.target):
                    a.add(nm, False)
            if any(t.startswith("self.") for t in tg) and not self.in_constructor:
                out.append(f"Stmt.hazard {lean_str('assignment to ' + ','.join(t for t in tg if t.startswith('self.')) + ' outside the constructor')}")
            self.forces(a, out)
            out.append(f"Stmt.assign [{', '.join(lean_str(t) for t in tg)}] {e_code(a)}")
            return out
        if isinstance(st, ast.If):
            a = abs_expr(st.test)
            self.forces(a, out)
            out.append(f"Stmt.ifS {e_code(a)} {self.block(st.body)} {self.block(st.orelse)}")
            return out
        if isinstance(st, ast.For):
            # iterating needs only the static aspect of the iterable (its length / structure: a JAX array iterates over its
            # static leading axis); the loop variables receive its (possibly traced) elements
            a = abs_expr(st.iter)
            self.forces(a, out)
            asp = Abs(); asp.visit(st.iter, True)
            tnames = targets_of(st.target)
            inner = []
            if (isinstance(st.iter, ast.Call) and ast.unparse(st.iter.func) == "enumerate" and isinstance(st.target, ast.Tuple)
                    and isinstance(st.target.elts[0], ast.Name)):
                # the index produced by enumerate depends only on the iterable's length
                inner.append(f"Stmt.assign [{lean_str(st.target.elts[0].id)}] {e_code(asp)}")
                tnames = [t for t in tnames if t != st.target.elts[0].id]
            tg = ', '.join(lean_str(t) for t in tnames)
            inner += [f"Stmt.assign [{tg}] {e_code(a)}"] + self.stmts(st.body + st.orelse)
            out.append(f"Stmt.forS [] {e_code(asp)} [{', '.join(inner)}]")
            return out
        if isinstance(st, ast.While):
            a = abs_expr(st.test)
            self.forces(a, out)
            out.append(f"Stmt.whileS {e_code(a)} {self.block(st.body)}")
            return out
        if isinstance(st, ast.Assert):
            a = abs_expr(st.test)
            out.append(f"Stmt.force {e_code(a)}")
            return out
        if isinstance(st, ast.Return):
            if st.value is None:
                out.append("Stmt.ret ⟨[], false⟩")
                return out
            a = abs_expr(st.value)
            self.forces(a, out)
            out.append(f"Stmt.ret {e_code(a)}")
            return out
        if isinstance(st, ast.Raise):
            return ["Stmt.raiseS"]
        if isinstance(st, (ast.Global, ast.Nonlocal)):
            return [f"Stmt.hazard {lean_str(type(st).__name__.lower() + ' ' + ','.join(st.names))}"]
        if isinstance(st, ast.FunctionDef):
            # nested function: its body runs when called; analyse it in place (its parameters are assigned from unknown callers)
            a = Abs()
            for p in st.args.args + st.args.kwonlyargs:
                pass
            inner = self.stmts(st.body)
            params = [p.arg for p in st.args.args + st.args.kwonlyargs]
            return [f"Stmt.assign [{', '.join(lean_str(p) for p in params if staged_param(p, None) == 'traced')}] ⟨[], true⟩"] + inner
        if isinstance(st, ast.ClassDef):
            return []
        if isinstance(st, (ast.With,)):
            for it in st.items:
                a = abs_expr(it.context_expr)
                out.append(f"Stmt.exprS {e_code(a)}")
            return out + self.stmts(st.body)
        if isinstance(st, ast.Try):
            return self.stmts(st.body) + sum((self.stmts(h.body) for h in st.handlers), []) + self.stmts(st.orelse) + self.stmts(st.finalbody)
        if isinstance(st, (ast.Pass, ast.Import, ast.ImportFrom, ast.Break, ast.Continue)):
            return []
        if isinstance(st, ast.Delete):
            return []
        return [f"Stmt.hazard {lean_str('unsupported statement ' + type(st).__name__)}"]


def ann_text(a):
    return ast.unparse(a) if a is not None else ""


def staged_param(name, ann):
    t = ann_text(ann)
    if t:
        if any(k in t for k in TRACED_ANN):
            return "traced"
        if any(t.startswith(k) or (" | " in t and all(any(p.strip().startswith(s) for s in STATIC_ANN) for p in t.split("|"))) for k in STATIC_ANN):
            return "static"
    if name in STATIC_NAMES:
        return "static"
    if name in TRACED_NAMES:
        return "traced"
    return "traced"  # conservative default


def field_kind(ann: str):
    if "ClassVar" in ann:
        return "static"
    if any(k in ann for k in ("AbstractBijection", "AbstractDistribution")) and any(ann.startswith(c) for c in ("tuple[", "Sequence[", "list", "Iterable")):
        return "module"
    if ann.startswith(("AbstractBijection", "AbstractDistribution", '"AbstractBijection"')):
        return "module"
    if any(k in ann for k in ("Array", "Float[", "Int[", "Real[", "Scalar", "AbstractUnwrappable", "PyTree")):
        return "array"
    if any(k in ann for k in ("AbstractBijection", "AbstractDistribution", "eqx.nn", "Affine", "Chain", "Scale", "TriangularAffine", "MLP", "Linear",
                              "StandardNormal", "_Standard", "Sequence[AbstractBijection", "list", "Iterable", "dict")):
        return "module"
    if "Callable" in ann:
        return "module"
    return "static"


def closure_captures(cls, fn, cfields):
    """lambdas / nested defs that a constructor stores into a field (directly or as an argument of the stored value) and whose body
    uses a constructor argument, or a field of self, holding arrays or a sub-module"""
    params = fn.args.args + fn.args.kwonlyargs
    pk = {p.arg: field_kind(ann_text(p.annotation)) for p in params if p.arg != "self"}
    nested = {st.name: st for st in ast.walk(fn) if isinstance(st, ast.FunctionDef) and st is not fn}
    # LOCAL variables of the constructor computed from an array / module argument (or from such a local) hold arrays too: a closure
    # capturing one of them hides that state just as capturing the argument itself would.  Static queries (`.shape`, `.ndim`, `.dtype`,
    # `.size`, `len(…)`, `jnp.shape(…)`, `jnp.ndim(…)`, `jnp.broadcast_shapes(…)`) do not propagate.
    STATIC_ATTRS = {"shape", "ndim", "dtype", "size"}
    STATIC_CALLS = {"len", "jnp.shape", "jnp.ndim", "jnp.broadcast_shapes", "isinstance", "type"}

    def mentions(e, names):
        if isinstance(e, ast.Attribute) and e.attr in STATIC_ATTRS:
            return False
        if isinstance(e, ast.Call) and ast.unparse(e.func) in STATIC_CALLS:
            return False
        if isinstance(e, (ast.Lambda, ast.FunctionDef)):
            return False
        if isinstance(e, ast.Name):
            return e.id in names
        return any(mentions(ch, names) for ch in ast.iter_child_nodes(e))

    def own_statements(f):
        for st in f.body:
            stack = [st]
            while stack:
                x = stack.pop()
                if isinstance(x, (ast.FunctionDef, ast.Lambda)) and x is not f:
                    continue
                yield x
                stack.extend(ast.iter_child_nodes(x))

    tainted = {a for a, k in pk.items() if k in ("array", "module")}
    changed = True
    while changed:
        changed = False
        for st in own_statements(fn):
            if isinstance(st, (ast.Assign, ast.AnnAssign)) and getattr(st, "value", None) is not None:
                tg = st.targets if isinstance(st, ast.Assign) else [st.target]
                names = [n.id for t in tg for n in ast.walk(t) if isinstance(n, ast.Name) and not (isinstance(t, ast.Attribute))]
                if names and mentions(st.value, tainted):
                    for nm in names:
                        if nm not in tainted:
                            tainted.add(nm)
                            changed = True
    for nm in tainted:
        pk.setdefault(nm, "array")
    out = []
    for st in ast.walk(fn):
        if not isinstance(st, (ast.Assign, ast.AnnAssign)) or getattr(st, "value", None) is None:
            continue
        tgts = st.targets if isinstance(st, ast.Assign) else [st.target]
        fields = [t.attr for t in tgts if isinstance(t, ast.Attribute) and isinstance(t.value, ast.Name) and t.value.id == "self"]
        if not fields:
            continue
        funs = [n for n in ast.walk(st.value) if isinstance(n, ast.Lambda)]
        funs += [nested[n.id] for n in ast.walk(st.value) if isinstance(n, ast.Name) and n.id in nested]
        for f in funs:
            own = {a.arg for a in f.args.args + f.args.kwonlyargs}
            body = [f.body] if isinstance(f, ast.Lambda) else f.body
            for b in body:
                for n in ast.walk(b):
                    if isinstance(n, ast.Name) and isinstance(n.ctx, ast.Load) and n.id not in own and pk.get(n.id) in ("array", "module"):
                        out.extend((cls, fld, n.id) for fld in fields)
                    if isinstance(n, ast.Attribute) and isinstance(n.value, ast.Name) and n.value.id == "self" and cfields.get(n.attr) in ("array", "module"):
                        out.extend((cls, fld, "self." + n.attr) for fld in fields)
    return sorted(set(out))


def generate(repo: str) -> dict:
    methods, fields, errors, closures = [], [], [], []
    for rel in FILES:
        path = os.path.join(repo, rel)
        try:
            tree = ast.parse(open(path).read())
        except (OSError, SyntaxError) as ex:
            errors.append({"target": rel, "error": str(ex)})
            continue

        def do_func(cls, fn, cfields):
            if fn.name in CONSTRUCTION:
                return
            if any(isinstance(d, ast.Name) and d.id in ("abstractmethod", "property") and d.id == "abstractmethod" for d in fn.decorator_list):
                return
            params = fn.args.args + fn.args.kwonlyargs + ([fn.args.vararg] if fn.args.vararg else []) + ([fn.args.kwarg] if fn.args.kwarg else [])
            traced = [p.arg for p in params if p.arg not in ("self", "cls") and staged_param(p.arg, p.annotation) == "traced"]
            # sub-modules contain array leaves: their VALUE is traced, only their structure (length, shapes, None-ness) is static
            traced += ["self." + f for f, k in cfields.items() if k in ("array", "module")]
            body = Skel(False).block(fn.body)
            methods.append((cls or "", fn.name, rel, traced, body))

        for node in tree.body:
            if isinstance(node, ast.ClassDef):
                cf = {}
                for st in node.body:
                    if isinstance(st, ast.AnnAssign) and isinstance(st.target, ast.Name):
                        ann = ann_text(st.annotation)
                        kind = field_kind(ann)
                        marked = "static=True" in (ast.unparse(st.value) if st.value is not None else "")
                        cf[st.target.id] = kind
                        fields.append((node.name, st.target.id, kind, marked))
                for st in node.body:
                    if isinstance(st, ast.FunctionDef):
                        do_func(node.name, st, cf)
                        if st.name in ("__init__", "__post_init__"):
                            closures.extend(closure_captures(node.name, st, cf))
            elif isinstance(node, ast.FunctionDef):
                do_func(None, node, {})
            elif isinstance(node, (ast.Assign, ast.AugAssign)) and not isinstance(getattr(node, "value", None), (ast.Constant, ast.Call, ast.Name, ast.Attribute, ast.Subscript, ast.Tuple, ast.BinOp)):
                pass
    lines = ["/-", "GENERATED by tools/py2lean/tracegen.py from /repo on every run — do not edit.", "Control-flow skeletons of every method in scope and the dataclass field table (C14).", "-/",
             "import Flowjaxv.Model.Trace", "set_option maxRecDepth 4000", "namespace GenTrace", "open Trace", ""]
    names = []
    for i, (cls, name, rel, traced, body) in enumerate(methods):
        dn = f"m{i}"
        names.append(dn)
        lines.append(f"/-- `{rel}` :: `{(cls + '.') if cls else ''}{name}` -/")
        lines.append(f"def {dn} : Method := {{ cls := {lean_str(cls)}, name := {lean_str(name)}, file := {lean_str(rel)}, tracedParams := [{', '.join(lean_str(t) for t in traced)}], body := {body} }}")
        lines.append("")
    lines.append("def methods : List Method := [" + ", ".join(names) + "]")
    lines.append("")
    lines.append("def fields : List Field := [")
    lines.append(",\n".join(f"  ⟨{lean_str(c)}, {lean_str(n)}, FieldKind.{k}, {'true' if m else 'false'}⟩" for c, n, k, m in fields))
    lines.append("]")
    lines.append("")
    lines.append("/-- (class, field, captured name): a lambda / nested def stored into a field by a constructor whose body uses a constructor")
    lines.append("argument or a field that holds arrays or a sub-module — state that would live in a closure instead of the pytree's leaves -/")
    lines.append("def closureCaptures : List (String × String × String) := [" + ", ".join(f"({lean_str(c)}, {lean_str(f)}, {lean_str(n)})" for c, f, n in closures) + "]")
    lines.append("")
    lines.append("end GenTrace")
    return {"Trace": {"text": "\n".join(lines) + "\n", "errors": errors, "targets": [f"{c}.{n}" if c else n for c, n, *_ in methods]}}


if __name__ == "__main__":
    import sys
    r = generate(sys.argv[1] if len(sys.argv) > 1 else "/repo")
    open(sys.argv[2] if len(sys.argv) > 2 else "/dev/stdout", "w").write(r["Trace"]["text"])
