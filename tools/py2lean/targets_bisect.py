"""Typing sheet for the loop bodies / conditions / prologues / epilogues of flowjax/bisection_search.py.
The `lax.while_loop` and `lax.scan` combinators themselves are hand-modelled (Model/Bisection.lean)."""
from py2lean import Struct, Target, S, V, B, I, T, R

NAME = "Bisection"
F = "flowjax/bisection_search.py"
FN = ("F", S, S)
State = Struct("AdaptState", [("lower", S), ("upper", S), ("expand_by", S), ("lower_fn_sign", S), ("upper_fn_sign", S), ("iteration", I)],
               None, None, defaults={"iteration": "0"})
STRUCTS = [State]
ST = R("AdaptState")
BS = T(S, S, I)

ORDER = [
    State,
    Target(F, "_adapt_interval_to_include_root.cond_fn", "adaptCond", [("state", ST)], B),
    Target(F, "_adapt_interval_to_include_root.body_fn", "adaptBody", [("state", ST)], ST,
           free=[("func", FN), ("expand_factor", S)], ctors={"_State": "AdaptState"}),
    Target(F, "_adapt_interval_to_include_root", "adaptInit", [("func", FN), ("lower", S), ("upper", S)], ST,
           part=("before", "lax.while_loop"), ret_expr="init_state", ctors={"_State": "AdaptState"}),
    Target(F, "_adapt_interval_to_include_root", "adaptExit", [], T(S, S, I),
           part=("after", "lax.while_loop"), pre_env={"state": ST}, free=[("state", ST)]),
    Target(F, "_bisection_search.cond_fn", "bisCond", [("state", BS)], B, free=[("tol", S), ("max_iter", I)]),
    Target(F, "_bisection_search.body_fn", "bisBody", [("state", BS)], BS, free=[("func", FN)]),
    Target(F, "_bisection_search", "bisExit", [], S, part=("after", "lax.while_loop"),
           free=[("lower", S), ("upper", S)], ret_expr="root"),
    # the prologue of `_bisection_search` (everything before its while_loop): the initial loop state AND the values of the closure
    # variables `tol`, `max_iter` the loop condition will read (a rebinding before the loop would change them)
    Target(F, "_bisection_search", "bisInit", [("lower", S), ("upper", S), ("tol", S), ("max_iter", I)], T(BS, S, I),
           part=("before", "lax.while_loop"), ret_expr="(init_state, tol, max_iter)", free=[("adapt", ("F", S, S, T(S, S, I)))],
           calls={"_adapt_interval_to_include_root": ("adapt", T(S, S, I), [], ("func",), ["lower", "upper"])},
           tuple_types={"init_state": (S, S, I)}),
    # the initial carry of the autoregressive scan
    Target(F, "_autoregressive_bisection_search", "arInit", [("lower", S), ("upper", S), ("length", "Nat")], T(V, I),
           part=("before", "lax.scan"), ret_expr="init", tuple_types={"init": (V, I)}),
]
TARGETS = [t for t in ORDER if isinstance(t, Target)]
