"""Shared helpers for the correspondence harness and the check driver."""
from __future__ import annotations

import json
import math
import os
import struct
import subprocess
import sys
import time

ROOT = os.path.dirname(os.path.dirname(os.path.abspath(__file__)))
LEAN = os.path.join(ROOT, "lean")
REPO = os.environ.get("VERIF_REPO", "/repo")
DRIVER = os.path.join(LEAN, ".lake", "build", "bin", "driver")


# ----------------------------------------------------------------- float <-> bits
def f2b(x) -> str:
    return str(struct.unpack("<Q", struct.pack("<d", float(x)))[0])


def b2f(s: str) -> float:
    return struct.unpack("<d", struct.pack("<Q", int(s)))[0]


def fs2b(xs) -> str:
    xs = [float(v) for v in xs]
    return ",".join(f2b(v) for v in xs) if xs else "-"


def b2fs(s: str):
    return [] if s == "-" else [b2f(t) for t in s.split(",")]


def ints(xs) -> str:
    xs = list(xs)
    return ",".join(str(int(v)) for v in xs) if xs else "-"


def fclass(x: float) -> str:
    if math.isnan(x):
        return "nan"
    if math.isinf(x):
        return "+inf" if x > 0 else "-inf"
    return "fin"


def close(a: float, b: float, rtol=1e-9, atol=1e-11) -> bool:
    """Same special-value class and, when finite, |a-b| <= atol + rtol*max(|a|,|b|)."""
    ca, cb = fclass(a), fclass(b)
    if ca != cb:
        return False
    if ca != "fin":
        return True
    return abs(a - b) <= atol + rtol * max(abs(a), abs(b))


def allclose(xs, ys, **kw) -> bool:
    xs, ys = list(xs), list(ys)
    return len(xs) == len(ys) and all(close(a, b, **kw) for a, b in zip(xs, ys))


# ----------------------------------------------------------------- model driver
class ModelError(Exception):
    pass


def run_model(lines, timeout=600):
    """Pipe op lines to the compiled Lean driver; returns the list of output lines."""
    if not lines:
        return []
    if not os.path.exists(DRIVER):
        raise ModelError("driver not built: " + DRIVER)
    inp = "\n".join(lines) + "\n"
    p = subprocess.run([DRIVER], input=inp, capture_output=True, text=True, timeout=timeout)
    if p.returncode != 0:
        raise ModelError(f"driver exit {p.returncode}: {p.stderr[-2000:]}")
    out = p.stdout.split("\n")
    if out and out[-1] == "":
        out.pop()
    if len(out) != len(lines):
        raise ModelError(f"driver returned {len(out)} lines for {len(lines)} ops")
    return out


# ----------------------------------------------------------------- correspondence bookkeeping
class Corr:
    """Collects impl-vs-model comparisons for one run."""

    def __init__(self, prop: str, seed: int, tier: str):
        self.prop, self.seed, self.tier = prop, seed, tier
        self.evaluations = 0
        self.nontrivial: set = set()
        self.mismatches: list = []
        self.samples: list = []
        self.dist: dict = {}
        self.notes: list = []
        self.t0 = time.time()

    def count(self, key: str, n: int = 1):
        self.dist[key] = self.dist.get(key, 0) + n

    def case(self, sig, nontrivial: bool, sample=None):
        self.evaluations += 1
        if nontrivial:
            self.nontrivial.add(sig)
        if sample is not None and len(self.samples) < 12:
            self.samples.append(sample)

    def mismatch(self, name: str, **info):
        if len(self.mismatches) < 50:
            self.mismatches.append(dict(correspondence=name, **info))
        self.count("mismatch:" + name)

    def result(self) -> dict:
        return {
            "property": self.prop,
            "seed": self.seed,
            "tier": self.tier,
            "evaluations": self.evaluations,
            "distinct_nontrivial": len(self.nontrivial),
            "mismatches": self.mismatches,
            "samples": self.samples,
            "distribution": self.dist,
            "notes": self.notes,
            "wall_s": round(time.time() - self.t0, 2),
        }


def jsonable(x):
    try:
        import numpy as np
        if isinstance(x, np.ndarray):
            return x.tolist()
        if isinstance(x, (np.floating, np.integer, np.bool_)):
            return x.item()
    except Exception:
        pass
    if hasattr(x, "tolist"):
        return x.tolist()
    if isinstance(x, float) and (math.isnan(x) or math.isinf(x)):
        return repr(x)
    if isinstance(x, (set, tuple)):
        return list(x)
    return repr(x)


def dump(obj, path):
    with open(path, "w") as f:
        json.dump(obj, f, indent=1, default=jsonable)
