#!/bin/bash
# usage: tools/harmless.sh <patch.diff> <Cxx> [<Cxx>...]
# apply a behaviour-preserving rewrite to a scratch clone of /repo (VERIF_REPO) and run the given checks against it (§13 of DESIGN.md)
cd "$(dirname "$0")/.."
P=$1; shift
R=/tmp/harmless_repo
rm -rf $R && git clone -q /repo $R && git -C $R apply "$P" || { echo "APPLY FAILED $P"; exit 2; }
for c in "$@"; do
  out=$(VERIF_REPO=$R ./check $c --tier quick 2>&1); rc=$?
  echo "$(basename $P) $c exit=$rc $(echo "$out" | grep -E '^\[' | cut -c1-120)"
  echo "$out" | grep -E "VIOLATION|broken" | cut -c1-300 | head -4
done
rm -rf $R
/venv/bin/python tools/py2lean/gen.py /repo >/dev/null
